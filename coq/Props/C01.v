(* Props/C01.v — property C01 "Merged output is chronological, with a deterministic tie rule".
   Statements only; every proof is `exact <lemma>`.  The model of the merge is
   Model/Merge.v; Props/C06.v shows that every schedule of the coordinator prints
   exactly [merge srcs]. *)
From Coq Require Import List ZArith Bool Sorted Permutation.
From S4.Model Require Import Merge.
From S4.Proofs Require Import MergeProofs MergeExamples.
Import ListNotations.
Open Scope Z_scope.

(* fuel = total number of messages suffices: merge never runs out of fuel *)
Theorem C01_merge_fuel_enough : forall n Ss,
  (total Ss <= n)%nat -> merge_fuel n Ss = Done (merge Ss).
Proof. exact merge_fuel_enough. Qed.
Print Assumptions C01_merge_fuel_enough.

(* the defining equation: emit the pick, continue with its source advanced *)
Theorem C01_merge_eq : forall Ss,
  merge Ss = match pick Ss with
             | None => []
             | Some (i, m) => m :: merge (pop i Ss)
             end.
Proof. exact merge_eq. Qed.
Print Assumptions C01_merge_eq.

(* the pick is the earliest pending head, the first such source on ties *)
Theorem C01_pick_earliest : forall Ss i m, pick Ss = Some (i, m) -> earliest_at Ss i m.
Proof. exact pick_earliest. Qed.
Print Assumptions C01_pick_earliest.

(* nothing dropped, repeated or reordered within a source *)
Theorem C01_merge_per_source_order : forall Ss,
  well_tagged Ss -> forall i, filter (from_src i) (merge Ss) = nth i Ss [].
Proof. exact merge_per_source_order. Qed.
Print Assumptions C01_merge_per_source_order.

Theorem C01_merge_perm : forall Ss, Permutation (merge Ss) (concat Ss).
Proof. exact merge_perm. Qed.
Print Assumptions C01_merge_perm.

(* at every step k the emitted message is the earliest pending head over the
   sources as they stand after k emissions ([after k Ss]); on equal instants it
   comes from the first such source *)
Theorem C01_merge_earliest_pending : forall k Ss m,
  nth_error (merge Ss) k = Some m -> exists i, earliest_at (after k Ss) i m.
Proof. exact merge_earliest_pending. Qed.
Print Assumptions C01_merge_earliest_pending.

(* [after k Ss] is what it should be: the output splits there, and source j
   holds exactly the messages it has not yet emitted *)
Theorem C01_after_merge : forall k Ss, merge Ss = firstn k (merge Ss) ++ merge (after k Ss).
Proof. exact after_merge. Qed.
Print Assumptions C01_after_merge.

Theorem C01_after_spec : forall Ss k j,
  well_tagged Ss ->
  nth j Ss [] = filter (from_src j) (firstn k (merge Ss)) ++ nth j (after k Ss) [].
Proof. exact after_spec. Qed.
Print Assumptions C01_after_spec.

(* every source chronological => the whole output chronological *)
Theorem C01_merge_sorted : forall Ss, Forall sorted_inst Ss -> sorted_inst (merge Ss).
Proof. exact merge_sorted. Qed.
Print Assumptions C01_merge_sorted.

(* the tie rule in closed form: for chronological sources the output is the stable
   sort by instant of the sources concatenated in the order they were named *)
Theorem C01_merge_is_stable_sort : forall Ss,
  Forall sorted_inst Ss -> merge Ss = stable_sort (concat Ss).
Proof. exact merge_is_stable_sort. Qed.
Print Assumptions C01_merge_is_stable_sort.

(* ... and stable_sort is a stable sort: sorted, a permutation, and the messages of
   any one instant keep their input order *)
Theorem C01_stable_sort_sorted : forall l, sorted_inst (stable_sort l).
Proof. exact stable_sort_sorted. Qed.
Print Assumptions C01_stable_sort_sorted.

Theorem C01_stable_sort_perm : forall l, Permutation (stable_sort l) l.
Proof. exact stable_sort_perm. Qed.
Print Assumptions C01_stable_sort_perm.

Theorem C01_stable_sort_stable : forall k l,
  filter (at_inst k) (stable_sort l) = filter (at_inst k) l.
Proof. exact stable_sort_filter. Qed.
Print Assumptions C01_stable_sort_stable.

(* tie rule, direct form: messages carrying the same instant are printed in source
   order, and within a source in file order *)
Theorem C01_tie_rule : forall k Ss,
  Forall sorted_inst Ss -> filter (at_inst k) (merge Ss) = filter (at_inst k) (concat Ss).
Proof. exact merge_filter_inst. Qed.
Print Assumptions C01_tie_rule.

(* sources with no message (anywhere in the list) change nothing *)
Theorem C01_merge_empty_sources : forall X X', nil_ext X X' -> merge X = merge X'.
Proof. exact merge_nil_ext. Qed.
Print Assumptions C01_merge_empty_sources.

Theorem C01_merge_insert_empty : forall A B, merge (A ++ [] :: B) = merge (A ++ B).
Proof. exact merge_insert_empty. Qed.
Print Assumptions C01_merge_insert_empty.

Theorem C01_merge_remove_empties : forall X, merge (filter nonempty X) = merge X.
Proof. exact merge_remove_empties. Qed.
Print Assumptions C01_merge_remove_empties.

(* sources given as lists of instants are well tagged (the hypotheses above are satisfiable) *)
Theorem C01_tag_srcs_well_tagged : forall X, well_tagged (tag_srcs X).
Proof. exact tag_srcs_well_tagged. Qed.
Print Assumptions C01_tag_srcs_well_tagged.

(* ---- examples: cross- and intra-source ties, non-chronological source, first minimum ---- *)
Example C01_ex_merge_ties :
  view (merge ex_srcs) =
  [(2, 0, 0); (0, 0, 1); (0, 1, 1); (1, 0, 1); (2, 1, 1); (1, 1, 2); (1, 2, 2); (0, 2, 3)].
Proof. exact ex_merge_ties. Qed.
Print Assumptions C01_ex_merge_ties.

Example C01_ex_hypotheses : Forall sorted_inst ex_srcs /\ well_tagged ex_srcs.
Proof. exact (conj ex_sorted ex_well_tagged). Qed.
Print Assumptions C01_ex_hypotheses.

Example C01_ex_unsorted_source :
  view (merge (tag_srcs [[5; 1]; [3]])) = [(1, 0, 3); (0, 0, 5); (0, 1, 1)].
Proof. exact ex_unsorted_source. Qed.
Print Assumptions C01_ex_unsorted_source.

Example C01_ex_first_minimum :
  view (merge (tag_srcs [[7]; [7]; [7]])) = [(0, 0, 7); (1, 0, 7); (2, 0, 7)].
Proof. exact ex_first_minimum. Qed.
Print Assumptions C01_ex_first_minimum.

(* ==========================================================================================
   WHOLE-PROGRAM COMPOSITION (work package H, order part; the schedule part is in Props/C06.v).
   Model/Program.v: [program_m] = the code-level composition (block-wise reader at block size bs ->
   search loop -> worker datums -> coordinator under a schedule -> printer variant + 2056-byte
   buffer -> separator / supplied newline / summary accounting); [program_spec] = stable sort by
   instant of the windowed spec groups of every file, canonically decorated, totals as measures of
   that output.  The component theorems of C02 C03 C01 C06 C13 C19 are used, not re-proved.
   ========================================================================================== *)
From Coq Require Import NArith.
From S4.Base Require Bytes Chunk.
From S4.Spec Require LinesSpec WindowSpec.
From S4.Model Require Lines Syslines Search Coord Print Summary Gate.
From S4.Model Require Import Program.
From S4.Proofs Require SyslinesProofs PrintStrip SummaryProofs.
From S4.Proofs Require Import ProgramProofs ProgramExamples.

(* THE composition theorem: for every timestamp oracle, channel capacity, block size > 0, schedule,
   options and list of files:
     domain      every file chronological (C03 binary search, C01 closed form), every message
                 >= 2 bytes (C03), dt_beg <= dt_end (C13)
     gate_passed stage 1 (block-zero analysis) accepts every file AT THIS block size (C12: F3a-c)
     complete    the schedule is an execution of the coordinator that ends with every channel closed
   the code-level program prints exactly the specification and tallies exactly its measures *)
Theorem C01_program_correct : forall dated dtspan cap bs sched o files,
  (0 < bs)%N -> domain dated dtspan files -> gate_passed dated bs files ->
  complete dated dtspan cap o files sched ->
  program_m dated dtspan cap bs sched o files = POk (program_spec dated dtspan o files).
Proof. exact program_correct. Qed.
Print Assumptions C01_program_correct.

(* the specification is the print-site model run on the SPEC events (so every C13 / C19 theorem
   about Summary.run speaks about program_spec) ... *)
Theorem C01_program_spec_is_run : forall dated dtspan, span_ok dtspan -> forall o files,
  let R := Summary.run (op_cli o) (sources_of files) (spec_events dated dtspan o files) in
  program_spec dated dtspan o files = (Summary.k_stdout R, Summary.k_total R).
Proof. exact spec_is_run. Qed.
Print Assumptions C01_program_spec_is_run.

(* ... and with --color never it is plain bytes: per message, per line, file field ++ date field ++
   line; then the separator; then one newline when the file's last message lacks it *)
Theorem C01_program_spec_plain : forall dated dtspan o files,
  span_ok dtspan -> Summary.c_colour (op_cli o) = false ->
  let c := op_cli o in
  let evs := spec_events dated dtspan o files in
  fst (program_spec dated dtspan o files) =
  Print.obs (render_bytes c (Summary.popt_of c (sources_of files) evs) evs).
Proof. exact spec_stdout_plain. Qed.
Print Assumptions C01_program_spec_plain.

(* C12 at program level: block-size independence of the WHOLE output, for the block sizes at which
   stage 1 accepts the files *)
Theorem C01_program_bs_independent : forall dated dtspan cap bs1 bs2 sched o files,
  (0 < bs1)%N -> (0 < bs2)%N -> domain dated dtspan files ->
  gate_passed dated bs1 files -> gate_passed dated bs2 files ->
  complete dated dtspan cap o files sched ->
  program_m dated dtspan cap bs1 sched o files = program_m dated dtspan cap bs2 sched o files.
Proof. exact program_bs_independent. Qed.
Print Assumptions C01_program_bs_independent.

(* C19 at program level: the totals are measures of the output *)
Theorem C01_program_total_bytes : forall dated dtspan, span_ok dtspan -> forall o files,
  Summary.c_summary (op_cli o) = true ->
  let r := program_spec dated dtspan o files in
  Summary.u_bytes (snd r) = Print.blen (Print.payload (fst r)) /\
  (Summary.c_colour (op_cli o) = false -> forall g, Summary.u_bytes (snd r) = Print.blen (Print.concr g (fst r))).
Proof. exact program_total_bytes. Qed.
Print Assumptions C01_program_total_bytes.

Theorem C01_program_counters : forall dated dtspan o files, Summary.c_summary (op_cli o) = true ->
  let evs := spec_events dated dtspan o files in
  let t := snd (program_spec dated dtspan o files) in
  Summary.u_sys t = N.of_nat (length evs) /\
  Summary.u_lines t = N.of_nat (length (concat (map (fun e => Print.m_lines (Summary.e_msg e)) evs))) /\
  Summary.u_fixed t = 0%N /\ Summary.u_evtx t = 0%N /\ Summary.u_journal t = 0%N /\
  SummaryProofs.is_min (Summary.u_first t) (map ev_t evs) /\
  SummaryProofs.is_max (Summary.u_last t) (map ev_t evs).
Proof. exact program_counters. Qed.
Print Assumptions C01_program_counters.

(* C13 at program level: deleting the file field, the date field and the separator from the
   decorated output leaves the output of the undecorated invocation; with colour on, after
   deleting the SGR sequences *)
Theorem C01_program_strip : forall dated dtspan, span_ok dtspan -> forall o files,
  let c := op_cli o in
  let evs := spec_events dated dtspan o files in
  Print.strip_msgs (Summary.shape_of c (Summary.popt_of c (sources_of files) evs) evs)
                   (Print.payload (fst (program_spec dated dtspan o files)))
  = Some (Print.payload (fst (program_spec dated dtspan (undecorated_opts o) files))).
Proof. exact program_strip. Qed.
Print Assumptions C01_program_strip.

Theorem C01_program_strip_sgr : forall dated dtspan o files g, PrintStrip.sgr_ok g ->
  PrintStrip.no_esc (Print.payload (fst (program_spec dated dtspan o files))) ->
  Print.strip_sgr (Print.concr g (fst (program_spec dated dtspan o files))) =
  Print.payload (fst (program_spec dated dtspan o files)).
Proof. exact program_strip_sgr. Qed.
Print Assumptions C01_program_strip_sgr.

(* the same identities for what the CODE-LEVEL model prints, at any block size under any complete schedule *)
Theorem C01_program_m_totals : forall dated dtspan cap bs sched o files out tot,
  (0 < bs)%N -> domain dated dtspan files -> gate_passed dated bs files ->
  complete dated dtspan cap o files sched ->
  program_m dated dtspan cap bs sched o files = POk (out, tot) ->
  Summary.c_summary (op_cli o) = true ->
  Summary.u_bytes tot = Print.blen (Print.payload out) /\
  (Summary.c_colour (op_cli o) = false -> forall g, Summary.u_bytes tot = Print.blen (Print.concr g out)) /\
  Summary.u_sys tot = N.of_nat (length (spec_events dated dtspan o files)).
Proof. exact program_m_totals. Qed.
Print Assumptions C01_program_m_totals.

Theorem C01_program_m_strip : forall dated dtspan cap bs sched sched0 o files out tot out0 tot0,
  (0 < bs)%N -> domain dated dtspan files -> gate_passed dated bs files ->
  complete dated dtspan cap o files sched ->
  complete dated dtspan cap (undecorated_opts o) files sched0 ->
  program_m dated dtspan cap bs sched o files = POk (out, tot) ->
  program_m dated dtspan cap bs sched0 (undecorated_opts o) files = POk (out0, tot0) ->
  let c := op_cli o in
  let evs := spec_events dated dtspan o files in
  Print.strip_msgs (Summary.shape_of c (Summary.popt_of c (sources_of files) evs) evs) (Print.payload out)
  = Some (Print.payload out0).
Proof. exact program_m_strip. Qed.
Print Assumptions C01_program_m_strip.

(* ---- the ADAPTER lemmas (where the component models meet) ---- *)

(* A1, reader -> search: the block-wise reader of C02, observed through (begin, length, instant),
   IS the `find` oracle that Model/Search.v (C03) defines from the layout of the file's spec
   groups — at every offset, for every block size; and what it returns is the spec group at that
   offset, every Line assembled from non-empty parts *)
Theorem C01_adapter_reader_is_find : forall dated bs (f : Chunk.file) fo, (0 < bs)%N ->
  Forall (fun g => (1 <= glen g)%N) (LinesSpec.syslines dated f) ->
  frel rmsg r_sl (Pm dated bs f) (reader_find dated bs f fo) (Search.find (gs_of dated f) fo).
Proof. exact reader_find_rel. Qed.
Print Assumptions C01_adapter_reader_is_find.

(* a file WITHOUT any dated line: the reader is Done at every offset — not Panic, not OutOfFuel
   (C02's find_sysline_correct equates observations in which all three read None) *)
Theorem C01_adapter_reader_no_message : forall dated bs (f : Chunk.file) fo, (0 < bs)%N ->
  LinesSpec.syslines dated f = [] -> Syslines.find_sysline_m dated bs f fo = Lines.Done.
Proof. exact find_sysline_no_message. Qed.
Print Assumptions C01_adapter_reader_no_message.

(* the search loop run against ANY find that agrees with Search.find returns what Model/Search.v
   returns (the payloads it hands on satisfy whatever invariant P the find guarantees) *)
Theorem C01_adapter_gsearch_refines : forall (M : Type) (view : M -> Search.sl) (gfind : N -> gfres M)
    (P : M -> Prop) (gs : list Search.sl) (filesz : N),
  (forall fo, frel M view P (gfind fo) (Search.find gs fo)) ->
  (forall a fo, Search.linear gs a fo (Search.lfuel gs) <> Search.SOutOfFuel) ->
  (Search.lfuel gs <= g_lfuel filesz)%nat ->
  forall streamed a b out,
  Search.text_out gs filesz streamed a b = (out, Search.Ok) ->
  exists ms, g_text_out view gfind filesz streamed a b = (ms, GOk) /\
             map (fun mb => view (fst mb)) ms = out /\
             Forall (fun mb => P (fst mb) /\ snd mb = g_is_last view filesz (fst mb)) ms.
Proof. exact gsearch_refines. Qed.
Print Assumptions C01_adapter_gsearch_refines.

(* one worker: the NewMessage datums of a file are its windowed spec groups with their is-last flags *)
Theorem C01_adapter_worker_stream : forall dated bs (f : Chunk.file) streamed a b, (0 < bs)%N ->
  file_chronological dated f -> file_msgs_2bytes dated f ->
  exists ms, g_text_out r_sl (reader_find dated bs f) (Chunk.lenN f) streamed a b = (ms, GOk) /\
    map (fun mb : rmsg * bool => (SyslinesProofs.obs_sysline bs f (r_sys (fst mb)), snd mb)) ms
      = spec_file_msgs dated a b f /\
    Forall (fun mb : rmsg * bool => Forall (line_parts_ok bs f) (snd (r_sys (fst mb))) /\ snd (r_sys (fst mb)) <> []) ms.
Proof. exact worker_stream. Qed.
Print Assumptions C01_adapter_worker_stream.

(* A2/A3, worker -> coordinator -> print site: the tags the merge emits, looked up, are the stable
   sort by instant of the events themselves *)
Theorem C01_adapter_printed_events : forall EC,
  map (ev_of EC) (stable_sort (concat (tags_of EC))) = stable_sort_by ev_t (concat EC).
Proof. exact printed_events. Qed.
Print Assumptions C01_adapter_printed_events.

(* A3, reader -> printer: a Sysline as line parts and its spec group as whole lines are the same
   message for the printer, and both satisfy its preconditions *)
Theorem C01_adapter_pmsg_sim : forall dtspan, span_ok dtspan -> forall bs (f : Chunk.file) sl,
  Forall (line_parts_ok bs f) (snd sl) -> snd sl <> [] ->
  msg_sim (pmsg_of dtspan bs f sl) (spec_msg dtspan (SyslinesProofs.obs_sysline bs f sl)).
Proof. exact pmsg_sim. Qed.
Print Assumptions C01_adapter_pmsg_sim.

(* the print site (variant dispatch, buffer, separator, newline, accounting) on such events = the
   canonical rendering and the measures of the spec events *)
Theorem C01_adapter_print_site : forall c srcs evs1 evs2, Forall2 ev_sim evs1 evs2 ->
  Summary.k_stdout (Summary.run c srcs evs1) = render c (Summary.popt_of c srcs evs2) (fun _ => None) evs2 /\
  Summary.k_total (Summary.run c srcs evs1) = spec_totals c evs2 (Summary.k_stdout (Summary.run c srcs evs1)).
Proof. exact (fun c srcs evs1 evs2 S => conj (run_stdout_sim c srcs evs1 evs2 S) (run_totals_sim c srcs evs1 evs2 S)). Qed.
Print Assumptions C01_adapter_print_site.

(* ---- the hypotheses are satisfiable: three files (plain, streamed, plain; one multi-line message;
   one file without final newline), ties across all three files and inside one, a window that
   cuts every file, -n -w, a date field, a separator, --summary; block sizes 3 and 64; two
   different complete schedules (capacity 1 lazy workers, capacity 5 eager workers) ---- *)
Example C01_program_example_domain :
  domain dated_ex dtspan_ex files_ex /\
  gate_passed dated_ex 3 files_ex /\ gate_passed dated_ex 64 files_ex /\
  complete dated_ex dtspan_ex 1 opts_ex files_ex sched_lazy /\
  complete dated_ex dtspan_ex 5 opts_ex files_ex sched_eager /\
  sched_lazy <> sched_eager.
Proof. exact ex_domain. Qed.
Print Assumptions C01_program_example_domain.

Example C01_program_example :
  program_m dated_ex dtspan_ex 1 3 sched_lazy opts_ex files_ex = POk (program_spec dated_ex dtspan_ex opts_ex files_ex) /\
  program_m dated_ex dtspan_ex 5 64 sched_eager opts_ex files_ex = POk (program_spec dated_ex dtspan_ex opts_ex files_ex) /\
  fst (program_spec dated_ex dtspan_ex opts_ex files_ex) = Print.obs expected_ex /\
  let t := snd (program_spec dated_ex dtspan_ex opts_ex files_ex) in
  Summary.u_bytes t = 68%N /\ Summary.u_lines t = 7%N /\ Summary.u_sys t = 6%N /\
  Summary.u_first t = Some 2000000000%Z /\ Summary.u_last t = Some 4000000000%Z.
Proof. exact ex_program. Qed.
Print Assumptions C01_program_example.

(* a file that stage 1 rejects sends no message: outside gate_passed *)
Example C01_program_example_gate_rejects :
  Gate.gate dated_ex 64 f_small = Gate.FileErrTooSmall /\
  exists out t, program_m dated_ex dtspan_ex 1 64 [Coord.Send 0; Coord.Recv 0; Coord.Send 0; Coord.Recv 0]
                          (mkOptions cli_ex None None) files_small = POk (out, t) /\ out = [].
Proof. exact ex_gate_rejects. Qed.
Print Assumptions C01_program_example_gate_rejects.

(* ---- the hypotheses are NEEDED (the composition theorem is not true without them) ---- *)
(* `chronological`: a file with instants 3, 1, 2 (every other hypothesis holds): the program prints
   file order, the specification the sorted order *)
Theorem C01_program_unsorted_refuted :
  (file_chronological dated_ex f_uns -> False) /\
  span_ok dtspan_ex /\ file_msgs_2bytes dated_ex f_uns /\ gate_passed dated_ex 64 files_uns /\
  complete dated_ex dtspan_ex 1 opts_plain files_uns sched_uns /\
  exists out t, program_m dated_ex dtspan_ex 1 64 sched_uns opts_plain files_uns = POk (out, t) /\
                Print.payload out = f_uns /\
                Print.payload (fst (program_spec dated_ex dtspan_ex opts_plain files_uns)) = sorted_uns /\
                program_m dated_ex dtspan_ex 1 64 sched_uns opts_plain files_uns
                <> POk (program_spec dated_ex dtspan_ex opts_plain files_uns).
Proof. exact (conj ex_chronological_needed ex_unsorted_refuted). Qed.
Print Assumptions C01_program_unsorted_refuted.

(* `gate_passed`: a 3-byte file is in the domain, its message is in the specification, stage 1
   rejects it at block size 64 (FileErrTooSmall) and the program prints nothing *)
Theorem C01_program_gate_needed :
  domain dated_ex dtspan_ex files_small /\
  Gate.gate dated_ex 64 f_small <> Gate.FileOk /\
  complete dated_ex dtspan_ex 1 (mkOptions cli_ex None None) files_small
           [Coord.Send 0; Coord.Recv 0; Coord.Send 0; Coord.Recv 0; Coord.Print; Coord.Send 0; Coord.Recv 0] /\
  length (spec_events dated_ex dtspan_ex (mkOptions cli_ex None None) files_small) = 1%nat /\
  program_m dated_ex dtspan_ex 1 64 [Coord.Send 0; Coord.Recv 0; Coord.Send 0; Coord.Recv 0]
            (mkOptions cli_ex None None) files_small <> POk (program_spec dated_ex dtspan_ex (mkOptions cli_ex None None) files_small).
Proof. exact ex_gate_needed. Qed.
Print Assumptions C01_program_gate_needed.

(* `every message >= 2 bytes`: with a 1-byte message before another (an oracle that dates an empty
   line) the binary search returns the too-early message and the worker takes the
   "BeforeRange ... unexpected" error exit, under every schedule; the specification prints the
   later message (C03_bsearch_len1_refuted, at program level) *)
Theorem C01_program_len1_refuted :
  file_chronological dated_nl f_len1 /\ span_ok dtspan_ex /\ gate_passed dated_nl 64 files_len1 /\
  (file_msgs_2bytes dated_nl f_len1 -> False) /\
  Print.payload (fst (program_spec dated_nl dtspan_ex opts_len1 files_len1)) = len1_expected /\
  forall sched, program_m dated_nl dtspan_ex 1 64 sched opts_len1 files_len1 = PWorker 0 (GErr 3).
Proof. exact ex_len1_refuted. Qed.
Print Assumptions C01_program_len1_refuted.
