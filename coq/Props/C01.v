(* Props/C01.v — property C01 "Merged output is chronological, with a deterministic tie rule".
   Statements only; every proof is `exact <lemma>`.  The model of the merge is
   Model/Merge.v; Props/C06.v shows that every schedule of the coordinator prints
   exactly [merge srcs]. *)
From Coq Require Import List ZArith Bool Sorted Permutation.
From S4.Model Require Import Merge.
From S4.Proofs Require Import MergeProofs MergeExamples.
Import ListNotations.
Open Scope Z_scope.

(* fuel = total number of messages suffices: merge never runs out of fuel *)
Theorem C01_merge_fuel_enough : forall n Ss,
  (total Ss <= n)%nat -> merge_fuel n Ss = Done (merge Ss).
Proof. exact merge_fuel_enough. Qed.
Print Assumptions C01_merge_fuel_enough.

(* the defining equation: emit the pick, continue with its source advanced *)
Theorem C01_merge_eq : forall Ss,
  merge Ss = match pick Ss with
             | None => []
             | Some (i, m) => m :: merge (pop i Ss)
             end.
Proof. exact merge_eq. Qed.
Print Assumptions C01_merge_eq.

(* the pick is the earliest pending head, the first such source on ties *)
Theorem C01_pick_earliest : forall Ss i m, pick Ss = Some (i, m) -> earliest_at Ss i m.
Proof. exact pick_earliest. Qed.
Print Assumptions C01_pick_earliest.

(* nothing dropped, repeated or reordered within a source *)
Theorem C01_merge_per_source_order : forall Ss,
  well_tagged Ss -> forall i, filter (from_src i) (merge Ss) = nth i Ss [].
Proof. exact merge_per_source_order. Qed.
Print Assumptions C01_merge_per_source_order.

Theorem C01_merge_perm : forall Ss, Permutation (merge Ss) (concat Ss).
Proof. exact merge_perm. Qed.
Print Assumptions C01_merge_perm.

(* at every step k the emitted message is the earliest pending head over the
   sources as they stand after k emissions ([after k Ss]); on equal instants it
   comes from the first such source *)
Theorem C01_merge_earliest_pending : forall k Ss m,
  nth_error (merge Ss) k = Some m -> exists i, earliest_at (after k Ss) i m.
Proof. exact merge_earliest_pending. Qed.
Print Assumptions C01_merge_earliest_pending.

(* [after k Ss] is what it should be: the output splits there, and source j
   holds exactly the messages it has not yet emitted *)
Theorem C01_after_merge : forall k Ss, merge Ss = firstn k (merge Ss) ++ merge (after k Ss).
Proof. exact after_merge. Qed.
Print Assumptions C01_after_merge.

Theorem C01_after_spec : forall Ss k j,
  well_tagged Ss ->
  nth j Ss [] = filter (from_src j) (firstn k (merge Ss)) ++ nth j (after k Ss) [].
Proof. exact after_spec. Qed.
Print Assumptions C01_after_spec.

(* every source chronological => the whole output chronological *)
Theorem C01_merge_sorted : forall Ss, Forall sorted_inst Ss -> sorted_inst (merge Ss).
Proof. exact merge_sorted. Qed.
Print Assumptions C01_merge_sorted.

(* the tie rule in closed form: for chronological sources the output is the stable
   sort by instant of the sources concatenated in the order they were named *)
Theorem C01_merge_is_stable_sort : forall Ss,
  Forall sorted_inst Ss -> merge Ss = stable_sort (concat Ss).
Proof. exact merge_is_stable_sort. Qed.
Print Assumptions C01_merge_is_stable_sort.

(* ... and stable_sort is a stable sort: sorted, a permutation, and the messages of
   any one instant keep their input order *)
Theorem C01_stable_sort_sorted : forall l, sorted_inst (stable_sort l).
Proof. exact stable_sort_sorted. Qed.
Print Assumptions C01_stable_sort_sorted.

Theorem C01_stable_sort_perm : forall l, Permutation (stable_sort l) l.
Proof. exact stable_sort_perm. Qed.
Print Assumptions C01_stable_sort_perm.

Theorem C01_stable_sort_stable : forall k l,
  filter (at_inst k) (stable_sort l) = filter (at_inst k) l.
Proof. exact stable_sort_filter. Qed.
Print Assumptions C01_stable_sort_stable.

(* tie rule, direct form: messages carrying the same instant are printed in source
   order, and within a source in file order *)
Theorem C01_tie_rule : forall k Ss,
  Forall sorted_inst Ss -> filter (at_inst k) (merge Ss) = filter (at_inst k) (concat Ss).
Proof. exact merge_filter_inst. Qed.
Print Assumptions C01_tie_rule.

(* sources with no message (anywhere in the list) change nothing *)
Theorem C01_merge_empty_sources : forall X X', nil_ext X X' -> merge X = merge X'.
Proof. exact merge_nil_ext. Qed.
Print Assumptions C01_merge_empty_sources.

Theorem C01_merge_insert_empty : forall A B, merge (A ++ [] :: B) = merge (A ++ B).
Proof. exact merge_insert_empty. Qed.
Print Assumptions C01_merge_insert_empty.

Theorem C01_merge_remove_empties : forall X, merge (filter nonempty X) = merge X.
Proof. exact merge_remove_empties. Qed.
Print Assumptions C01_merge_remove_empties.

(* sources given as lists of instants are well tagged (the hypotheses above are satisfiable) *)
Theorem C01_tag_srcs_well_tagged : forall X, well_tagged (tag_srcs X).
Proof. exact tag_srcs_well_tagged. Qed.
Print Assumptions C01_tag_srcs_well_tagged.

(* ---- examples: cross- and intra-source ties, non-chronological source, first minimum ---- *)
Example C01_ex_merge_ties :
  view (merge ex_srcs) =
  [(2, 0, 0); (0, 0, 1); (0, 1, 1); (1, 0, 1); (2, 1, 1); (1, 1, 2); (1, 2, 2); (0, 2, 3)].
Proof. exact ex_merge_ties. Qed.
Print Assumptions C01_ex_merge_ties.

Example C01_ex_hypotheses : Forall sorted_inst ex_srcs /\ well_tagged ex_srcs.
Proof. exact (conj ex_sorted ex_well_tagged). Qed.
Print Assumptions C01_ex_hypotheses.

Example C01_ex_unsorted_source :
  view (merge (tag_srcs [[5; 1]; [3]])) = [(1, 0, 3); (0, 0, 5); (0, 1, 1)].
Proof. exact ex_unsorted_source. Qed.
Print Assumptions C01_ex_unsorted_source.

Example C01_ex_first_minimum :
  view (merge (tag_srcs [[7]; [7]; [7]])) = [(0, 0, 7); (1, 0, 7); (2, 0, 7)].
Proof. exact ex_first_minimum. Qed.
Print Assumptions C01_ex_first_minimum.

(* ==========================================================================================
   WHOLE-PROGRAM COMPOSITION (work package H, order part; the schedule part is in Props/C06.v).
   Model/Program.v: [program_m] = the code-level composition (block-wise reader at block size bs ->
   search loop -> worker datums -> coordinator under a schedule -> printer variant + 2056-byte
   buffer -> separator / supplied newline / summary accounting); [program_spec] = stable sort by
   instant of the windowed spec groups of every file, canonically decorated, totals as measures of
   that output.  The component theorems of C02 C03 C01 C06 C13 C19 are used, not re-proved.
   SECOND STAGE: a source is a text log, a YEAR-LESS text log (C11 assign_years in front of the
   window and the merge), an accounting-record file (C08: layout detection, ordering core,
   as_bytes), an event log (C10) or a journal (C09, libsystemd an oracle); [oracles] bundles the
   timestamp / span / f32 / journal-text / libsystemd oracles.  Statements for mixed-kind inputs.
   ========================================================================================== *)
From Coq Require Import NArith.
From S4.Base Require Bytes Chunk.
From S4.Spec Require LinesSpec WindowSpec.
From S4.Spec Require RecordsSpec JournalSpec.
From S4.Model Require Lines Syslines Search Coord Print Summary Gate.
From S4.Model Require Year Records RecordRender Evtx Journal JournalRender.
From S4.Gen Require JournalTables.
From S4.Gen Require FixedStructTables.
From S4.Model Require Import Program.
From S4.Proofs Require SyslinesProofs PrintStrip SummaryProofs FixedStructTablesOk YearProofs.
From S4.Proofs Require Import ProgramProofs ProgramExamples.

(* THE composition theorem: for every oracle record, channel capacity, block size > 0, schedule,
   options and list of sources of ANY MIX of kinds:
     domain      dt_beg <= dt_end (C13) and per source (Program.src_ok):
                 text      chronological (C03 binary search, C01 closed form), messages >= 2 bytes (C03),
                           the first byte of a line never dates differently from the line (C02
                           gate_then_refines: what block-zero analysis parses on the cached reader, F3a)
                 year-less the walk dates every message (C11; Issue #245 excluded) and the file is a
                           text file in the sense above under the INFERRED instants
                 records   in ANY stored order: score_file picks the file's layout (C08 detection
                           theorems give conditions), bytes < 256 and f32 texts <= 64 bytes (C08
                           as_bytes_is_render), 0 <= usec < 10^6 on the kept records
                 events    in ANY enumeration order, texts newline-terminated
                 journal   libsystemd contract J1, receive times non-decreasing and positive,
                           bounds < 2^64 us (C09), every rendering (Model/JournalRender.v, the ten
                           --journal-output values, configuration regenerated) ends with a newline
                 year-less additionally: the file is a text file also under the dates the STOPPED walk
                           leaves (filler year above the stop), head lines do not repeat, and the
                           window does not reach back to the filler dates (finding F17 excluded)
     gate_passed stage 1 (block-zero analysis) accepts every TEXT file AT THIS block size (C12: F3a-d)
     complete    the schedule is an execution of the coordinator that ends with every channel closed
   the code-level program prints exactly the specification and tallies exactly its measures.
   THIRD STAGE: in [program_m] a text file is read by the CACHED reader machine of Model/Caches.v
   (BlockReader with its stored / dropped blocks and the look-behind drop of streamed containers,
   LineReader and SyslineReader with their maps and LRU caches): block-zero analysis pattern (rp_k1
   find_line_in_block, rp_k2 find_sysline_in_block calls), then the stage driver with the drop plan
   rp_plan, a streamed file's container discipline rp_ck - for EVERY value of these reader parameters [rps].
   A file with NO datetime window and a STREAMED file run work package A's stage drivers (c_stream; c_stream_win:
   the window's linear search on that machine).  A SEEKABLE file WITH a window runs the binary search of
   find_sysline_at_datetime_filter with the reader state threaded through (Program.SSearch) over find_sysline of
   that machine, drop_data_try of the message before after every message.  Only a YEAR-LESS file (reverse pass of
   process_missing_year first) still runs over the pure block-wise reader. *)
Theorem C01_program_correct : forall O cap bs rps sched o files,
  (0 < bs)%N -> domain O o files -> gate_passed O bs o files ->
  complete O cap o files sched ->
  program_m O cap bs rps sched o files = POk (program_spec O o files).
Proof. exact program_correct. Qed.
Print Assumptions C01_program_correct.

(* the specification is the print-site model run on the SPEC events (so every C13 / C19 theorem
   about Summary.run speaks about program_spec) ... *)
Theorem C01_program_spec_is_run : forall O o files, domain O o files ->
  let R := Summary.run (op_cli o) (sources_of files) (spec_events O o files) in
  program_spec O o files = (Summary.k_stdout R, Summary.k_total R).
Proof. exact spec_is_run. Qed.
Print Assumptions C01_program_spec_is_run.

(* ... and with --color never it is plain bytes: per message, per line, file field ++ date field ++
   line; then the separator; then one newline when the file's last message lacks it *)
Theorem C01_program_spec_plain : forall O o files,
  domain O o files -> Summary.c_colour (op_cli o) = false ->
  let c := op_cli o in
  let evs := spec_events O o files in
  fst (program_spec O o files) =
  Print.obs (render_bytes c (Summary.popt_of c (sources_of files) evs) evs).
Proof. exact spec_stdout_plain. Qed.
Print Assumptions C01_program_spec_plain.

(* C12 at program level: block-size independence of the WHOLE output, for the block sizes at which
   stage 1 accepts the files *)
Theorem C01_program_bs_independent : forall O cap bs1 bs2 rps1 rps2 sched o files,
  (0 < bs1)%N -> (0 < bs2)%N -> domain O o files ->
  gate_passed O bs1 o files -> gate_passed O bs2 o files ->
  complete O cap o files sched ->
  program_m O cap bs1 rps1 sched o files = program_m O cap bs2 rps2 sched o files.
Proof. exact program_bs_independent. Qed.
Print Assumptions C01_program_bs_independent.

(* C19 at program level: the totals are measures of the output *)
Theorem C01_program_total_bytes : forall O o files, domain O o files ->
  Summary.c_summary (op_cli o) = true ->
  let r := program_spec O o files in
  Summary.u_bytes (snd r) = Print.blen (Print.payload (fst r)) /\
  (Summary.c_colour (op_cli o) = false -> forall g, Summary.u_bytes (snd r) = Print.blen (Print.concr g (fst r))).
Proof. exact program_total_bytes. Qed.
Print Assumptions C01_program_total_bytes.

Theorem C01_program_counters : forall O o files, Summary.c_summary (op_cli o) = true ->
  let evs := spec_events O o files in
  let t := snd (program_spec O o files) in
  Summary.u_sys t = count_of Print.KSys evs /\ Summary.u_fixed t = count_of Print.KFixed evs /\
  Summary.u_evtx t = count_of Print.KEvtx evs /\ Summary.u_journal t = count_of Print.KJournal evs /\
  Summary.u_lines t = N.of_nat (length (concat (map (fun e => Print.m_lines (Summary.e_msg e))
                                 (filter (fun e => kind_eqb (Print.m_kind (Summary.e_msg e)) Print.KSys) evs)))) /\
  SummaryProofs.is_min (Summary.u_first t) (map ev_t evs) /\
  SummaryProofs.is_max (Summary.u_last t) (map ev_t evs).
Proof. exact program_counters. Qed.
Print Assumptions C01_program_counters.

(* C13 at program level: deleting the file field, the date field and the separator from the
   decorated output leaves the output of the undecorated invocation; with colour on, after
   deleting the SGR sequences *)
Theorem C01_program_strip : forall O o files, domain O o files ->
  let c := op_cli o in
  let evs := spec_events O o files in
  Print.strip_msgs (Summary.shape_of c (Summary.popt_of c (sources_of files) evs) evs)
                   (Print.payload (fst (program_spec O o files)))
  = Some (Print.payload (fst (program_spec O (undecorated_opts o) files))).
Proof. exact program_strip. Qed.
Print Assumptions C01_program_strip.

Theorem C01_program_strip_sgr : forall O o files g, PrintStrip.sgr_ok g ->
  PrintStrip.no_esc (Print.payload (fst (program_spec O o files))) ->
  Print.strip_sgr (Print.concr g (fst (program_spec O o files))) =
  Print.payload (fst (program_spec O o files)).
Proof. exact program_strip_sgr. Qed.
Print Assumptions C01_program_strip_sgr.

(* the same identities for what the CODE-LEVEL model prints, at any block size under any complete schedule *)
Theorem C01_program_m_totals : forall O cap bs rps sched o files out tot,
  (0 < bs)%N -> domain O o files -> gate_passed O bs o files ->
  complete O cap o files sched ->
  program_m O cap bs rps sched o files = POk (out, tot) ->
  Summary.c_summary (op_cli o) = true ->
  let evs := spec_events O o files in
  Summary.u_bytes tot = Print.blen (Print.payload out) /\
  (Summary.c_colour (op_cli o) = false -> forall g, Summary.u_bytes tot = Print.blen (Print.concr g out)) /\
  Summary.u_sys tot = count_of Print.KSys evs /\ Summary.u_fixed tot = count_of Print.KFixed evs /\
  Summary.u_evtx tot = count_of Print.KEvtx evs /\ Summary.u_journal tot = count_of Print.KJournal evs.
Proof. exact program_m_totals. Qed.
Print Assumptions C01_program_m_totals.

Theorem C01_program_m_strip : forall O cap bs rps rps0 sched sched0 o files out tot out0 tot0,
  (0 < bs)%N -> domain O o files -> gate_passed O bs o files ->
  complete O cap o files sched ->
  complete O cap (undecorated_opts o) files sched0 ->
  program_m O cap bs rps sched o files = POk (out, tot) ->
  program_m O cap bs rps0 sched0 (undecorated_opts o) files = POk (out0, tot0) ->
  let c := op_cli o in
  let evs := spec_events O o files in
  Print.strip_msgs (Summary.shape_of c (Summary.popt_of c (sources_of files) evs) evs) (Print.payload out)
  = Some (Print.payload out0).
Proof. exact program_m_strip. Qed.
Print Assumptions C01_program_m_strip.

(* ---- the ADAPTER lemmas (where the component models meet) ---- *)

(* A1, reader -> search: the block-wise reader of C02, observed through (begin, length, instant),
   IS the `find` oracle that Model/Search.v (C03) defines from the layout of the file's spec
   groups — at every offset, for every block size; and what it returns is the spec group at that
   offset, every Line assembled from non-empty parts *)
Theorem C01_adapter_reader_is_find : forall dated bs (f : Chunk.file) fo, (0 < bs)%N ->
  Forall (fun g => (1 <= glen g)%N) (LinesSpec.syslines dated f) ->
  frel rmsg r_sl (Pm dated bs f) (reader_find dated bs f fo) (Search.find (gs_of dated f) fo).
Proof. exact reader_find_rel. Qed.
Print Assumptions C01_adapter_reader_is_find.

(* a file WITHOUT any dated line: the reader is Done at every offset — not Panic, not OutOfFuel
   (C02's find_sysline_correct equates observations in which all three read None) *)
Theorem C01_adapter_reader_no_message : forall dated bs (f : Chunk.file) fo, (0 < bs)%N ->
  LinesSpec.syslines dated f = [] -> Syslines.find_sysline_m dated bs f fo = Lines.Done.
Proof. exact find_sysline_no_message. Qed.
Print Assumptions C01_adapter_reader_no_message.

(* the search loop run against ANY find that agrees with Search.find returns what Model/Search.v
   returns (the payloads it hands on satisfy whatever invariant P the find guarantees) *)
Theorem C01_adapter_gsearch_refines : forall (M : Type) (view : M -> Search.sl) (gfind : N -> gfres M)
    (P : M -> Prop) (gs : list Search.sl) (filesz : N),
  (forall fo, frel M view P (gfind fo) (Search.find gs fo)) ->
  (forall a fo, Search.linear gs a fo (Search.lfuel gs) <> Search.SOutOfFuel) ->
  (Search.lfuel gs <= g_lfuel filesz)%nat ->
  forall streamed a b out,
  Search.text_out gs filesz streamed a b = (out, Search.Ok) ->
  exists ms, g_text_out view gfind filesz streamed a b = (ms, GOk) /\
             map (fun mb => view (fst mb)) ms = out /\
             Forall (fun mb => P (fst mb) /\ snd mb = g_is_last view filesz (fst mb)) ms.
Proof. exact gsearch_refines. Qed.
Print Assumptions C01_adapter_gsearch_refines.

(* one worker: the NewMessage datums of a file are its windowed spec groups with their is-last flags *)
Theorem C01_adapter_worker_stream : forall dated bs (f : Chunk.file) streamed a b, (0 < bs)%N ->
  file_chronological dated f -> file_msgs_2bytes dated f ->
  exists ms, g_text_out r_sl (reader_find dated bs f) (Chunk.lenN f) streamed a b = (ms, GOk) /\
    map (fun mb : rmsg * bool => (SyslinesProofs.obs_sysline bs f (r_sys (fst mb)), snd mb)) ms
      = spec_file_msgs dated a b f /\
    Forall (fun mb : rmsg * bool => Forall (line_parts_ok bs f) (snd (r_sys (fst mb))) /\ snd (r_sys (fst mb)) <> []) ms.
Proof. exact worker_stream. Qed.
Print Assumptions C01_adapter_worker_stream.

(* A2/A3, worker -> coordinator -> print site: the tags the merge emits, looked up, are the stable
   sort by instant of the events themselves *)
Theorem C01_adapter_printed_events : forall EC,
  map (ev_of EC) (stable_sort (concat (tags_of EC))) = stable_sort_by ev_t (concat EC).
Proof. exact printed_events. Qed.
Print Assumptions C01_adapter_printed_events.

(* A3, reader -> printer: a Sysline as line parts and its spec group as whole lines are the same
   message for the printer, and both satisfy its preconditions *)
Theorem C01_adapter_pmsg_sim : forall dtspan, span_ok dtspan -> forall bs (f : Chunk.file) sl,
  Forall (line_parts_ok bs f) (snd sl) -> snd sl <> [] ->
  msg_sim (pmsg_of dtspan bs f sl) (spec_msg dtspan (SyslinesProofs.obs_sysline bs f sl)).
Proof. exact pmsg_sim. Qed.
Print Assumptions C01_adapter_pmsg_sim.

(* the print site (variant dispatch, buffer, separator, newline, accounting) on such events = the
   canonical rendering and the measures of the spec events *)
Theorem C01_adapter_print_site : forall c srcs evs1 evs2, Forall2 ev_sim evs1 evs2 ->
  Summary.k_stdout (Summary.run c srcs evs1) = render c (Summary.popt_of c srcs evs2) (fun _ => None) evs2 /\
  Summary.k_total (Summary.run c srcs evs1) = spec_totals c evs2 (Summary.k_stdout (Summary.run c srcs evs1)).
Proof. exact (fun c srcs evs1 evs2 S => conj (run_stdout_sim c srcs evs1 evs2 S) (run_totals_sim c srcs evs1 evs2 S)). Qed.
Print Assumptions C01_adapter_print_site.

(* ---- the hypotheses are satisfiable: three files (plain, streamed, plain; one multi-line message;
   one file without final newline), ties across all three files and inside one, a window that
   cuts every file, -n -w, a date field, a separator, --summary; block sizes 3 and 64; two
   different complete schedules (capacity 1 lazy workers, capacity 5 eager workers) ---- *)
Example C01_program_example_domain :
  domain O_ex opts_ex files_ex /\
  gate_passed O_ex 3 opts_ex files_ex /\ gate_passed O_ex 64 opts_ex files_ex /\
  complete O_ex 1 opts_ex files_ex sched_lazy /\
  complete O_ex 5 opts_ex files_ex sched_eager /\
  sched_lazy <> sched_eager.
Proof. exact ex_domain. Qed.
Print Assumptions C01_program_example_domain.

Example C01_program_example :
  program_m O_ex 1 3 rps_ex sched_lazy opts_ex files_ex = POk (program_spec O_ex opts_ex files_ex) /\
  program_m O_ex 5 64 rps_ex sched_eager opts_ex files_ex = POk (program_spec O_ex opts_ex files_ex) /\
  fst (program_spec O_ex opts_ex files_ex) = Print.obs expected_ex /\
  let t := snd (program_spec O_ex opts_ex files_ex) in
  Summary.u_bytes t = 68%N /\ Summary.u_lines t = 7%N /\ Summary.u_sys t = 6%N /\
  Summary.u_first t = Some 2000000000%Z /\ Summary.u_last t = Some 4000000000%Z.
Proof. exact ex_program. Qed.
Print Assumptions C01_program_example.

(* a file that stage 1 rejects sends no message: outside gate_passed *)
Example C01_program_example_gate_rejects :
  Gate.gate dated_ex 64 f_small = Gate.FileErrTooSmall /\
  exists out t, program_m O_ex 1 64 rps_ex [Coord.Send 0; Coord.Recv 0; Coord.Send 0; Coord.Recv 0]
                          (mkOptions cli_ex None None JournalRender.OCat jenv_ex) files_small = POk (out, t) /\ out = [].
Proof. exact ex_gate_rejects. Qed.
Print Assumptions C01_program_example_gate_rejects.

(* ---- the hypotheses are NEEDED (the composition theorem is not true without them) ---- *)
(* `chronological`: a file with instants 3, 1, 2 (every other hypothesis holds): the program prints
   file order, the specification the sorted order *)
Theorem C01_program_unsorted_refuted :
  (file_chronological dated_ex f_uns -> False) /\
  span_ok dtspan_ex /\ file_msgs_2bytes dated_ex f_uns /\ gate_passed O_ex 64 opts_plain files_uns /\
  complete O_ex 1 opts_plain files_uns sched_uns /\
  exists out t, program_m O_ex 1 64 rps_ex sched_uns opts_plain files_uns = POk (out, t) /\
                Print.payload out = f_uns /\
                Print.payload (fst (program_spec O_ex opts_plain files_uns)) = sorted_uns /\
                program_m O_ex 1 64 rps_ex sched_uns opts_plain files_uns
                <> POk (program_spec O_ex opts_plain files_uns).
Proof. exact (conj ex_chronological_needed ex_unsorted_refuted). Qed.
Print Assumptions C01_program_unsorted_refuted.

(* `gate_passed`: a 3-byte file is in the domain, its message is in the specification, stage 1
   rejects it at block size 64 (FileErrTooSmall) and the program prints nothing *)
Theorem C01_program_gate_needed :
  domain O_ex (mkOptions cli_ex None None JournalRender.OCat jenv_ex) files_small /\
  Gate.gate dated_ex 64 f_small <> Gate.FileOk /\
  complete O_ex 1 (mkOptions cli_ex None None JournalRender.OCat jenv_ex) files_small
           [Coord.Send 0; Coord.Recv 0; Coord.Send 0; Coord.Recv 0; Coord.Print; Coord.Send 0; Coord.Recv 0] /\
  length (spec_events O_ex (mkOptions cli_ex None None JournalRender.OCat jenv_ex) files_small) = 1%nat /\
  program_m O_ex 1 64 rps_ex [Coord.Send 0; Coord.Recv 0; Coord.Send 0; Coord.Recv 0]
            (mkOptions cli_ex None None JournalRender.OCat jenv_ex) files_small <> POk (program_spec O_ex (mkOptions cli_ex None None JournalRender.OCat jenv_ex) files_small).
Proof. exact ex_gate_needed. Qed.
Print Assumptions C01_program_gate_needed.

(* `every message >= 2 bytes`: with a 1-byte message before another (an oracle that dates an empty
   line) the binary search returns the too-early message and the worker takes the
   "BeforeRange ... unexpected" error exit, under every schedule; the specification prints the
   later message (C03_bsearch_len1_refuted, at program level) *)
Theorem C01_program_len1_refuted :
  file_chronological dated_nl f_len1 /\ span_ok dtspan_ex /\ gate_passed O_nl 64 opts_len1 files_len1 /\
  (file_msgs_2bytes dated_nl f_len1 -> False) /\
  Print.payload (fst (program_spec O_nl opts_len1 files_len1)) = len1_expected /\
  forall sched, program_m O_nl 1 64 rps_ex sched opts_len1 files_len1 = PWorker 0 (GErr 3).
Proof. exact ex_len1_refuted. Qed.
Print Assumptions C01_program_len1_refuted.

(* ==========================================================================================
   SECOND STAGE: the other source kinds
   ========================================================================================== *)

(* accounting records: the worker (score_file, preprocess_timevalues + process_entry_at loop keyed
   (time value, offset), 0xFF entries dropped, FixedStruct::as_bytes into the 1040-byte buffer)
   sends exactly: the non-null constructible in-window records, stable-sorted by time value, each
   rendered in the file's layout (C08 records_sent_correct + as_bytes_is_render) ... *)
Theorem C01_adapter_records_worker : forall O o hint lname (file : Bytes.bytes) pf,
  pf_kind pf = KRecords hint lname -> pf_data pf = file -> src_ok O o pf ->
  records_worker O (op_after o) (op_before o) hint file = (records_spec O (op_after o) (op_before o) lname file, GOk).
Proof. exact records_worker_correct. Qed.
Print Assumptions C01_adapter_records_worker.

(* ... whose instants do not step back (what the merge's closed form needs): the time value of the
   i-th entry is the decode of its own slice, and for valid timevals the order of the time values
   is the order of the instants *)
Theorem C01_adapter_records_sorted : forall O o hint lname pf i,
  pf_kind pf = KRecords hint lname -> src_ok O o pf ->
  Sorted.StronglySorted Z.le (map ev_t (mk_events i (records_spec O (op_after o) (op_before o) lname (pf_data pf)))).
Proof. exact records_spec_sorted. Qed.
Print Assumptions C01_adapter_records_sorted.

(* the composed model's detection is C08's `detect` *)
Theorem C01_adapter_detect : forall hint file,
  p_detect hint file = FixedStructTablesOk.detect LayoutDetect.no_mem hint file.
Proof. exact p_detect_is_detect. Qed.
Print Assumptions C01_adapter_detect.

(* event logs (C10 evtx_out_correct): any enumeration order, undecodable records in between *)
Theorem C01_adapter_evtx_worker : forall O a b recs, evtx_worker O a b recs = (evtx_spec O a b recs, GOk).
Proof. exact evtx_worker_correct. Qed.
Print Assumptions C01_adapter_evtx_worker.

Theorem C01_adapter_evtx_sorted : forall O a b recs i,
  Sorted.StronglySorted Z.le (map ev_t (mk_events i (evtx_spec O a b recs))).
Proof. exact evtx_spec_sorted. Qed.
Print Assumptions C01_adapter_evtx_sorted.

(* journals (C09 journal_out_correct): the in-window entries, journal order *)
Theorem C01_adapter_journal_worker : forall O o j pf, pf_kind pf = KJournalFile j -> src_ok O o pf ->
  journal_worker O o j = (journal_spec O o j, GOk).
Proof. exact journal_worker_correct. Qed.
Print Assumptions C01_adapter_journal_worker.

(* the printer's preconditions for the messages of these kinds: an event / entry text that ends
   with a newline is, line by line, what print_evtx_* / print_journalentry_* loop over *)
Theorem C01_adapter_nl_split_lines : forall (t : Bytes.bytes), t = [] \/ (exists p, t = p ++ [10%N]) ->
  Print.nl_split [] t = LinesSpec.lines t.
Proof.
  exact (fun t T => eq_trans (nl_split_lines t T [])
                             (match LinesSpec.lines t as l return match l with [] => [] | h :: r => (rev [] ++ h) :: r end = l
                              with [] => eq_refl | _ :: _ => eq_refl end)).
Qed.
Print Assumptions C01_adapter_nl_split_lines.

(* one worker of ANY kind: what it sends is what the specification lists for that source (text
   kinds: up to the split of lines into block parts), and every spec source is chronological *)
Theorem C01_adapter_worker_any_kind : forall O bs rp o i pf, (0 < bs)%N -> span_ok (o_dtspan O) -> src_ok O o pf ->
  gate_passed O bs o [pf] ->
  exists out, worker_out O bs rp o pf = (out, GOk) /\
              Forall2 ev_sim (mk_events i out) (spec_file_events O o i pf).
Proof. exact worker_correct. Qed.
Print Assumptions C01_adapter_worker_any_kind.

Theorem C01_adapter_source_sorted : forall O o i pf, src_ok O o pf ->
  Sorted.StronglySorted Z.le (map ev_t (spec_file_events O o i pf)).
Proof. exact spec_source_sorted. Qed.
Print Assumptions C01_adapter_source_sorted.

(* YEAR-LESS text logs (C11's clause "the datetime window and cross-file merge use these inferred
   dates"): under the derived oracle the spec groups are the groups found with "a year-less
   pattern matches the line", and their instants are, message by message, those assign_years
   infers from the modification time — when equal head lines do not occur twice ... *)
Theorem C01_yearless_instants : forall O off mtime (f : Chunk.file) ys,
  Year.assign_years 2 off (Year.year_of_seconds off mtime) (yl_msgs O f) = Some ys ->
  NoDup (yl_heads O f) ->
  yl_table O off mtime f = Some (combine (yl_heads O f) (map snd ys)) /\
  map snd (LinesSpec.syslines (yl_dated O (combine (yl_heads O f) (map snd ys))) f) = map snd (LinesSpec.syslines (ydated0 O) f) /\
  map fst (LinesSpec.syslines (yl_dated O (combine (yl_heads O f) (map snd ys))) f) = map snd ys.
Proof. exact yearless_instants. Qed.
Print Assumptions C01_yearless_instants.

(* ... and, with C11's theorem 5, they are the TRUE instants under C11's gap hypothesis *)
Theorem C01_yearless_true_instants : forall O off mtime (f : Chunk.file) (tm : list (Z * Year.ymsg)),
  YearProofs.seq_ok off tm -> map snd tm = yl_msgs O f ->
  Year.year_of_seconds off mtime = fst (last tm (0%Z, Year.mkMsg 0 0 0)) ->
  NoDup (yl_heads O f) ->
  exists tab, yl_table O off mtime f = Some tab /\
    map fst (LinesSpec.syslines (yl_dated O tab) f) = map (YearProofs.instant_of off) tm.
Proof. exact yearless_true_instants. Qed.
Print Assumptions C01_yearless_true_instants.

(* ---- the hypotheses for a MIXED-KIND input are satisfiable: a text file without final newline, a
   lastlog file of two records with equal times, an event log enumerated out of time order with an
   undecodable record, a journal with equal receive times, a streamed year-less log crossing a
   year boundary; records, an event and two journal entries tie: source order decides ---- *)
Example C01_program_example_mixed_domain :
  domain O_ex opts_mx files_mx /\ gate_passed O_ex 64 opts_mx files_mx /\ gate_passed O_ex 8 opts_mx files_mx /\
  complete O_ex 2 opts_mx files_mx sched_mx.
Proof. exact ex_mixed_domain. Qed.
Print Assumptions C01_program_example_mixed_domain.

Example C01_program_example_mixed :
  program_m O_ex 2 64 rps_ex sched_mx opts_mx files_mx = POk (program_spec O_ex opts_mx files_mx) /\
  program_m O_ex 2 8 rps_ex sched_mx opts_mx files_mx = POk (program_spec O_ex opts_mx files_mx) /\
  fst (program_spec O_ex opts_mx files_mx) = Print.obs expected_mx /\
  let t := snd (program_spec O_ex opts_mx files_mx) in
  Summary.u_bytes t = Print.blen expected_mx /\ Summary.u_sys t = 3%N /\ Summary.u_fixed t = 2%N /\
  Summary.u_evtx t = 2%N /\ Summary.u_journal t = 3%N /\ Summary.u_lines t = 4%N /\
  Summary.u_first t = Some 2000000000%Z /\ Summary.u_last t = Some (T0 * 1000000000 + 5)%Z.
Proof. exact ex_mixed_program. Qed.
Print Assumptions C01_program_example_mixed.

Example C01_program_example_yearless :
  NoDup (yl_heads O_ex fy) /\
  Year.assign_years 2 0 (Year.year_of_seconds 0 mtime_mx) (yl_msgs O_ex fy)
  = Some [(2020, 1607472000000000000); (2021, 1609545600000000000)]%Z.
Proof. exact ex_yearless. Qed.
Print Assumptions C01_program_example_yearless.

(* ==========================================================================================
   THIRD STAGE: journal renderings from the model, the early stop of the year walk
   ========================================================================================== *)

(* the journal text is no longer a parameter: JournalReader::next is Model/JournalRender.next_entry
   with the regenerated configuration, for the --journal-output value and the host / zone bits in
   the options; the loop of exec_journalprocessor emits the Found entries, skips ErrIgnore (`cat`
   without MESSAGE) and never meets a formatter panic (C09 render_never_panics) *)
Theorem C01_adapter_journal_emit : forall O o es,
  journal_emit O o es =
  (flat_map (fun e => match JournalRender.next_entry JournalTables.src_cfg (op_jenv o) (op_jout o) e with
                      | JournalRender.NFound t => [journal_msg O e t]
                      | _ => []
                      end) es, GOk).
Proof. exact journal_emit_spec. Qed.
Print Assumptions C01_adapter_journal_emit.

(* the instant the merge uses for a journal entry is its receive time (DT_USES_SOURCE_OVERRIDE of the
   current source): non-decreasing receive times give a chronological source, no extra hypothesis *)
Theorem C01_adapter_journal_sorted : forall O o j pf i, pf_kind pf = KJournalFile j -> src_ok O o pf ->
  Sorted.StronglySorted Z.le (map ev_t (mk_events i (journal_spec O o j))).
Proof. exact journal_spec_sorted. Qed.
Print Assumptions C01_adapter_journal_sorted.

(* the year walk AS THE CODE RUNS IT stops at the first message (from the end) before --dt-after
   (C11 theorem 7); the messages above keep the filler year 1972.  The stopped walk is a prefix of
   the full walk ... *)
Theorem C01_walk_until_prefix : forall a fuel off rms year prev l,
  Year.walk fuel off year prev rms = Some l ->
  exists k, walk_until a fuel off year prev rms = Some (firstn k l) /\ (k <= length l)%nat /\
            ((k < length l)%nat -> exists av yt, a = Some av /\ (0 < k)%nat /\ nth_error l (k - 1) = Some yt /\ (snd yt < av)%Z).
Proof. exact walk_until_prefix. Qed.
Print Assumptions C01_walk_until_prefix.

(* ... and when the window does not reach back to the filler dates, the specification under the
   stopped walk selects exactly the messages it selects under the full walk (the inferred dates):
   this is what lets C01_program_correct speak about the run with the early stop *)
Theorem C01_yearless_early_stop : forall O (o : options) off mtime (f : Chunk.file) tab tes,
  yl_table O off mtime f = Some tab -> file_ok (yl_dated O tab) f ->
  yl_table_es O (op_after o) off mtime f = Some tes ->
  NoDup (yl_heads O f) ->
  (forall av, op_after o = Some av ->
     forall w, walk_until (op_after o) 2 off (Year.year_of_seconds off mtime) None (rev (yl_msgs O f)) = Some w ->
     Forall (fun m => (filler_inst off m < av)%Z) (firstn (length (yl_msgs O f) - length w) (yl_msgs O f))) ->
  text_spec (yl_dated O tes) (o_dtspan O) (op_after o) (op_before o) f =
  text_spec (yl_dated O tab) (o_dtspan O) (op_after o) (op_before o) f.
Proof. exact early_stop_spec_eq. Qed.
Print Assumptions C01_yearless_early_stop.

(* finding F17 at program level: without that hypothesis the composed statement is false.  True dates
   1 Mar 1971, 1 Dec 1971, 1 Feb 1972, --dt-after 1972-01-01: March keeps the filler year, lies
   inside the window and is printed; the specification (inferred dates) prints February only *)
Theorem C01_program_f17_refuted :
  (exists tab, yl_table O_ex 0 mt17 f17 = Some tab /\ file_ok (yl_dated O_ex tab) f17 /\
               map snd tab = [36633600000000000; 60393600000000000; 65750400000000000]%Z) /\
  NoDup (yl_heads O_ex f17) /\
  (exists tes, yl_table_es O_ex (op_after opts17) 0 mt17 f17 = Some tes /\
               map snd tes = [68256000000000000; 60393600000000000; 65750400000000000]%Z) /\
  Print.payload (fst (program_spec O_ex opts17 files17)) = f17_spec_out /\
  exists out t, program_m O_ex 1 64 rps_ex sched17 opts17 files17 = POk (out, t) /\
                Print.payload out = f17_prog_out.
Proof. exact ex_f17_refuted. Qed.
Print Assumptions C01_program_f17_refuted.

(* ==========================================================================================
   THIRD STAGE, the cached reader machine (Model/Caches.v, work package A) inside the composition.
   Props/C02.v states what the stage driver emits as BYTES (obs_stream = the spec groups).  The
   composition needs of every emitted Sysline also its is_sysline_last flag and that each of its
   Lines is a chain of non-empty block slices - functions of the stored OBJECT, not of its bytes (two
   equal messages at different offsets).  Proofs/ProgramCaches.v re-runs the two driver inductions
   of work package A from its own step lemmas with the conclusion "the i-th emitted object represents
   (CachesSysProofs.ssl_ok) the i-th selected message AT ITS OFFSET"; Props/C02.v's
   gate_then_refines (driver part) / streamed_window_driver are its byte observations
   (ProgramCaches.plain_driver_obs / streamed_driver_obs).
   ========================================================================================== *)
From S4.Model Require Caches.
From S4.Proofs Require CachesSysProofs ProgramCaches.

(* seekable file: block-zero analysis (any k1, k2), then the stage driver with any drop plan *)
Theorem C01_cached_driver_plain : forall dated bs (f : Chunk.file) k1 k2 plan, (0 < bs)%N ->
  first_byte_ok dated f ->
  exists sls, snd (Caches.c_stream dated bs f plan (Caches.c_gate dated k1 k2 bs f Caches.sr_init)) = Lines.Found sls /\
              ProgramCaches.repr_at bs f sls (LinesSpec.syslines_at dated f).
Proof. exact ProgramCaches.plain_driver_struct. Qed.
Print Assumptions C01_cached_driver_plain.

(* streamed file of any container kind (c: .gz/.bz2/.lz4 sequential decoder with the look-behind drop, .xz, tar
   member), block drops enabled, with the datetime window (linear search) *)
Theorem C01_cached_driver_streamed : forall dated c bs (f : Chunk.file) k1 k2 fa fb plan, (0 < bs)%N ->
  first_byte_ok dated f ->
  exists sls, snd (Caches.c_stream_win dated bs f fa fb plan
                     (Caches.c_gate dated k1 k2 bs f (Caches.sr_init_b (Caches.b_open c bs (Chunk.lenN f))))) = Lines.Found sls /\
              ProgramCaches.repr_at bs f sls (ProgramCaches.win_scan_at fa fb (LinesSpec.syslines_at dated f)).
Proof. exact ProgramCaches.streamed_driver_struct. Qed.
Print Assumptions C01_cached_driver_streamed.

(* ADAPTER: a text worker over the cached machine sends the windowed spec messages of its file with their
   is-last flags (up to the split of lines into block parts), for every reader parameter *)
Theorem C01_adapter_cached_worker : forall dated dtspan, span_ok dtspan ->
  forall bs rp a b streamed (f : Chunk.file) i, (0 < bs)%N -> file_ok dated f -> first_byte_ok dated f ->
  cached_case a b streamed = true -> Gate.gate dated bs f = Gate.FileOk ->
  exists out, cached_text_worker dated dtspan bs rp a b streamed f = (out, GOk) /\
              Forall2 ev_sim (mk_events i out) (mk_events i (text_spec dated dtspan a b f)).
Proof. exact cached_text_worker_correct. Qed.
Print Assumptions C01_adapter_cached_worker.

(* the composition over the PURE block-wise reader (second stage) is kept ... *)
Theorem C01_program_pure_correct : forall O cap bs sched o files,
  (0 < bs)%N -> domain O o files -> gate_passed O bs o files ->
  complete O cap o files sched ->
  program_pure O cap bs sched o files = POk (program_spec O o files).
Proof. exact program_pure_correct. Qed.
Print Assumptions C01_program_pure_correct.

(* ... and the caches are not observable: whatever was cached, dropped, re-read *)
Theorem C01_program_caches_unobservable : forall O cap bs rps sched o files,
  (0 < bs)%N -> domain O o files -> gate_passed O bs o files ->
  complete O cap o files sched ->
  program_m O cap bs rps sched o files = program_pure O cap bs sched o files.
Proof. exact program_caches_unobservable. Qed.
Print Assumptions C01_program_caches_unobservable.

(* two sufficient conditions for the oracle hypothesis first_byte_ok: an oracle that looks at the first
   byte only; an oracle that dates no single byte of the file *)
Theorem C01_first_byte_ok_head : forall dated (f : Chunk.file),
  (forall c r r', dated (c :: r) = dated (c :: r')) -> first_byte_ok dated f.
Proof. exact first_byte_ok_head. Qed.
Print Assumptions C01_first_byte_ok_head.

Theorem C01_first_byte_ok_undated : forall dated (f : Chunk.file),
  (forall c, In c f -> dated [c] = None) -> first_byte_ok dated f.
Proof. exact first_byte_ok_undated. Qed.
Print Assumptions C01_first_byte_ok_undated.

(* the cached machine at work: six messages, block size 4; 12 blocks stored / 4 dropped by the plan / 1 stored
   behind the streamed .gz decoder (.xz and a tar member also run) - and the same six messages sent as by the pure reader *)
Example C01_program_example_cached_reader :
  let st streamed plan := fst (cached_driver dated_ex 4 (mkRp 2 1 plan Caches.KSeq) None None streamed f_six) in
  reader_seen (st false []) = (0, 12, 6)%N /\ reader_seen (st false [true]) = (0, 8, 4)%N /\
  reader_seen (st true [true]) = (12, 1, 4)%N /\
  let pure := text_worker dated_ex dtspan_ex 4 None None false f_six in
  length (fst pure) = 6%nat /\
  cached_text_worker dated_ex dtspan_ex 4 (mkRp 2 1 [] Caches.KSeq) None None false f_six = pure /\
  cached_text_worker dated_ex dtspan_ex 4 (mkRp 2 1 [true] Caches.KSeq) None None false f_six = pure /\
  cached_text_worker dated_ex dtspan_ex 4 (mkRp 2 1 [true] Caches.KSeq) None None true f_six = pure /\
  cached_text_worker dated_ex dtspan_ex 4 (mkRp 2 1 [true] Caches.KXz) None None true f_six = pure /\
  cached_text_worker dated_ex dtspan_ex 4 (mkRp 2 1 [true] Caches.KTar) None None true f_six = pure.
Proof. exact ex_cached_reader. Qed.
Print Assumptions C01_program_example_cached_reader.

(* ---- a SEEKABLE file WITH a window: the binary search with the reader state threaded through ---- *)

(* the search loop over a find WITH STATE (Program.SSearch: s_bmatch / s_endgame / s_bloop / s_find_between / s_stream
   with drop_data_try at the planned opportunities) against Model/Search.v: every call of a search started at
   `fileoffset` is at or after `fileoffset`, so it is enough that the state answers every call at or after lo as the
   layout says (Inv s lo), that this is monotone in lo, kept by find, and kept by drop_data_try of a message that
   begins at or before lo *)
Theorem C01_adapter_stateful_search : forall (St M : Type) (view : M -> Search.sl) (sfind : St -> N -> St * gfres M)
    (sdrop : St -> M -> St) (P : M -> Prop) (gs : list Search.sl) (filesz : N) (Inv : St -> N -> Prop),
  (forall s lo lo', Inv s lo -> (lo <= lo')%N -> Inv s lo') ->
  (forall s lo fo, Inv s lo -> (lo <= fo)%N ->
     Inv (fst (sfind s fo)) lo /\ frel M view P (snd (sfind s fo)) (Search.find gs fo)) ->
  (forall s lo p, Inv s lo -> P p -> (Search.s_beg (view p) <= lo)%N -> Inv (sdrop s p) lo) ->
  (forall fo x, Search.find gs fo = Search.FFound x -> (Search.s_next x <= filesz)%N) ->
  (Search.lfuel gs <= g_lfuel filesz)%nat ->
  forall a b plan s0 out, Inv s0 0%N ->
  Search.text_out gs filesz false a b = (out, Search.Ok) ->
  exists ms, snd (s_stream view sfind sdrop filesz (g_lfuel filesz) a b plan 0 s0 0%N None) = (ms, GOk) /\
             map (fun mb => view (fst mb)) ms = out /\
             Forall (fun mb => P (fst mb) /\ snd mb = g_is_last view filesz (fst mb)) ms.
Proof. exact ssearch_refines. Qed.
Print Assumptions C01_adapter_stateful_search.

(* A1 over the cached machine: find_sysline at or after lo, on a sound state (work package A's rinv) whose dropped
   ranges all end at or before lo, is the find oracle of Model/Search.v and keeps that state property *)
Theorem C01_adapter_cached_find : forall dated bs (f : Chunk.file) st lo fo, (0 < bs)%N ->
  cinv dated bs f st lo -> (lo <= fo)%N ->
  cinv dated bs f (fst (cached_find dated bs f st fo)) lo /\
  frel Caches.ssl (cview bs f) (cP dated bs f) (snd (cached_find dated bs f st fo)) (Search.find (gs_of dated f) fo).
Proof. exact cached_find_rel. Qed.
Print Assumptions C01_adapter_cached_find.

Theorem C01_adapter_cached_window_worker : forall dated dtspan, span_ok dtspan ->
  forall bs rp a b (f : Chunk.file) i, (0 < bs)%N -> file_ok dated f -> first_byte_ok dated f ->
  Gate.gate dated bs f = Gate.FileOk ->
  exists out, cached_win_worker dated dtspan bs rp a b f = (out, GOk) /\
              Forall2 ev_sim (mk_events i out) (mk_events i (text_spec dated dtspan a b f)).
Proof. exact cached_win_worker_correct. Qed.
Print Assumptions C01_adapter_cached_window_worker.

Example C01_program_example_cached_window :
  let A := Some 3000000000%Z in let B := Some 5000000000%Z in
  reader_seen (fst (cached_win_driver dated_ex 4 (mkRp 2 1 [] Caches.KSeq) A B f_six)) = (0, 12, 6)%N /\
  reader_seen (fst (cached_win_driver dated_ex 4 (mkRp 2 1 [true] Caches.KSeq) A B f_six)) = (0, 11, 4)%N /\
  (let c := Caches.s_cnt (fst (cached_win_driver dated_ex 4 (mkRp 2 1 [true] Caches.KSeq) A B f_six)) in
   (Caches.sc_lru_miss c, Caches.sc_range_hit c) = (10, 3)%N) /\
  length (fst (text_worker dated_ex dtspan_ex 4 A B false f_six)) = 3%nat /\
  cached_win_worker dated_ex dtspan_ex 4 (mkRp 2 1 [true] Caches.KSeq) A B f_six = text_worker dated_ex dtspan_ex 4 A B false f_six.
Proof. exact ex_cached_window. Qed.
Print Assumptions C01_program_example_cached_window.

(* ==========================================================================================
   FOURTH STAGE: NO TIMESTAMP ORACLE FOR TEXT SOURCES (Proofs/ProgramRegex.v; work package B's regex model).
   A source of kind [KTextRows (rx_dated yo off) rx_rows] is read as the code reads it: stage 1 is the complete
   block-zero analysis Model/Gate.gate_rows over ALL rows of the regenerated pattern table, where "row i dates line l"
   is work package B's proved function of the BYTES (slice -> regex search -> named groups -> captures -> normalise +
   chrono: Model/RegexDt.dated_model); the row it names dates every line in stages 2 + 3 (cached reader machine,
   search, coordinator, printer, summary as above).  program_m / program_spec for such sources consult no `dated`
   oracle (the o_dated / o_ydate components of the oracle record are unused; o_dtspan only places colour).
   ========================================================================================== *)
From S4.Model Require GateSpec Regex RegexNum.
From S4.Proofs Require RegexChoice ProgramRegex.
Module RegexText.
Import ProgramRegex.

(* Layer A: every hypothesis is a statement about the file's BYTES (ProgramRegex.rx_bytes_ok: the bs-free decision
   names row r; under r's regex model the messages are chronological and >= 2 bytes and no single byte is dated; the
   analysis at bs decides as the bs-free decision); sources of the kinds without timestamp oracle (records, event
   logs, journals) as in Program.src_ok; KText / KYearless (oracle kinds) excluded *)
Theorem C01_program_correct_rows : forall yo off O cap bs rps sched o files,
  (0 < bs)%N -> span_ok (o_dtspan O) -> Forall (rx_src_ok yo off O bs o) files ->
  complete O cap o files sched ->
  program_m O cap bs rps sched o files = POk (program_spec O o files).
Proof. exact program_correct_rows. Qed.
Print Assumptions C01_program_correct_rows.

(* bytes -> regex -> captures -> normalise -> instant is the instant of the NUMBERS on a numeric family line of the
   row (C04_regex_numbers, timestamp at the start of the line) *)
Theorem C01_regex_line_instant : forall yo off row dr rd l, row_ok off row dr -> numeric_line yo row dr rd l ->
  rxd yo off (Regex.rx_index row) l = Some (RegexNum.fread_instant rd yo off).
Proof. exact numeric_line_instant. Qed.
Print Assumptions C01_regex_line_instant.

(* a file DESCRIBED line by line (a dated line = numeric family line of row r with its reading and >= 2 bytes; any other
   line = one on which row r's model gives nothing - that is how "continuation line" is stated): its messages carry the
   instants of the numbers, in file order *)
Theorem C01_regex_spec_instants : forall yo off row dr (f : Chunk.file) ds, row_ok off row dr -> described yo off row dr f ds ->
  map fst (LinesSpec.syslines (rxd yo off (Regex.rx_index row)) f) = desc_instants yo off ds.
Proof. exact regex_spec_instants. Qed.
Print Assumptions C01_regex_spec_instants.

(* Layer B: the byte-level hypotheses follow from the NUMBER-level description (ProgramRegex.rx_file_numbers: row
   numeric; the description above with instants that do not step back; bytes < 256 and the row silent on single bytes;
   permitted block size outside the classes F3a-d (C12 gate_accept_spec), file not too small / not null bytes; the
   choice rule on the first dated line: C04_regex_choice_numeric, nothing to check for rows 0, 7, 24, 25) *)
Theorem C01_regex_file_domain : forall yo off bs row dr (f : Chunk.file) ds, rx_file_numbers yo off bs row dr f ds ->
  rx_bytes_ok yo off bs f (Regex.rx_index row).
Proof. exact rx_file_domain. Qed.
Print Assumptions C01_regex_file_domain.

(* THE COROLLARY of C01_program_correct: bytes -> regex -> captures -> normalise -> instant -> window -> merge -> print
   as ONE theorem, no oracle for text sources *)
Theorem C01_program_correct_regex : forall yo off O cap bs rps sched o files,
  (0 < bs)%N -> span_ok (o_dtspan O) -> Forall (rx_src_numbers yo off O bs o) files ->
  complete O cap o files sched ->
  program_m O cap bs rps sched o files = POk (program_spec O o files).
Proof. exact program_correct_regex. Qed.
Print Assumptions C01_program_correct_regex.

(* ... where the specification lists, for such a source, the windowed groups under the chosen row's model, and their
   instants are those the NUMBERS denote (program_spec sorts all sources by them: stable, source order on ties) *)
Theorem C01_program_spec_regex_source : forall yo off O bs o pf row dr ds, pf_kind pf = rx_kind yo off ->
  rx_file_numbers yo off bs row dr (pf_data pf) ds ->
  spec_out O o pf = text_spec (rxd yo off (Regex.rx_index row)) (o_dtspan O) (op_after o) (op_before o) (pf_data pf) /\
  map fst (LinesSpec.syslines (rxd yo off (Regex.rx_index row)) (pf_data pf)) = desc_instants yo off ds.
Proof. exact program_spec_regex_source. Qed.
Print Assumptions C01_program_spec_regex_source.

(* concrete files in two rows' notations: samba "[2000/01/01 00:00:01.123] ..." = row 0 (no competitors), seekable, and
   "2000-01-01 00:00:02 daemon[17]: ..." = row 79 (24 listed competitors, all silent), streamed; each with a continuation
   line; both satisfy the number-level description ... *)
Example C01_regex_example_files :
  rx_file_numbers None 0 256 row0 (dr_at 0) fA dsA /\ rx_file_numbers None 0 256 row79 (dr_at 79) fB dsB.
Proof. exact (conj fA_numbers fB_numbers). Qed.
Print Assumptions C01_regex_example_files.

(* ... and `s4 -n -a 2000-01-01T00:00:02 --summary smbd.log daemon.log.gz` at block size 256 *)
Example C01_regex_example_program :
  GateSpec.spec_accept (rxd None 0) RegexChoice.rx_rows fA = Some 0%N /\
  GateSpec.spec_accept (rxd None 0) RegexChoice.rx_rows fB = Some 79%N /\
  program_m O_rx 2 256 rps_ex sched_rx opts_rx files_rx = POk (program_spec O_rx opts_rx files_rx) /\
  Print.payload (fst (program_spec O_rx opts_rx files_rx)) = expected_rx /\
  Summary.u_sys (snd (program_spec O_rx opts_rx files_rx)) = 5%N.
Proof. exact ex_regex_program. Qed.
Print Assumptions C01_regex_example_program.
End RegexText.
