(* Props/C04.v — property C04 "timestamps are interpreted as the instant they denote" (PARTIAL claim:
   the regex engine is not modelled): statements only; every proof is `exact <lemma>`.

   Model/Normalise.v transcribes captures_to_buffer_bytes ([normalise]) and what chrono does for the
   DTP_* strftime strings ([parse_buffer]); Spec/NormaliseSpec.v says what the captured text DENOTES
   ([denoted_instant]: frozen month names, frozen zone reference Spec/TzRef.v, definitional day count
   Spec/CalendarSpec.v).  tz_table / month_table / dt_table are REGENERATED from /repo on every run. *)
From Coq Require Import String.
From S4.Base Require Import Bytes.
From S4.Model Require Import Calendar Normalise.
From S4.Gen Require Import DatetimeTables.
From S4.Spec Require Import CalendarSpec TzRef NormaliseSpec.
From S4.Proofs Require Import CalendarProofs CalendarExtra NormaliseTablesOk NormaliseProofs NormaliseDenotes.
Close Scope string_scope.
Open Scope list_scope.
Open Scope N_scope.

(* ================================================================== calendar arithmetic (all years) *)
(* agreement of the era-based day number with the definitional count (recursion over years and months) *)
Theorem C04_days_from_civil_spec : forall y m d : Z,
  (0 <= y)%Z -> (1 <= m <= 12)%Z -> days_from_civil y m d = spec_days y m d.
Proof. exact days_from_civil_spec. Qed.
Print Assumptions C04_days_from_civil_spec.

Theorem C04_calendar_strict_mono : forall y m d y' m' d' : Z,
  valid_date y m d = true -> valid_date y' m' d' = true ->
  date_lt y m d y' m' d' -> (days_from_civil y m d < days_from_civil y' m' d')%Z.
Proof. exact dfc_strict_mono. Qed.
Print Assumptions C04_calendar_strict_mono.

Theorem C04_civil_from_days_left_inverse : forall y m d : Z,
  valid_date y m d = true -> civil_from_days (days_from_civil y m d) = (y, m, d).
Proof. exact civil_from_days_left_inverse. Qed.
Print Assumptions C04_civil_from_days_left_inverse.

Theorem C04_civil_from_days_right_inverse : forall z : Z,
  let '(y, m, d) := civil_from_days z in valid_date y m d = true /\ days_from_civil y m d = z.
Proof. exact civil_from_days_right_inverse. Qed.
Print Assumptions C04_civil_from_days_right_inverse.

(* ================================================================== fraction padding *)
(* 1..9 written fraction digits: the ten-way padding match yields nine digits whose value in ns is
   exactly the written fraction *)
Theorem C04_pad9_value : forall f : bytes,
  (1 <= length f <= 9)%nat -> forallb is_digit f = true ->
  length (pad_frac f) = 9%nat /\ forallb is_digit (pad_frac f) = true /\
  num_of (pad_frac f) 0 = (num_of f 0 * 10 ^ Z.of_nat (9 - length f))%Z /\
  frac_ns f = Some (num_of (pad_frac f) 0).
Proof. exact pad9_value_lemma. Qed.
Print Assumptions C04_pad9_value.

(* ================================================================== zone table (regenerated) *)
(* every value is "" or  +/-HH:MM  with HH <= 14 and MM in {00,15,30,45} *)
Theorem C04_tz_table_wf : forall k v, In (k, v) tz_table -> tz_value_wf v = true.
Proof. exact tz_table_wf_all. Qed.
Print Assumptions C04_tz_table_wf.

(* lower- and upper-case spelling of every key are present and denote the same offset *)
Theorem C04_tz_case_agree : tz_case_agree_b = true.
Proof. exact tz_case_agree_ok. Qed.
Print Assumptions C04_tz_case_agree.

(* every abbreviation of the frozen reference (either case) is in the table with the reference meaning:
   [Some o] = that offset, [None] = ambiguous = empty value = fallback zone *)
Theorem C04_tz_table_matches_reference : forall name v, In (name, v) tz_ref_expanded ->
  exists s, assoc name tz_table = Some s /\ tz_value_off s = Some v.
Proof. exact tz_matches_ref_all. Qed.
Print Assumptions C04_tz_table_matches_reference.

Theorem C04_tz_table_no_extra : tz_no_extra_b = true.
Proof. exact tz_no_extra_ok. Qed.
Print Assumptions C04_tz_table_no_extra.

(* ================================================================== month spellings (regenerated) *)
Theorem C04_month_table_sound : month_table_sound_b = true.
Proof. exact month_table_sound_ok. Qed.
Print Assumptions C04_month_table_sound.

(* every lower/Title/UPPER abbreviation, abbreviation-with-dot and full name has an arm with the right
   number: every spelling the regexes admit, "may." included (F12 fixed in /repo, commit 653ab12e) *)
Theorem C04_month_table_complete : forall sp n, In (sp, n) ref_month_spellings ->
  exists v, assoc sp month_table = Some v /\ two_digit_val v = Some n.
Proof. exact month_table_complete_all. Qed.
Print Assumptions C04_month_table_complete.

(* regression lemma for F12: the table without the three "may." arms (as before the fix) panics on
   "May.", the current table maps it to "05" *)
Theorem C04_may_dot_regression :
  let sp := [77; 97; 121; 46] in
  In (sp, 5%Z) ref_month_spellings /\
  assoc sp month_table_before_fix = None /\
  (forall d c, f_month d = Mo_b -> c_month c = Some sp -> seg_month month_table_before_fix d c = None) /\
  (forall d c, f_month d = Mo_b -> c_month c = Some sp -> seg_month month_table d c = Some [48; 53]).
Proof. exact may_dot_regression_lemma. Qed.
Print Assumptions C04_may_dot_regression.

(* ================================================================== pattern table (regenerated) *)
(* "pattern is interdependent with the other members": for each of the rows of DATETIME_PARSE_DATAS the
   strftime pattern is exactly the item list the DTFS fields require ([canon_items] / [epoch_items]) and
   the field combination is one the generic theorem covers *)
Theorem C04_rows_ok : forall r, In r dt_table -> dtfs_ok (r_dtfs r) = true.
Proof. exact rows_ok_all. Qed.
Print Assumptions C04_rows_ok.

(* EZCHECK side conditions: every slice range starts at 0 (the carried-over skip index is relative to
   the slice), every row needs two consecutive digits *)
Theorem C04_ranges_start_zero : ranges_start_zero_b = true.
Proof. exact ranges_start_zero_ok. Qed.
Print Assumptions C04_ranges_start_zero.

Theorem C04_all_patterns_need_d2 : all_patterns_need_d2_b = true.
Proof. exact all_patterns_need_d2_ok. Qed.
Print Assumptions C04_all_patterns_need_d2.

(* ================================================================== F7: epoch notations *)
Theorem C04_epoch_refuted :
  exists r c off,
    In r dt_table /\ f_epoch (r_dtfs r) = E_s /\ fallback_ok off = true /\
    denoted_instant (r_dtfs r) c None off = Some (1843250587 * 1000000000)%Z /\
    model_instant month_table tz_table (r_dtfs r) c None off = Some (1843263187 * 1000000000)%Z.
Proof. exact epoch_refuted_lemma. Qed.
Print Assumptions C04_epoch_refuted.

(* ================================================================== zones in the normalised buffer *)
(* no zone in the notation => the fallback zone (the text of --tz-offset is appended) *)
Theorem C04_no_zone_fallback : forall d c tzs,
  f_tz d = Tz_fill -> seg_tz tz_table d c tzs = Some tzs.
Proof. exact no_zone_fallback_lemma. Qed.
Print Assumptions C04_no_zone_fallback.

(* an abbreviation the frozen reference calls ambiguous => the fallback zone *)
Theorem C04_ambiguous_zone_fallback : forall d c t tzs,
  f_tz d = Tz_Z -> c_tz c = Some t -> zone_of_name t = Some None ->
  seg_tz tz_table d c tzs = Some tzs.
Proof. exact ambiguous_zone_fallback_lemma. Qed.
Print Assumptions C04_ambiguous_zone_fallback.

(* an unambiguous abbreviation (either case) => a text that chrono's offset scanner reads completely as
   exactly the reference offset *)
Theorem C04_named_zone_offset : forall d c t o tzs,
  f_tz d = Tz_Z -> c_tz c = Some t -> zone_of_name t = Some (Some o) ->
  exists s, seg_tz tz_table d c tzs = Some s /\ scan_offset false s = Some (o, []).
Proof. exact named_zone_offset_lemma. Qed.
Print Assumptions C04_named_zone_offset.

(* ================================================================== THE UNIVERSAL THEOREM
   For every row of the regenerated DATETIME_PARSE_DATAS that is not an epoch row, EVERY capture set,
   every fill year and every fallback zone (whole minutes, |off| < 24 h): if the captured text denotes
   an instant ([denoted_instant]: digits read as numbers, month names by the frozen English reference,
   zone by the written offset / frozen Spec/TzRef.v / the fallback zone, the instant by the definitional
   day count), then captures_to_buffer_bytes followed by chrono's parsing of the row's strftime pattern
   ([model_instant] = normalise + parse_buffer, incl. BUFLEN) yields exactly that instant. *)
Theorem C04_normalise_denotes : forall r c yo off t,
  In r dt_table -> f_epoch (r_dtfs r) = E_none -> fallback_ok off = true ->
  denoted_instant (r_dtfs r) c yo off = Some t ->
  model_instant month_table tz_table (r_dtfs r) c yo off = Some t.
Proof. exact normalise_denotes_rows. Qed.
Print Assumptions C04_normalise_denotes.

(* generic form: any DTFSSet (not only table rows) whose pattern is the one its fields require *)
Theorem C04_normalise_denotes_generic : forall d c yo off t,
  dtfs_ok d = true -> f_epoch d = E_none -> fallback_ok off = true ->
  denoted_instant d c yo off = Some t ->
  model_instant month_table tz_table d c yo off = Some t.
Proof. exact normalise_denotes_closed. Qed.
Print Assumptions C04_normalise_denotes_generic.

(* F7 characterised for ALL epoch rows, texts and zones: the code's instant is the denoted instant
   shifted by the fallback offset — right exactly when the fallback zone is UTC *)
Theorem C04_epoch_shift : forall r c yo off t,
  In r dt_table -> f_epoch (r_dtfs r) = E_s ->
  denoted_instant (r_dtfs r) c yo off = Some t ->
  model_instant month_table tz_table (r_dtfs r) c yo off = Some (t - off * NS)%Z.
Proof. exact epoch_shift_rows. Qed.
Print Assumptions C04_epoch_shift.

(* the hypotheses are satisfiable: "2024 Feb.  9 23:59:59.123 (U+2212)03:30" denotes 2024-02-10T03:29:59.123Z *)
Example C04_normalise_denotes_example :
  dtfs_ok ex_dtfs = true /\ existsb (fun r => items_eqb [] [] && Bool.eqb (dtfs_ok (r_dtfs r)) true) dt_table = true /\
  denoted_instant ex_dtfs ex_caps None 0 = Some 1707535799123000000%Z /\
  model_instant month_table tz_table ex_dtfs ex_caps None 0 = Some 1707535799123000000%Z.
Proof. exact normalise_denotes_example. Qed.
Print Assumptions C04_normalise_denotes_example.
