(* Props/C04.v — property C04 "timestamps are interpreted as the instant they denote" (PARTIAL claim: the
   regex stage is a MODEL of the regex crate, tied by correspondence, and the universal statement covers
   168 of 173 rows on the renderings their plan admits): statements only; every proof is `exact <lemma>`.

   Model/Normalise.v transcribes captures_to_buffer_bytes ([normalise]) and what chrono does for the
   DTP_* strftime strings ([parse_buffer]); Spec/NormaliseSpec.v says what the captured text DENOTES
   ([denoted_instant]: frozen month names, frozen zone reference Spec/TzRef.v, definitional day count
   Spec/CalendarSpec.v).  tz_table / month_table / dt_table are REGENERATED from /repo on every run. *)
From Coq Require Import String.
From S4.Base Require Import Bytes.
From S4.Base Require Chunk.
From S4.Model Require Import Calendar Normalise Regex RegexPlan RegexDt RegexNum Year.
From S4.Model Require Lines Gate GateSpec.
From S4.Gen Require BlockConsts.
From S4.Gen Require Import DatetimeTables RegexTables.
From S4.Spec Require Import CalendarSpec TzRef NormaliseSpec.
From S4.Proofs Require Import CalendarProofs CalendarExtra NormaliseTablesOk NormaliseProofs NormaliseDenotes.
From S4.Proofs Require Import RegexProofs RegexSim RegexUniv RegexExamples RegexIso RegexNumProofs RegexNumCover RegexYear RegexComp RegexCompRows RegexChoice.
Close Scope string_scope.
Open Scope list_scope.
Open Scope N_scope.

(* ================================================================== calendar arithmetic (all years) *)
(* agreement of the era-based day number with the definitional count (recursion over years and months) *)
Theorem C04_days_from_civil_spec : forall y m d : Z,
  (0 <= y)%Z -> (1 <= m <= 12)%Z -> days_from_civil y m d = spec_days y m d.
Proof. exact days_from_civil_spec. Qed.
Print Assumptions C04_days_from_civil_spec.

Theorem C04_calendar_strict_mono : forall y m d y' m' d' : Z,
  valid_date y m d = true -> valid_date y' m' d' = true ->
  date_lt y m d y' m' d' -> (days_from_civil y m d < days_from_civil y' m' d')%Z.
Proof. exact dfc_strict_mono. Qed.
Print Assumptions C04_calendar_strict_mono.

Theorem C04_civil_from_days_left_inverse : forall y m d : Z,
  valid_date y m d = true -> civil_from_days (days_from_civil y m d) = (y, m, d).
Proof. exact civil_from_days_left_inverse. Qed.
Print Assumptions C04_civil_from_days_left_inverse.

Theorem C04_civil_from_days_right_inverse : forall z : Z,
  let '(y, m, d) := civil_from_days z in valid_date y m d = true /\ days_from_civil y m d = z.
Proof. exact civil_from_days_right_inverse. Qed.
Print Assumptions C04_civil_from_days_right_inverse.

(* ================================================================== fraction padding *)
(* 1..9 written fraction digits: the ten-way padding match yields nine digits whose value in ns is
   exactly the written fraction *)
Theorem C04_pad9_value : forall f : bytes,
  (1 <= length f <= 9)%nat -> forallb is_digit f = true ->
  length (pad_frac f) = 9%nat /\ forallb is_digit (pad_frac f) = true /\
  num_of (pad_frac f) 0 = (num_of f 0 * 10 ^ Z.of_nat (9 - length f))%Z /\
  frac_ns f = Some (num_of (pad_frac f) 0).
Proof. exact pad9_value_lemma. Qed.
Print Assumptions C04_pad9_value.

(* ================================================================== zone table (regenerated) *)
(* every value is "" or  +/-HH:MM  with HH <= 14 and MM in {00,15,30,45} *)
Theorem C04_tz_table_wf : forall k v, In (k, v) tz_table -> tz_value_wf v = true.
Proof. exact tz_table_wf_all. Qed.
Print Assumptions C04_tz_table_wf.

(* lower- and upper-case spelling of every key are present and denote the same offset *)
Theorem C04_tz_case_agree : tz_case_agree_b = true.
Proof. exact tz_case_agree_ok. Qed.
Print Assumptions C04_tz_case_agree.

(* every abbreviation of the frozen reference (either case) is in the table with the reference meaning:
   [Some o] = that offset, [None] = ambiguous = empty value = fallback zone *)
Theorem C04_tz_table_matches_reference : forall name v, In (name, v) tz_ref_expanded ->
  exists s, assoc name tz_table = Some s /\ tz_value_off s = Some v.
Proof. exact tz_matches_ref_all. Qed.
Print Assumptions C04_tz_table_matches_reference.

Theorem C04_tz_table_no_extra : tz_no_extra_b = true.
Proof. exact tz_no_extra_ok. Qed.
Print Assumptions C04_tz_table_no_extra.

(* ================================================================== month spellings (regenerated) *)
Theorem C04_month_table_sound : month_table_sound_b = true.
Proof. exact month_table_sound_ok. Qed.
Print Assumptions C04_month_table_sound.

(* every lower/Title/UPPER abbreviation, abbreviation-with-dot and full name has an arm with the right
   number: every spelling the regexes admit, "may." included (F12 fixed in /repo, commit 653ab12e) *)
Theorem C04_month_table_complete : forall sp n, In (sp, n) ref_month_spellings ->
  exists v, assoc sp month_table = Some v /\ two_digit_val v = Some n.
Proof. exact month_table_complete_all. Qed.
Print Assumptions C04_month_table_complete.

(* regression lemma for F12: the table without the three "may." arms (as before the fix) panics on
   "May.", the current table maps it to "05" *)
Theorem C04_may_dot_regression :
  let sp := [77; 97; 121; 46] in
  In (sp, 5%Z) ref_month_spellings /\
  assoc sp month_table_before_fix = None /\
  (forall d c, f_month d = Mo_b -> c_month c = Some sp -> seg_month month_table_before_fix d c = None) /\
  (forall d c, f_month d = Mo_b -> c_month c = Some sp -> seg_month month_table d c = Some [48; 53]).
Proof. exact may_dot_regression_lemma. Qed.
Print Assumptions C04_may_dot_regression.

(* ================================================================== pattern table (regenerated) *)
(* "pattern is interdependent with the other members": for each of the rows of DATETIME_PARSE_DATAS the
   strftime pattern is exactly the item list the DTFS fields require ([canon_items] / [epoch_items]) and
   the field combination is one the generic theorem covers *)
Theorem C04_rows_ok : forall r, In r dt_table -> dtfs_ok (r_dtfs r) = true.
Proof. exact rows_ok_all. Qed.
Print Assumptions C04_rows_ok.

(* EZCHECK side conditions: every slice range starts at 0 (the carried-over skip index is relative to
   the slice), every row needs two consecutive digits *)
Theorem C04_ranges_start_zero : ranges_start_zero_b = true.
Proof. exact ranges_start_zero_ok. Qed.
Print Assumptions C04_ranges_start_zero.

Theorem C04_all_patterns_need_d2 : all_patterns_need_d2_b = true.
Proof. exact all_patterns_need_d2_ok. Qed.
Print Assumptions C04_all_patterns_need_d2.

(* ================================================================== F7: epoch notations *)
Theorem C04_epoch_refuted :
  exists r c off,
    In r dt_table /\ f_epoch (r_dtfs r) = E_s /\ fallback_ok off = true /\
    denoted_instant (r_dtfs r) c None off = Some (1843250587 * 1000000000)%Z /\
    model_instant month_table tz_table (r_dtfs r) c None off = Some (1843263187 * 1000000000)%Z.
Proof. exact epoch_refuted_lemma. Qed.
Print Assumptions C04_epoch_refuted.

(* ================================================================== zones in the normalised buffer *)
(* no zone in the notation => the fallback zone (the text of --tz-offset is appended) *)
Theorem C04_no_zone_fallback : forall d c tzs,
  f_tz d = Tz_fill -> seg_tz tz_table d c tzs = Some tzs.
Proof. exact no_zone_fallback_lemma. Qed.
Print Assumptions C04_no_zone_fallback.

(* an abbreviation the frozen reference calls ambiguous => the fallback zone *)
Theorem C04_ambiguous_zone_fallback : forall d c t tzs,
  f_tz d = Tz_Z -> c_tz c = Some t -> zone_of_name t = Some None ->
  seg_tz tz_table d c tzs = Some tzs.
Proof. exact ambiguous_zone_fallback_lemma. Qed.
Print Assumptions C04_ambiguous_zone_fallback.

(* an unambiguous abbreviation (either case) => a text that chrono's offset scanner reads completely as
   exactly the reference offset *)
Theorem C04_named_zone_offset : forall d c t o tzs,
  f_tz d = Tz_Z -> c_tz c = Some t -> zone_of_name t = Some (Some o) ->
  exists s, seg_tz tz_table d c tzs = Some s /\ scan_offset false s = Some (o, []).
Proof. exact named_zone_offset_lemma. Qed.
Print Assumptions C04_named_zone_offset.

(* ================================================================== THE UNIVERSAL THEOREM
   For every row of the regenerated DATETIME_PARSE_DATAS that is not an epoch row, EVERY capture set,
   every fill year and every fallback zone (whole minutes, |off| < 24 h): if the captured text denotes
   an instant ([denoted_instant]: digits read as numbers, month names by the frozen English reference,
   zone by the written offset / frozen Spec/TzRef.v / the fallback zone, the instant by the definitional
   day count), then captures_to_buffer_bytes followed by chrono's parsing of the row's strftime pattern
   ([model_instant] = normalise + parse_buffer, incl. BUFLEN) yields exactly that instant. *)
Theorem C04_normalise_denotes : forall r c yo off t,
  In r dt_table -> f_epoch (r_dtfs r) = E_none -> fallback_ok off = true ->
  denoted_instant (r_dtfs r) c yo off = Some t ->
  model_instant month_table tz_table (r_dtfs r) c yo off = Some t.
Proof. exact normalise_denotes_rows. Qed.
Print Assumptions C04_normalise_denotes.

(* generic form: any DTFSSet (not only table rows) whose pattern is the one its fields require *)
Theorem C04_normalise_denotes_generic : forall d c yo off t,
  dtfs_ok d = true -> f_epoch d = E_none -> fallback_ok off = true ->
  denoted_instant d c yo off = Some t ->
  model_instant month_table tz_table d c yo off = Some t.
Proof. exact normalise_denotes_closed. Qed.
Print Assumptions C04_normalise_denotes_generic.

(* F7 characterised for ALL epoch rows, texts and zones: the code's instant is the denoted instant
   shifted by the fallback offset — right exactly when the fallback zone is UTC *)
Theorem C04_epoch_shift : forall r c yo off t,
  In r dt_table -> f_epoch (r_dtfs r) = E_s ->
  denoted_instant (r_dtfs r) c yo off = Some t ->
  model_instant month_table tz_table (r_dtfs r) c yo off = Some (t - off * NS)%Z.
Proof. exact epoch_shift_rows. Qed.
Print Assumptions C04_epoch_shift.

(* the hypotheses are satisfiable: "2024 Feb.  9 23:59:59.123 (U+2212)03:30" denotes 2024-02-10T03:29:59.123Z *)
Example C04_normalise_denotes_example :
  dtfs_ok ex_dtfs = true /\ existsb (fun r => items_eqb [] [] && Bool.eqb (dtfs_ok (r_dtfs r)) true) dt_table = true /\
  denoted_instant ex_dtfs ex_caps None 0 = Some 1707535799123000000%Z /\
  model_instant month_table tz_table ex_dtfs ex_caps None 0 = Some 1707535799123000000%Z.
Proof. exact normalise_denotes_example. Qed.
Print Assumptions C04_normalise_denotes_example.

(* ================================================================== THE REGEX STAGE (Model/Regex.v)
   [search r text] models regex::bytes::Regex::new(pattern).captures(text): Unicode mode, leftmost-first.
   rx_table (Gen/RegexTables.v) is REGENERATED from the compiled pattern strings on every run. *)

(* totality: with the fuel the model uses (|text|+1) the search always reaches a verdict, for every
   pattern of the AST and every text *)
Theorem C04_regex_total : forall r text,
  search r text = NoMatch \/ exists mt, search r text = Match mt.
Proof. exact search_total. Qed.
Print Assumptions C04_regex_total.

Theorem C04_regex_row_total : forall row line, exists x, row_spans row line = Match x.
Proof. exact row_spans_total. Qed.
Print Assumptions C04_regex_row_total.

(* soundness with respect to the declarative relation [matches] (Proofs/RegexProofs.M: concatenation, union,
   iteration counts between the bounds, group = span of its sub-match, latest iteration wins); the match
   lies inside the text and every group span inside the match *)
Theorem C04_regex_sound : forall r text st s,
  search r text = Match (st, s) ->
  st <= c_pos s /\ c_pos s <= N.of_nat (length text) /\
  matches r text st (c_pos s) (c_caps s) /\
  (forall g a b, cap_lookup g (c_caps s) = Some (a, b) -> st <= a /\ a <= b /\ b <= c_pos s).
Proof. exact search_sound. Qed.
Print Assumptions C04_regex_sound.

Example C04_regex_sound_example :
  exists row st s, nth_rx 73 = Some row /\ search (rx_re row) ex_line = Match (st, s) /\
                   st = 0 /\ c_pos s = 31 /\ cap_lookup 1 (c_caps s) = Some (0, 4) /\ cap_lookup 8 (c_caps s) = Some (27, 30).
Proof. exact search_example. Qed.
Print Assumptions C04_regex_sound_example.

(* leftmost-first priority ("cut"): the first way an item matches on its own is the way a pattern uses it,
   whenever the continuation succeeds there; and an item that cannot match makes the pattern fail *)
Theorem C04_regex_first_way : forall A f r s s1 (k : cst -> res A),
  cm cst f r s accept = Match s1 -> k s1 <> NoMatch -> cm A f r s k = k s1.
Proof. exact first_way. Qed.
Print Assumptions C04_regex_first_way.

(* the SYMBOLIC run (characters = sets of bytes, unconstrained tail) is sound for every concretisation:
   a plan that [chain_ok] accepts determines the concrete search on EVERY text of the plan *)
Theorem C04_regex_plan_search : forall r p texts rest,
  chain_ok OAbs r p = true -> texts_ok p texts rest = true ->
  search r (concat texts ++ rest) =
    Match (0, mkC (N.of_nat (length (concat texts))) rest (final_caps p texts rest 0)).
Proof. exact plan_search. Qed.
Print Assumptions C04_regex_plan_search.

Example C04_regex_plan_search_example :
  chain_ok OAbs (rx_re iso_rx) iso_plan = true /\
  texts_ok iso_plan (iso_texts 2024 2 29 23 59 59 32) (s2b "up") = true /\
  search (rx_re iso_rx) (concat (iso_texts 2024 2 29 23 59 59 32) ++ s2b "up") =
    Match (0, mkC 20 (s2b "up") (final_caps iso_plan (iso_texts 2024 2 29 23 59 59 32) (s2b "up") 0)).
Proof. exact plan_search_example. Qed.
Print Assumptions C04_regex_plan_search_example.

(* digits+ followed by "-": the greedy first way (all four digits) is the one used *)
Example C04_regex_first_way_example :
  let r := RRep 1 None true (RClass false (mkCls false [CPosix false P_digit])) in
  let s := mkC 0 (s2b "2024-") [] in
  let s1 := mkC 4 (s2b "-") [] in
  let k := fun s' : cst => cm cst 6 (RBytes [45]) s' accept in
  cm cst 6 r s accept = Match s1 /\ k s1 <> NoMatch /\ cm cst 6 r s k = k s1.
Proof. exact first_way_example. Qed.
Print Assumptions C04_regex_first_way_example.

(* table obligations on the regenerated ASTs *)
Theorem C04_regex_no_nullable_star : no_nullable_star_b = true.
Proof. exact no_nullable_star_ok. Qed.
Print Assumptions C04_regex_no_nullable_star.

Theorem C04_regex_names_in_range : names_in_range_b = true.
Proof. exact names_in_range_ok. Qed.
Print Assumptions C04_regex_names_in_range.

Theorem C04_regex_tables_aligned : tables_aligned_b = true.
Proof. exact tables_aligned_ok. Qed.
Print Assumptions C04_regex_tables_aligned.

(* the documented examples (`_test_cases`, regenerated): for each of them the model pipeline slice -> regex ->
   named groups -> normalise -> parse yields the documented [dt_beg, dt_end) and the instant of the
   documented fields; every row documents at least one *)
Theorem C04_regex_documented_examples : forall ex, In ex rx_examples -> example_ok ex = true.
Proof. exact examples_ok_all. Qed.
Print Assumptions C04_regex_documented_examples.

Theorem C04_regex_examples_every_row :
  forallb (fun r => existsb (fun ex => ex_row ex =? rx_index r) rx_examples) rx_table = true.
Proof. exact examples_every_row. Qed.
Print Assumptions C04_regex_examples_every_row.

(* WHICH rows the universal theorem covers: [row_covered] (plan generated from the AST, re-checked by the
   symbolic engine, every named group pinned to one item, slice from 0) holds of every row of the
   regenerated table except rows 65-69 (greedy `.+` in front of the timestamp) *)
Theorem C04_regex_coverage :
  forallb (fun r => row_covered r || existsb (N.eqb (rx_index r)) uncovered_rows) rx_table = true.
Proof. exact coverage_ok. Qed.
Print Assumptions C04_regex_coverage.

(* FULL STATEMENT (not proved): for every row and every line whose timestamp is a rendering of the row's
   notation, the regex captures exactly the written fields and bytes_to_regex_to_datetime returns the
   denoted instant.  PROVED (_partial): every row except 65-69; lines whose slice is  t1 ++ ... ++ tn ++ rest
   with one text per pattern item fitting the row's plan ([texts_ok]: every shape of the item's finite
   language, `*`/`+` unrolled at most twice, ASCII members of classes plus U+2212, the timestamp starting
   at slice offset 0, rest constrained only through the one-byte lookaheads the plan records).
   Missing: rows 65-69; unanchored rows with text in front of the timestamp; longer blank runs. *)
Theorem C04_regex_captures_partial : forall row texts rest tail,
  In row rx_table -> ~ In (rx_index row) uncovered_rows ->
  let line := (concat texts ++ rest) ++ tail in
  slice_of row line = Some (concat texts ++ rest) ->
  texts_ok (row_plan row) texts rest = true ->
  row_spans row line =
    Match (Some (spans_of (rx_ncap row)
                          (0, mkC (N.of_nat (length (concat texts))) rest (final_caps (row_plan row) texts rest 0)))) /\
  caps_of row line (spans_of (rx_ncap row)
                             (0, mkC (N.of_nat (length (concat texts))) rest (final_caps (row_plan row) texts rest 0)))
    = plan_caps row (row_plan row) texts.
Proof. exact covered_captures. Qed.
Print Assumptions C04_regex_captures_partial.

(* ... composed with C04_normalise_denotes: the oracle `dated` replaced by a proved function *)
Theorem C04_regex_dated_denotes_partial : forall row dr texts rest tail yo off t,
  In row rx_table -> In dr dt_table -> rx_index row = r_index dr ->
  ~ In (rx_index row) uncovered_rows ->
  f_epoch (r_dtfs dr) = E_none -> fallback_ok off = true ->
  let line := (concat texts ++ rest) ++ tail in
  slice_of row line = Some (concat texts ++ rest) ->
  texts_ok (row_plan row) texts rest = true ->
  denoted_instant (r_dtfs dr) (plan_caps row (row_plan row) texts) yo off = Some t ->
  option_map (fun x => fst (fst x)) (dated_model month_table tz_table row (r_dtfs dr) line yo off) = Some t.
Proof. exact covered_dated_denotes. Qed.
Print Assumptions C04_regex_dated_denotes_partial.

(* the hypotheses are satisfiable: "2024-02-29 23:59:58.123456 PDT message", row 73 *)
Example C04_regex_dated_denotes_example :
  exists row dr,
    nth_rx 73 = Some row /\ nth_dt 73 = Some dr /\
    In row rx_table /\ In dr dt_table /\ rx_index row = r_index dr /\ ~ In (rx_index row) uncovered_rows /\
    f_epoch (r_dtfs dr) = E_none /\ fallback_ok 3600 = true /\
    slice_of row ex_line = Some (concat ex_texts ++ ex_rest) /\
    texts_ok (row_plan row) ex_texts ex_rest = true /\
    denoted_instant (r_dtfs dr) (plan_caps row (row_plan row) ex_texts) None 3600 = Some 1709276398123456000%Z /\
    option_map (fun x => fst (fst x)) (dated_model month_table tz_table row (r_dtfs dr) ex_line None 3600)
      = Some 1709276398123456000%Z.
Proof. exact covered_example. Qed.
Print Assumptions C04_regex_dated_denotes_example.

(* ================================================================== one notation, with NUMBERS (full strength)
   Row 79 of the regenerated table:  ^YEAR[ /\-]?MONTH[ /\-]?DAY[ T\-:]?HOUR[:]?MINUTE[:]?SECOND([[:^digit:]]|$)
   For every year 1970..2099, every month, day of that month, hour, minute, second (iso_valid), every non-digit
   ASCII byte c, every message text, every fill year and every fallback zone: the model of
   bytes_to_regex_to_datetime applied to   "YYYY-MM-DD HH:MM:SS" ++ [c] ++ message   (the regex sees the first
   50 bytes) returns the instant those numbers denote in the fallback zone (definitional day count).
   Here the oracle `dated` IS a proved function: regex search (leftmost-first), captures, normalise, chrono parse. *)
Theorem C04_regex_iso_row_denotes : forall y mo d h mi s c msg yo off,
  1970 <= y -> y <= 2099 ->
  iso_valid (Z.of_N y) (Z.of_N mo) (Z.of_N d) (Z.of_N h) (Z.of_N mi) (Z.of_N s) = true ->
  nondigit_ascii c = true -> fallback_ok off = true ->
  option_map (fun x => fst (fst x))
             (dated_model month_table tz_table iso_rx iso_d ((iso_head y mo d h mi s ++ [c]) ++ msg) yo off)
  = Some (spec_instant (Z.of_N y) (Z.of_N mo) (Z.of_N d) (Z.of_N h) (Z.of_N mi) (Z.of_N s) 0 off).
Proof. exact iso_row_denotes. Qed.
Print Assumptions C04_regex_iso_row_denotes.

Example C04_regex_iso_row_example :
  iso_valid 2024 2 29 23 59 59 = true /\ nondigit_ascii 32 = true /\ fallback_ok (-12600) = true /\
  option_map (fun x => fst (fst x))
             (dated_model month_table tz_table iso_rx iso_d (s2b "2024-02-29 23:59:59 up 3 days") None (-12600))
  = Some 1709263799000000000%Z.
Proof. exact iso_row_example. Qed.
Print Assumptions C04_regex_iso_row_example.

(* ================================================================== pattern competition (block-zero analysis
   keeps the row with most dated lines, earliest index among equals): "for a file whose dated lines are all
   renderings of ONE covered row, no earlier row dates all of them with a different instant" is REFUTED for
   the current table — inside the family of C04_regex_iso_row_denotes: the earlier row 74 (same notation +
   fraction) reads "2024-02-29 23:59:59.5 x" half a second later than row 79.  That direction (earlier row
   MORE specific) is benign; the harmful direction is recorded by the known findings F13, F14, F16 with
   witnesses on the real binary.  No universal non-competition statement is claimed. *)
Theorem C04_regex_competition_refuted :
  exists (r' r : N) (line : bytes),
    r' < r /\ r = 79 /\
    line = (iso_head 2024 2 29 23 59 59 ++ [46]) ++ s2b "5 x" /\ nondigit_ascii 46 = true /\
    dated_by r line None 0 = Some 1709251199000000000%Z /\
    dated_by r' line None 0 = Some 1709251199500000000%Z.
Proof. exact competition_refuted. Qed.
Print Assumptions C04_regex_competition_refuted.

(* ================================================================== FROM NUMBERS TO THE INSTANT, every numeric row
   (Model/RegexNum.v).  A FAMILY gives per pattern item a list of symbolic shapes closed under adjacency
   ([family_ok]: every shape is accepted by the plan for every byte that can follow), so membership item by
   item — no lookahead condition — puts the texts in the plan's domain: *)
Theorem C04_regex_family_sound : forall p fs rf re texts rest,
  family_ok p fs rf re = true -> in_family fs texts = true -> rest_ok rf re rest = true ->
  texts_ok p texts rest = true.
Proof. exact family_sound. Qed.
Print Assumptions C04_regex_family_sound.

(* text IN FRONT of the timestamp (unanchored rows): a prefix at every offset of which the pattern provably
   cannot match ([pre_ok]: symbolic engine on windows of one or two bytes) is skipped by the leftmost search;
   a stated class: prefixes made of the row's [dead_bytes] *)
Theorem C04_regex_prefix_skipped : forall r pre o pos body F,
  pre_ok r o pre (hd_opt body) = true -> org_ok pos o -> (length (pre ++ body) < F)%nat ->
  search_from F r pos (pre ++ body) = search_from F r (pos + N.of_nat (length pre)) body.
Proof. exact pre_ok_search. Qed.
Print Assumptions C04_regex_prefix_skipped.

Theorem C04_regex_dead_bytes_prefix : forall r pre nxt,
  (forall b, In b pre -> In b (dead_bytes r)) -> pre_ok r OAbs pre nxt = true.
Proof. exact dead_bytes_pre. Qed.
Print Assumptions C04_regex_dead_bytes_prefix.

(* THE NUMBER-LEVEL THEOREM, generic in the row.  A reading [fread] gives, per field, an ADMITTED standard
   rendering with its value (tables of Model/RegexNum.v: years 1970..2099 as four / 1970..2069 as two digits,
   months as two digits, unpadded or any English spelling, days and hours padded, unpadded or space padded,
   minutes, seconds, 1..9 fraction digits, numeric offsets in the three forms and three signs, zone
   abbreviations of the frozen reference) or nothing where the row writes nothing.  For every row with
   [plan_numeric] (decidable on the regenerated AST), every admitted reading that is a valid date and time,
   every list of item texts whose FIELD items are those renderings and whose other items are ANY texts of
   the row's family, every admissible rest, every dead prefix (empty when o = OAbs), every tail of the line:
   the model of bytes_to_regex_to_datetime returns the instant of the NUMBERS. *)
Theorem C04_regex_numbers : forall o row dr p r pre texts rest tail yo off,
  In row rx_table -> In dr dt_table ->
  plan_numeric o row p (r_dtfs dr) = true ->
  fread_admitted row (r_dtfs dr) p (fam_of p) r = true ->
  fread_valid r yo = true -> fallback_ok off = true ->
  plan_caps row p texts = fread_caps r ->
  seps_in_fam row p texts = true -> rest_ok (rf_of p) true rest = true ->
  match o with OAbs => pre = [] | ONz => pre <> [] | OUnk => False end ->
  pre_ok (rx_re row) OAbs pre (hd_opt (concat texts ++ rest)) = true ->
  slice_of row ((pre ++ concat texts ++ rest) ++ tail) = Some (pre ++ concat texts ++ rest) ->
  option_map (fun x => fst (fst x))
             (dated_model month_table tz_table row (r_dtfs dr) ((pre ++ concat texts ++ rest) ++ tail) yo off)
  = Some (fread_instant r yo off).
Proof. exact plan_numbers_fields. Qed.
Print Assumptions C04_regex_numbers.

(* WHICH rows: [row_numeric] (timestamp at the start of the slice) holds of every row except 65-69 (`.+`) and
   the epoch rows 96-100 (their instant is C04_epoch_shift's); [row_numeric_nz] (behind a non-empty dead
   prefix) holds of exactly the 80 rows [prefixed_rows] *)
Theorem C04_regex_numeric_rows :
  forallb (fun row => match nth_dt' (rx_index row) with
                      | Some dr => row_numeric row (r_dtfs dr) || existsb (N.eqb (rx_index row)) not_numeric_rows
                      | None => false end) rx_table = true.
Proof. exact numeric_ok. Qed.
Print Assumptions C04_regex_numeric_rows.

Theorem C04_regex_prefixed_rows :
  forallb (fun row => match nth_dt' (rx_index row) with
                      | Some dr => Bool.eqb (row_numeric_nz row (r_dtfs dr)) (existsb (N.eqb (rx_index row)) prefixed_rows)
                      | None => false end) rx_table = true.
Proof. exact numeric_nz_ok. Qed.
Print Assumptions C04_regex_prefixed_rows.

(* WHICH values: in every numeric row every year, month, day, hour 0..23, minute, second, at least one
   fraction length, every ASCII-signed numeric offset and at least 192 zone-name spellings have an admitted
   rendering — except the unpadded month and hour of rows 59 and 138 *)
Theorem C04_regex_values_covered :
  forallb (fun row => match nth_dt' (rx_index row) with
                      | Some dr => if row_numeric row (r_dtfs dr)
                                   then list_eqb (value_gaps row (r_dtfs dr)) (expected_gaps (rx_index row))
                                   else true
                      | None => false end) rx_table = true.
Proof. exact value_gaps_ok. Qed.
Print Assumptions C04_regex_values_covered.

Example C04_regex_numbers_example :
  exists row dr,
    nth_rx 73 = Some row /\ nth_dt 73 = Some dr /\
    row_numeric row (r_dtfs dr) = true /\
    fread_admitted row (r_dtfs dr) (row_plan row) (row_fam row) ex_fread = true /\
    fread_valid ex_fread None = true /\ fallback_ok 3600 = true /\
    plan_caps row (row_plan row) ex_texts = fread_caps ex_fread /\
    seps_in_family row ex_texts = true /\ rest_ok (row_rf row) true (s2b " message") = true /\
    fread_instant ex_fread None 3600 = 1709276398123456000%Z.
Proof. exact row_numbers_example. Qed.
Print Assumptions C04_regex_numbers_example.

(* ================================================================== the text side of C11: year-less lines
   when every field reads as a number but the day does not exist in that month of that year, normalise +
   chrono yield NO instant (the complement of C04_normalise_denotes) ... *)
Theorem C04_normalise_no_such_date : forall d c yo off y mo dd h mi s fr o,
  dtfs_ok d = true -> f_epoch d = E_none -> fallback_ok off = true ->
  rd_year d c yo = Some y -> rd_month d c = Some mo -> rd_day d c = Some dd -> rd_hour d c = Some h ->
  rd_minute d c = Some mi -> rd_second d c = Some s -> rd_frac d c = Some fr -> rd_off d c off = Some o ->
  (0 <= y)%Z -> (1 <= mo <= 12)%Z -> (1 <= dd)%Z -> (month_len y mo < dd)%Z ->
  (h <= 23)%Z -> (mi <= 59)%Z -> (s <= 59)%Z ->
  model_instant month_table tz_table d c yo off = None.
Proof. exact normalise_no_such_date. Qed.
Print Assumptions C04_normalise_no_such_date.

(* ... and end to end: for every numeric row, the BYTES of a line that writes no year + the fill year y give
   exactly Model/Year.with_year (zone, y, (month, day, time of day)) — the instant of that month/day/time in
   year y, or nothing when the date does not exist in y (29 Feb of a common year).  This is the `dated`
   oracle of the year walk (Model/Year.v, C11) as a proved function of the line. *)
Theorem C04_regex_yearless_line : forall o row dr p r pre texts rest tail y off,
  In row rx_table -> In dr dt_table ->
  plan_numeric o row p (r_dtfs dr) = true ->
  r_year r = None ->
  fread_admitted row (r_dtfs dr) p (fam_of p) r = true ->
  time_ok r = true -> (1000 <= y <= 9999)%Z -> fallback_ok off = true ->
  plan_caps row p texts = fread_caps r ->
  seps_in_fam row p texts = true -> rest_ok (rf_of p) true rest = true ->
  match o with OAbs => pre = [] | ONz => pre <> [] | OUnk => False end ->
  pre_ok (rx_re row) OAbs pre (hd_opt (concat texts ++ rest)) = true ->
  slice_of row ((pre ++ concat texts ++ rest) ++ tail) = Some (pre ++ concat texts ++ rest) ->
  option_map (fun x => fst (fst x))
             (dated_model month_table tz_table row (r_dtfs dr) ((pre ++ concat texts ++ rest) ++ tail) (Some y) off)
  = with_year (fr_off r off) y (fr_msg r).
Proof. exact yearless_line. Qed.
Print Assumptions C04_regex_yearless_line.

(* "Feb 29 23:59:58 host s..." (row 33): fill year 2024 -> 2024-02-29T23:59:58Z, fill year 2023 -> nothing *)
Example C04_regex_yearless_example :
  exists dr,
    nth_dt' 33 = Some dr /\ In yl_row rx_table /\ In dr dt_table /\
    plan_numeric OAbs yl_row (row_plan yl_row) (r_dtfs dr) = true /\
    fread_admitted yl_row (r_dtfs dr) (row_plan yl_row) (fam_of (row_plan yl_row)) yl_fread = true /\
    time_ok yl_fread = true /\
    plan_caps yl_row (row_plan yl_row) yl_texts = fread_caps yl_fread /\
    seps_in_fam yl_row (row_plan yl_row) yl_texts = true /\ rest_ok (rf_of (row_plan yl_row)) true (s2b "host s") = true /\
    slice_of yl_row (([] ++ concat yl_texts ++ s2b "host s") ++ s2b "shd[1]: x") = Some ([] ++ concat yl_texts ++ s2b "host s") /\
    with_year 0 2024 (fr_msg yl_fread) = Some 1709251198000000000%Z /\
    with_year 0 2023 (fr_msg yl_fread) = None.
Proof. exact yearless_example. Qed.
Print Assumptions C04_regex_yearless_example.

(* ================================================================== pattern competition, the useful direction
   [refuted r' fs] (decidable on the regenerated ASTs: r' is anchored at `^` and the symbolic engine, splitting
   sets into bytes where needed, refutes it on every combination of shapes of the leading items) is sound: *)
Theorem C04_regex_refuted_sound : forall r' fs texts rest,
  refuted r' fs = true -> in_family fs texts = true -> search r' (concat texts ++ rest) = NoMatch.
Proof. exact refuted_sound. Qed.
Print Assumptions C04_regex_refuted_sound.

(* for the lines of a row (timestamp items in the row's family, at the start of the slice) an EARLIER row that
   is not in [competitors] never dates the line, whatever its own slice of the line shows after the timestamp *)
Theorem C04_regex_only_competitors : forall mt tzt row r' d texts rest line yo off,
  In r' rx_table -> rx_index r' < rx_index row ->
  ~ In (rx_index r') (competitors rx_table row) ->
  in_family (row_fam row) texts = true ->
  slice_of r' line = Some (concat texts ++ rest) ->
  dated_model mt tzt r' d line yo off = None.
Proof. exact not_competitor_never_dates. Qed.
Print Assumptions C04_regex_only_competitors.

(* the tie to block-zero analysis (Model/Gate.v: parse_datetime_in_line tries the rows in try order and counts
   the FIRST that dates the line; the row with the highest count, lowest index, is kept): if no row before r in
   the order dates the line and r does, the line is counted for r *)
Theorem C04_regex_find_dt_first : forall (dated : N -> list N -> option Z) (l : list N) r t l1 l2,
  (forall x, In x l1 -> dated x l = None) -> dated r l = Some t ->
  Gate.find_dt dated (l1 ++ r :: l2) l = Some (t, r).
Proof. exact find_dt_first. Qed.
Print Assumptions C04_regex_find_dt_first.

(* the competitor lists of four representative rows (the lists are over-approximations: a listed row MAY
   match; an unlisted earlier row provably never does).  Row 0 has none: its lines are always counted for row 0.
   Row 79 (YYYY-MM-DD hh:mm:ss): only the unanchored rows 25, 45-57, 59 and its own ISO family 70-78. *)
Theorem C04_regex_competitors_rows :
  competitors rx_table (row_at 0) = [] /\
  competitors rx_table (row_at 12) = [7; 8; 9; 10; 11] /\
  competitors rx_table (row_at 33) = [25; 27; 28; 29; 30; 31; 32] /\
  competitors rx_table (row_at 79) =
    [25; 45; 46; 47; 48; 49; 50; 51; 52; 53; 54; 55; 56; 57; 59; 70; 71; 72; 73; 74; 75; 76; 77; 78].
Proof. exact (conj competitors_0 (conj competitors_12 (conj competitors_33 competitors_79))). Qed.
Print Assumptions C04_regex_competitors_rows.

Example C04_regex_refuted_example :
  refuted (rx_re (row_at 0)) (row_fam (row_at 79)) = true /\
  in_family (row_fam (row_at 79)) (iso_texts 2024 2 29 23 59 59 32) = true /\
  rx_index (row_at 0) < rx_index (row_at 79) /\ ~ In (rx_index (row_at 0)) (competitors rx_table (row_at 79)).
Proof. exact refuted_example. Qed.
Print Assumptions C04_regex_refuted_example.

Module ChoiceRule.
Import Chunk Lines Gate GateSpec BlockConsts.
(* ================================================================== competition and the CHOICE rule (with C12)
   WP-G's gate_accept_spec (Props/C12.v): outside the decidable classes (first dated line incomplete in block
   zero, count minimum, mixed notation) the complete block-zero analysis Model/Gate.gate_rows accepts what
   GateSpec.spec_accept accepts and keeps the row it names: the first row, in table order, dating the first dated
   line.  With the oracle instantiated by the regex model ([rx_dated] = dated_model per row): *)
Theorem C04_regex_choice_first_line : forall yo off bs (f : file) b e t x i t',
  sp_blocksz_min <= bs -> bs <= blocksz_max ->
  in_classes (rx_dated yo off) rx_rows bs f = false ->
  first_dated (rx_dated yo off) rx_rows f = Some (b, e, t, x) ->
  In i rx_rows ->
  rx_dated yo off i (slice f b (e + 1)) = Some t' ->
  (forall j, j < i -> rx_dated yo off j (slice f b (e + 1)) = None) ->
  accepted (gate_rows (rx_dated yo off) rx_rows bs f) =
    if (lenN f <? bytes_min) || all_zero (firstnN bytes_null_max f) then None else Some i.
Proof. exact choice_first_line. Qed.
Print Assumptions C04_regex_choice_first_line.

(* ... and for a file whose first dated line is a NUMERIC family line of row i (numbers as in C04_regex_numbers,
   timestamp at the start of the line, inside every earlier row's slice) on which the listed competitors of i are
   silent — nothing to check when competitors(i) = [] — block-zero analysis keeps row i: F13-style mis-locking
   cannot happen.  The rows with a non-empty competitor list are the candidates of the known findings F13 / F16. *)
Theorem C04_regex_choice_numeric : forall yo off bs (f : file) b e t x row dr r texts rest tail,
  sp_blocksz_min <= bs -> bs <= blocksz_max ->
  in_classes (rx_dated yo off) rx_rows bs f = false ->
  first_dated (rx_dated yo off) rx_rows f = Some (b, e, t, x) ->
  nth_rx' (rx_index row) = Some row -> nth_dt' (rx_index row) = Some dr ->
  slice f b (e + 1) = (concat texts ++ rest) ++ tail ->
  row_numeric row (r_dtfs dr) = true ->
  fread_admitted row (r_dtfs dr) (row_plan row) (row_fam row) r = true ->
  fread_valid r yo = true -> fallback_ok off = true ->
  plan_caps row (row_plan row) texts = fread_caps r ->
  seps_in_family row texts = true -> rest_ok (row_rf row) true rest = true ->
  slice_of row ((concat texts ++ rest) ++ tail) = Some (concat texts ++ rest) ->
  concat texts <> [] -> ts_fits (rx_index row) (concat texts) = true ->
  (forall j, In j (competitors rx_table row) -> rx_dated yo off j ((concat texts ++ rest) ++ tail) = None) ->
  accepted (gate_rows (rx_dated yo off) rx_rows bs f) =
    if (lenN f <? bytes_min) || all_zero (firstnN bytes_null_max f) then None else Some (rx_index row).
Proof. exact choice_numeric. Qed.
Print Assumptions C04_regex_choice_numeric.

Example C04_regex_choice_example :
  in_classes (rx_dated None 0) rx_rows 256 choice_file = false /\
  first_dated (rx_dated None 0) rx_rows choice_file = Some (0, 69, 946684801123000000%Z, 0) /\
  In 0 rx_rows /\
  rx_dated None 0 0 (slice choice_file 0 (69 + 1)) = Some 946684801123000000%Z /\
  accepted (gate_rows (rx_dated None 0) rx_rows 256 choice_file) = Some 0.
Proof. exact choice_example. Qed.
Print Assumptions C04_regex_choice_example.
End ChoiceRule.
