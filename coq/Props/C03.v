(* Props/C03.v — property C03 "a datetime window selects exactly the messages inside it",
   TEXT logs (binary search on plain files, linear scan on streamed files).
   Statements only; every proof is `exact <lemma>` (Proofs/SearchProofs.v).

   Vocabulary (Model/Search.v, Spec/WindowSpec.v):
     layout            list of (length in bytes, instant) per message, after [lead] undated bytes
     groups lead l     the messages placed at their file offsets; fsize lead l the file size
     l_bsearch         find_sysline_at_datetime_filter_binary_search with the iteration budget
                       bfuel = 2 + bit-length(file size)
     l_linear          find_sysline_at_datetime_filter_linear_search
     l_text_out        what exec_syslogprocessor sends to the printer (stage 2 + stage 3 loop),
                       with the status Ok | Err | Panicked | NoFuel
     window            filter (A <= t <= B), None = unbounded, both ends inclusive
     first_at_or_after the first message not entirely before fo0 whose instant is >= A
   The window tests of the record, event-log and journal readers are proved in Props/C08.v,
   Props/C10.v, Props/C09.v; run C of checks/c03.py checks all kinds on the real binary. *)
From Coq Require Import List NArith ZArith Bool.
Import ListNotations.
From S4.Spec Require Import WindowSpec.
From S4.Model Require Import Search.
From S4.Proofs Require Import SearchProofs.
Open Scope N_scope.

(* ---- the oracle [find] (SyslineReader::find_sysline, proved of the block reader by C02) is, by
   definition from the layout: Done at/after the end of the file, the message containing the
   offset, the first message for an offset inside the undated lead *)
Theorem C03_find_oracle_done : forall lead l fo, fsize lead l <= fo -> l_find lead l fo = FDone.
Proof. exact find_oracle_done. Qed.
Print Assumptions C03_find_oracle_done.

Theorem C03_find_oracle_contains : forall lead l fo, lead <= fo -> fo < fsize lead l ->
  exists s, l_find lead l fo = FFound s /\ In s (groups lead l) /\ s_beg s <= fo /\ fo < s_next s.
Proof. exact find_oracle_contains. Qed.
Print Assumptions C03_find_oracle_contains.

Theorem C03_find_oracle_lead : forall lead n t r fo, fo < lead ->
  l_find lead ((n, t) :: r) fo = FFound (mkSl lead n t).
Proof. exact find_oracle_lead. Qed.
Print Assumptions C03_find_oracle_lead.

(* ---- the comparisons of src/data/datetime.rs are inclusive at both ends *)
Theorem C03_dt_after_or_before_before : forall dt a,
  dt_after_or_before dt (Some a) = OccursBefore <-> (dt < a)%Z.
Proof. exact dt_after_or_before_before. Qed.
Print Assumptions C03_dt_after_or_before_before.

Theorem C03_dt_after_or_before_at_or_after : forall dt a,
  dt_after_or_before dt (Some a) = OccursAtOrAfter <-> (a <= dt)%Z.
Proof. exact dt_after_or_before_at_or_after. Qed.
Print Assumptions C03_dt_after_or_before_at_or_after.

Theorem C03_dt_pass_filters_in_range : forall dt a b,
  dt_pass_filters dt a b = InRange <-> in_window a b dt = true.
Proof. exact dt_pass_filters_in_range. Qed.
Print Assumptions C03_dt_pass_filters_in_range.

Theorem C03_dt_pass_filters_on_bound : forall dt, dt_pass_filters dt (Some dt) (Some dt) = InRange.
Proof. exact dt_pass_filters_on_bound. Qed.
Print Assumptions C03_dt_pass_filters_on_bound.

(* ---- the heart: for EVERY layout of message lengths >= 2 (hence every block size and message
   length), leading undated bytes, duplicates allowed, every start offset within the file and
   every filter (None included), the binary search returns the first message at/after fo0 whose
   instant is >= A, or Done when there is none — within 2 + bit-length(file size) iterations. *)
Theorem C03_bsearch_first_geq : forall (lead : N) (l : layout) (a : option Z) (fo0 : N),
  nondecreasing s_t (groups lead l) = true ->
  Forall (fun g => 2 <= fst g) l ->
  fo0 <= fsize lead l ->
  l_bsearch lead l a fo0 = spec_res (first_at_or_after s_t s_next a fo0 (groups lead l)).
Proof. exact bsearch_first_geq. Qed.
Print Assumptions C03_bsearch_first_geq.

(* any larger budget gives the same answer; the loop never runs out of fuel *)
Theorem C03_bsearch_fuel : forall (lead : N) (l : layout) (a : option Z) (fo0 : N) (fuel : nat),
  nondecreasing s_t (groups lead l) = true -> Forall (fun g => 2 <= fst g) l ->
  fo0 <= fsize lead l -> (bfuel (fsize lead l) <= fuel)%nat ->
  bsearch (groups lead l) (fsize lead l) a fo0 fuel = l_bsearch lead l a fo0 /\
  bsearch (groups lead l) (fsize lead l) a fo0 fuel <> SOutOfFuel.
Proof. exact bsearch_fuel. Qed.
Print Assumptions C03_bsearch_fuel.

(* no assert_le! fails, `fo_b - fo_a` never underflows, `syslinep_opt.unwrap()` is never on None,
   and none of the "unexpected ..." error exits is taken *)
Theorem C03_bsearch_no_panic : forall (lead : N) (l : layout) (a : option Z) (fo0 : N),
  nondecreasing s_t (groups lead l) = true -> Forall (fun g => 2 <= fst g) l ->
  fo0 <= fsize lead l ->
  forall c, l_bsearch lead l a fo0 <> SPanic c /\ l_bsearch lead l a fo0 <> SDoneErr c /\
            l_bsearch lead l a fo0 <> SOutOfFuel.
Proof. exact bsearch_no_panic. Qed.
Print Assumptions C03_bsearch_no_panic.

(* the length hypothesis is not vacuous: with a 1-byte message the same loop returns a message
   that is BEFORE the filter (unreachable in real files: a dated line has >= 6 bytes) *)
Theorem C03_bsearch_len1_refuted :
  exists lead l a fo0,
    nondecreasing s_t (groups lead l) = true /\ Forall (fun g => 1 <= fst g) l /\ fo0 <= fsize lead l /\
    l_bsearch lead l (Some a) fo0 <> spec_res (first_at_or_after s_t s_next (Some a) fo0 (groups lead l)) /\
    exists s, l_bsearch lead l (Some a) fo0 = found s /\ (s_t s < a)%Z.
Proof. exact bsearch_len1_refuted. Qed.
Print Assumptions C03_bsearch_len1_refuted.

(* ---- linear search (streamed files): same answer, with NO chronology hypothesis *)
Theorem C03_linear_first_geq : forall (lead : N) (l : layout) (a : option Z) (fo0 : N),
  Forall (fun g => 1 <= fst g) l ->
  l_linear lead l a fo0 = spec_res (first_at_or_after s_t s_next a fo0 (groups lead l)).
Proof. exact linear_first_geq. Qed.
Print Assumptions C03_linear_first_geq.

Theorem C03_linear_total : forall (lead : N) (l : layout) (a : option Z) (fo0 : N),
  Forall (fun g => 1 <= fst g) l ->
  forall c, l_linear lead l a fo0 <> SPanic c /\ l_linear lead l a fo0 <> SDoneErr c /\
            l_linear lead l a fo0 <> SOutOfFuel.
Proof. exact linear_total. Qed.
Print Assumptions C03_linear_total.

(* ---- the property: the driver sends exactly the window, in source order, and ends normally,
   with either search strategy *)
Theorem C03_text_out_correct : forall (lead : N) (l : layout) (streamed : bool) (a b : option Z),
  nondecreasing s_t (groups lead l) = true -> Forall (fun g => 2 <= fst g) l ->
  l_text_out lead l streamed a b = (window s_t a b (groups lead l), Ok).
Proof. exact text_out_correct. Qed.
Print Assumptions C03_text_out_correct.

Theorem C03_empty_selection_ok : forall (lead : N) (l : layout) (streamed : bool) (a b : option Z),
  nondecreasing s_t (groups lead l) = true -> Forall (fun g => 2 <= fst g) l ->
  window s_t a b (groups lead l) = [] ->
  l_text_out lead l streamed a b = ([], Ok).
Proof. exact empty_selection_ok. Qed.
Print Assumptions C03_empty_selection_ok.

(* the window is exactly the in-window messages, and a subsequence of the source *)
Theorem C03_window_in : forall (l : list sl) (a b : option Z) (m : sl),
  In m (window s_t a b l) <-> In m l /\ in_window a b (s_t m) = true.
Proof. exact (fun l a b m => window_in s_t a b l m). Qed.
Print Assumptions C03_window_in.

Theorem C03_window_sublist : forall (l : list sl) (a b : option Z), sublist (window s_t a b l) l.
Proof. exact (fun l a b => window_sublist s_t a b l). Qed.
Print Assumptions C03_window_sublist.

(* ---- the hypotheses are satisfiable: a concrete chronological layout with a tie, an undated
   lead and a window ON the tied instant *)
Example C03_example :
  let l := [(20, 100%Z); (35, 200%Z); (21, 200%Z); (64, 300%Z)] in
  nondecreasing s_t (groups 7 l) = true /\ Forall (fun g => 2 <= fst g) l /\
  l_text_out 7 l false (Some 200%Z) (Some 200%Z) = ([mkSl 27 35 200%Z; mkSl 62 21 200%Z], Ok) /\
  l_text_out 7 l true (Some 200%Z) (Some 200%Z) = ([mkSl 27 35 200%Z; mkSl 62 21 200%Z], Ok).
Proof. exact example_ok. Qed.
Print Assumptions C03_example.
