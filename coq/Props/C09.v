(* Props/C09.v — property C09 "Journal files: every entry once, in journal order,
   fields intact": statements only; every proof is `exact <lemma>`.
   libsystemd is an oracle: its contract J1 is a hypothesis of the theorems. *)
From Coq Require Import String.
From S4.Base Require Import Bytes.
From S4.Model Require Import Journal.
From S4.Spec Require Import JournalSpec.
From S4.Proofs Require Import JournalWindow JournalExport JournalEndToEnd.
Open Scope Z_scope.

(* For every journal with non-decreasing, valid (positive: libsystemd VALID_REALTIME)
   receive times and every window (bounds before 1970 included; only the u64 upper
   side 2^64 is excluded), the reader (seek + enumeration loop with the repaired,
   strict stop test) hands to the printer exactly the in-window entries: each
   once, in journal order (the output IS the sub-list [window]). *)
Theorem journal_out_correct :
  forall sd_seek_head sd_seek_realtime, J1_contract sd_seek_head sd_seek_realtime ->
  forall j A B, nondecreasing (times j) -> valid_realtimes (times j) -> bound_rep A -> bound_rep B ->
  journal_run sd_seek_head sd_seek_realtime stop_after A B j = window e_time A B j.
Proof. exact journal_out_correct_l. Qed.
Print Assumptions journal_out_correct.

Theorem journal_out_each_once :
  forall sd_seek_head sd_seek_realtime, J1_contract sd_seek_head sd_seek_realtime ->
  forall j A B, nondecreasing (times j) -> valid_realtimes (times j) -> bound_rep A -> bound_rep B ->
  let out := journal_run sd_seek_head sd_seek_realtime stop_after A B j in
  (forall e, In e out <-> In e j /\ in_window A B (e_time e) = true) /\
  (NoDup j -> NoDup out) /\
  length out = length (window_idx A B (times j)).
Proof. exact journal_out_each_once_l. Qed.
Print Assumptions journal_out_each_once.

(* bytes on stdout for any modelled rendering *)
Theorem journal_stdout_correct :
  forall sd_seek_head sd_seek_realtime, J1_contract sd_seek_head sd_seek_realtime ->
  forall r j A B, nondecreasing (times j) -> valid_realtimes (times j) -> bound_rep A -> bound_rep B ->
  journal_stdout sd_seek_head sd_seek_realtime stop_after r A B j
  = concat (map (render r) (window e_time A B j)).
Proof. exact journal_stdout_correct_l. Qed.
Print Assumptions journal_stdout_correct.

(* the oracle contract is satisfiable *)
Theorem J1_satisfiable : J1_contract ref_seek_head ref_seek_realtime.
Proof. exact ref_oracle_J1. Qed.
Print Assumptions J1_satisfiable.

(* F2 (regression lemma): the stop test before the repair drops an entry whose
   time equals the upper bound *)
Theorem journal_upper_bound_refuted :
  exists j A B, nondecreasing (times j) /\ bound_ok A /\ bound_ok B /\
    journal_run ref_seek_head ref_seek_realtime stop_at_or_after A B j <> window e_time A B j.
Proof. exact journal_upper_bound_refuted_l. Qed.
Print Assumptions journal_upper_bound_refuted.

(* regression lemma: with the bound conversion before the repair (`as u64` without the
   clamp) a bound before 1970 wrapped to a huge value *)
Theorem journal_pre_epoch_bound_refuted :
  exists j A B, nondecreasing (times j) /\ valid_realtimes (times j) /\ bound_rep A /\ bound_rep B /\
    journal_run_wrapping ref_seek_head ref_seek_realtime stop_after A B j <> window e_time A B j.
Proof. exact journal_pre_epoch_bound_refuted_l. Qed.
Print Assumptions journal_pre_epoch_bound_refuted.

(* [valid_realtimes] is a necessary hypothesis (an entry stamped exactly 0, which
   libsystemd never writes, would be printed for an upper bound before 1970) *)
Theorem journal_zero_time_refuted :
  exists j A B, nondecreasing (times j) /\ bound_rep A /\ bound_rep B /\
    journal_run ref_seek_head ref_seek_realtime stop_after A B j <> window e_time A B j.
Proof. exact journal_zero_time_refuted_l. Qed.
Print Assumptions journal_zero_time_refuted.

(* fields intact: parsing the export rendering gives back the stored fields, for
   arbitrary value bytes (full statement, repaired printer) *)
Theorem export_roundtrip :
  forall e, wf_entry e -> parse_export (render_export e) = POk [export_fields e].
Proof. exact export_roundtrip_l. Qed.
Print Assumptions export_roundtrip.

Theorem export_roundtrip_stream :
  forall es, Forall wf_entry es ->
  parse_export (concat (map render_export es)) = POk (map export_fields es).
Proof. exact export_roundtrip_stream_l. Qed.
Print Assumptions export_roundtrip_stream.

(* the parser's fuel always suffices *)
Theorem parse_export_fuel_ok : forall s, parse_export s <> POutOfFuel.
Proof. exact parse_export_fuel_ok_l. Qed.
Print Assumptions parse_export_fuel_ok.

(* the printer before the repair: correct only when no value contains a newline *)
Theorem export_roundtrip_textonly_partial :
  forall es, Forall wf_entry es ->
  Forall (fun e => Forall (fun f => ~ In NL (snd f)) (e_fields e)) es ->
  parse_export (concat (map render_export_textonly es)) = POk (map export_fields es).
Proof. exact export_roundtrip_textonly_partial_l. Qed.
Print Assumptions export_roundtrip_textonly_partial.

(* F10 (regression lemma): the SYSLOG_RAW entry of the RHE 9.1 fixture *)
Theorem export_multiline_refuted :
  exists e, wf_entry e /\ parse_export (render_export_textonly e) <> POk [export_fields e].
Proof. exact export_multiline_refuted_l. Qed.
Print Assumptions export_multiline_refuted.

(* cat = the stored MESSAGE value and a newline; entries without MESSAGE print nothing *)
Theorem cat_is_message :
  forall e pre m post,
  e_fields e = pre ++ (k_message, m) :: post ->
  (forall f, In f pre -> fst f <> k_message) ->
  render_cat e = m ++ [NL].
Proof. exact cat_is_message_l. Qed.
Print Assumptions cat_is_message.

Theorem cat_without_message :
  forall e, (forall f, In f (e_fields e) -> fst f <> k_message) -> render_cat e = [].
Proof. exact cat_without_message_l. Qed.
Print Assumptions cat_without_message.

(* end to end: what a consumer parses out of the export rendering of a run is the
   stored fields of exactly the in-window entries, in journal order *)
Theorem journal_export_correct :
  forall sd_seek_head sd_seek_realtime, J1_contract sd_seek_head sd_seek_realtime ->
  forall j A B, nondecreasing (times j) -> valid_realtimes (times j) -> bound_rep A -> bound_rep B -> Forall wf_entry j ->
  parse_export (journal_stdout sd_seek_head sd_seek_realtime stop_after RExport A B j)
  = POk (map export_fields (window e_time A B j)).
Proof. exact journal_export_correct_l. Qed.
Print Assumptions journal_export_correct.

Theorem journal_cat_correct :
  forall sd_seek_head sd_seek_realtime, J1_contract sd_seek_head sd_seek_realtime ->
  forall j A B, nondecreasing (times j) -> valid_realtimes (times j) -> bound_rep A -> bound_rep B ->
  journal_stdout sd_seek_head sd_seek_realtime stop_after RCat A B j
  = concat (map render_cat (window e_time A B j)).
Proof. exact journal_cat_correct_l. Qed.
Print Assumptions journal_cat_correct.

(* ==================================================================== the ten --journal-output renderings
   (Model/JournalRender.v; configuration [src_cfg] regenerated from the source by tools/gen/journal.py) *)
From S4.Model Require Import PrintCal Strftime CliDt StrftimeParse StrftimeRt JournalRender.
From S4.Gen Require Import JournalTables.
From S4.Proofs Require Import StrftimeRoundtrip JournalRenderBasic JournalRenderMessage JournalRenderTime JournalRenderMono JournalRenderShort JournalRenderVerbose JournalRenderCfg.
Open Scope list_scope.
Open Scope Z_scope.

(* the configuration of the current source satisfies the conditions the theorems below ask for *)
Theorem render_src_cfg_ok : cfg_ok src_cfg = true.
Proof. exact src_cfg_ok_l. Qed.
Print Assumptions render_src_cfg_ok.

(* The window never looks at the rendering: for each of the ten renderings the entries handed to the
   renderer are exactly the in-window entries, each once, in journal order. *)
Theorem render_window_independent :
  forall sd_seek_head sd_seek_realtime, J1_contract sd_seek_head sd_seek_realtime ->
  forall cfg ev o j A B, nondecreasing (times j) -> valid_realtimes (times j) -> bound_rep A -> bound_rep B ->
  map fst (journal_trace10 sd_seek_head sd_seek_realtime stop_after cfg ev o A B j) = window e_time A B j.
Proof. exact journal_trace10_entries_l. Qed.
Print Assumptions render_window_independent.

(* Every rendering of a run is the concatenation, over the in-window entries, of a function of the
   single entry (plus the run's zone offset and host bit): nothing is carried from entry to entry. *)
Theorem render_stdout_entrywise :
  forall sd_seek_head sd_seek_realtime, J1_contract sd_seek_head sd_seek_realtime ->
  forall cfg ev o j A B, cfg_formats_ok cfg = true ->
  nondecreasing (times j) -> valid_realtimes (times j) -> bound_rep A -> bound_rep B ->
  journal_stdout10 sd_seek_head sd_seek_realtime stop_after cfg ev o A B j
  = concat (map (fun e => entry_bytes (next_entry cfg ev o e)) (window e_time A B j)).
Proof. exact journal_stdout10_concat_l. Qed.
Print Assumptions render_stdout_entrywise.

(* without the condition on the formats: output up to the first panic *)
Theorem render_stdout_correct :
  forall sd_seek_head sd_seek_realtime, J1_contract sd_seek_head sd_seek_realtime ->
  forall cfg ev o j A B, nondecreasing (times j) -> valid_realtimes (times j) -> bound_rep A -> bound_rep B ->
  journal_stdout10 sd_seek_head sd_seek_realtime stop_after cfg ev o A B j
  = emit (map (next_entry cfg ev o) (window e_time A B j)).
Proof. exact journal_stdout10_correct_l. Qed.
Print Assumptions render_stdout_correct.

Theorem render_never_panics :
  forall cfg ev o e, cfg_formats_ok cfg = true -> next_entry cfg ev o e <> NPanic.
Proof. exact next_entry_no_panic_l. Qed.
Print Assumptions render_never_panics.

(* Number of records printed: every in-window entry for the nine renderings other than cat, the
   entries that carry MESSAGE for cat. *)
Theorem render_records_printed :
  forall sd_seek_head sd_seek_realtime, J1_contract sd_seek_head sd_seek_realtime ->
  forall cfg ev o j A B, cfg_formats_ok cfg = true ->
  nondecreasing (times j) -> valid_realtimes (times j) -> bound_rep A -> bound_rep B ->
  journal_printed10 sd_seek_head sd_seek_realtime stop_after cfg ev o A B j
  = if is_cat (cfg_dispatch cfg o)
    then length (filter (fun e => is_some (get_data (cfg_k_cat cfg) e)) (window e_time A B j))
    else length (window e_time A B j).
Proof. exact journal_printed10_l. Qed.
Print Assumptions render_records_printed.

Theorem render_records_same_for_all :
  forall sd_seek_head sd_seek_realtime cfg ev o1 o2 j A B,
  J1_contract sd_seek_head sd_seek_realtime -> cfg_formats_ok cfg = true ->
  is_cat (cfg_dispatch cfg o1) = false -> is_cat (cfg_dispatch cfg o2) = false ->
  nondecreasing (times j) -> valid_realtimes (times j) -> bound_rep A -> bound_rep B ->
  journal_printed10 sd_seek_head sd_seek_realtime stop_after cfg ev o1 A B j
  = journal_printed10 sd_seek_head sd_seek_realtime stop_after cfg ev o2 A B j
  /\ map fst (journal_trace10 sd_seek_head sd_seek_realtime stop_after cfg ev o1 A B j)
     = map fst (journal_trace10 sd_seek_head sd_seek_realtime stop_after cfg ev o2 A B j).
Proof. exact journal_printed10_same_l. Qed.
Print Assumptions render_records_same_for_all.

Theorem render_src_only_cat_is_cat : forall o, is_cat (cfg_dispatch src_cfg o) = true <-> o = OCat.
Proof. exact src_is_cat. Qed.
Print Assumptions render_src_only_cat_is_cat.

Example render_records_example :
  let j := [w_entry_nomsg; w_entry1] in
  nondecreasing (times j) /\ valid_realtimes (times j) /\
  journal_printed10 ref_seek_head ref_seek_realtime stop_after src_cfg (mkEnv 0%Z true) OShort None None j = 2%nat /\
  journal_printed10 ref_seek_head ref_seek_realtime stop_after src_cfg (mkEnv 0%Z true) OVerbose None None j = 2%nat /\
  journal_printed10 ref_seek_head ref_seek_realtime stop_after src_cfg (mkEnv 0%Z true) OCat None None j = 1%nat.
Proof. exact journal_printed10_example. Qed.
Print Assumptions render_records_example.

(* No entry silently disappears: nine renderings print a text that ends with a newline (never
   empty) for every entry; cat prints MESSAGE + newline exactly when the entry has one. *)
Theorem render_never_empty :
  forall cfg ev o e, cfg_formats_ok cfg = true ->
  (is_cat (cfg_dispatch cfg o) = false -> exists b, next_entry cfg ev o e = NFound (b ++ [NL])) /\
  (is_cat (cfg_dispatch cfg o) = true ->
     match get_data (cfg_k_cat cfg) e with
     | Some m => next_entry cfg ev o e = NFound (m ++ [NL])
     | None => next_entry cfg ev o e = NErrIgnore
     end).
Proof. exact next_entry_found_l. Qed.
Print Assumptions render_never_empty.

(* ... and the statement "never empty for every rendering" is false for cat: an entry without MESSAGE
   (the entries of the crafted journals of the check) prints nothing — as with journalctl -o cat *)
Theorem render_nonempty_refuted :
  exists o e ev, cfg_ok src_cfg = true /\ wf_entry e /\ entry_bytes (next_entry src_cfg ev o e) = [].
Proof. exact render_nonempty_refuted_l. Qed.
Print Assumptions render_nonempty_refuted.

(* Every rendering contains the MESSAGE bytes, followed by a newline, verbatim (whatever the bytes
   are: multi-line and non-UTF-8 values included; single-line printable text is the case in which
   that block is the end of a line of its own). *)
Theorem render_message_verbatim :
  forall cfg ev o e m, cfg_ok cfg = true -> keys_wf (e_fields e) ->
  In (cfg_k_msg cfg, m) (firstn (emerg_min cfg) (e_fields e)) ->
  (forall v, In (cfg_k_msg cfg, v) (e_fields e) -> v = m) ->
  exists b, next_entry cfg ev o e = NFound b /\ infix (m ++ [NL]) b.
Proof. exact message_verbatim_l. Qed.
Print Assumptions render_message_verbatim.

Example render_message_verbatim_hyps :
  cfg_ok src_cfg = true /\ keys_wf (e_fields w_entry1) /\
  In (cfg_k_msg src_cfg, s2b "Demoting known real-time threads.") (firstn (emerg_min src_cfg) (e_fields w_entry1)) /\
  (forall v, In (cfg_k_msg src_cfg, v) (e_fields w_entry1) -> v = s2b "Demoting known real-time threads.").
Proof. exact message_verbatim_example. Qed.
Print Assumptions render_message_verbatim_hyps.

(* short*: the line ends with ": " MESSAGE "\n"; with several MESSAGE objects it is one of them *)
Theorem render_short_message :
  forall cfg ev fmt mono e m, cfg_ok cfg = true -> keys_wf (e_fields e) -> (mono = false -> fmt_accepted fmt = true) ->
  In (cfg_k_msg cfg, m) (firstn (cfg_emerg_short cfg) (e_fields e)) ->
  (forall v, In (cfg_k_msg cfg, v) (e_fields e) -> v = m) ->
  exists h, render_short cfg ev fmt mono e = Some (h ++ 58%N :: SP :: m ++ [NL]).
Proof. exact short_message_l. Qed.
Print Assumptions render_short_message.

Theorem render_short_message_some :
  forall cfg ev fmt mono e, cfg_ok cfg = true -> keys_wf (e_fields e) -> (mono = false -> fmt_accepted fmt = true) ->
  (exists v, In (cfg_k_msg cfg, v) (firstn (cfg_emerg_short cfg) (e_fields e))) ->
  exists h m, In (cfg_k_msg cfg, m) (firstn (cfg_emerg_short cfg) (e_fields e)) /\
              render_short cfg ev fmt mono e = Some (h ++ 58%N :: SP :: m ++ [NL]).
Proof. exact short_message_some_l. Qed.
Print Assumptions render_short_message_some.

Theorem render_short_no_message :
  forall cfg e, cfg_ok cfg = true -> keys_wf (e_fields e) ->
  (forall f, In f (firstn (cfg_emerg_short cfg) (e_fields e)) -> fst f <> cfg_k_msg cfg) ->
  sf_msg (short_found cfg e) = None.
Proof. exact short_no_message_l. Qed.
Print Assumptions render_short_no_message.

(* verbose: the body prints every pair of the collected fields exactly once, each as FIELD_BEG key "="
   value "\n" (indentation), in some order *)
Theorem render_verbose_body_permutation :
  forall cfg m, exists l, Permutation.Permutation l m /\ verbose_body cfg m = concat (map (vl cfg) l).
Proof. exact verbose_body_perm_l. Qed.
Print Assumptions render_verbose_body_permutation.

Theorem render_verbose_message :
  forall cfg ev e, cfg_ok cfg = true -> keys_wf (e_fields e) ->
  (exists v, In (cfg_k_msg cfg, v) (firstn (cfg_emerg_verbose cfg) (e_fields e))) ->
  exists b m, In (cfg_k_msg cfg, m) (firstn (cfg_emerg_verbose cfg) (e_fields e)) /\
              render_verbose cfg ev e = Some b /\ infix (vline cfg (cfg_k_msg cfg) m) b.
Proof. exact verbose_message_l. Qed.
Print Assumptions render_verbose_message.

(* export: single-line printable text is carried as the line KEY=value *)
Theorem render_export_message_text :
  forall e k m, In (k, m) (enumerated e) -> text_safe (data_of (k, m)) = true ->
  infix (k ++ EQ :: m ++ [NL]) (render_export e).
Proof. exact export_message_text_l. Qed.
Print Assumptions render_export_message_text.

(* The time shown is the receive time (DT_USES_SOURCE_OVERRIDE = RealtimeTimestamp, Issue #101):
   _SOURCE_REALTIME_TIMESTAMP never changes a timestamp text. *)
Theorem render_shows_receive_time :
  forall cfg e, cfg_override cfg = Some DsRealtime -> shown_us cfg e = e_time e.
Proof. exact shown_is_receive_time_l. Qed.
Print Assumptions render_shows_receive_time.

(* Print the receive time with a format of the strftime subset of C13, read the text back with the
   parser model of C13: the receive time truncated to the printed precision, for every instant of
   the calendar range and every whole-minute zone offset. *)
Theorem render_dt_text_roundtrip :
  forall cfg ev fmt its p e, cfg_override cfg = Some DsRealtime ->
  split_fmt fmt [] = [SPlain fmt] -> parse_fmt fmt = Some its -> rt_ok (expand its) p = true ->
  let t := e_time e * 1000 in
  let off := env_off ev in
  off mod 60 = 0 -> -86400 < off < 86400 ->
  LOCAL_LO * 1000000000 <= t + off * 1000000000 < LOCAL_HI * 1000000000 ->
  (has NTimestamp (expand its) = true -> 0 <= t) ->
  exists s, entry_dt_text cfg ev fmt e = Some s /\
    chrono_parse fmt (has_z (expand its)) (if has NTimestamp (expand its) then 0 else off) (classify s)
    = StrftimeParse.POk (t / result_unit p (expand its) * result_unit p (expand its)).
Proof. exact dt_text_roundtrip_l. Qed.
Print Assumptions render_dt_text_roundtrip.

(* the three renderings of the current source whose timestamp can be read back, for every valid
   receive time (libsystemd VALID_REALTIME: 0 < t < 2^55 us) and whole-minute offset *)
Theorem render_short_unix_is_entry_instant :
  forall ev e, 0 < e_time e < 36028797018963968 -> env_off ev mod 60 = 0 -> -86400 < env_off ev < 86400 ->
  exists s, next_entry src_cfg ev OShortUnix e = NFound (s ++ short_tail (short_found src_cfg e)) /\
    chrono_parse (fmt_of OShortUnix) false 0 (classify s) = StrftimeParse.POk (e_time e * 1000).
Proof. exact short_unix_roundtrip_l. Qed.
Print Assumptions render_short_unix_is_entry_instant.

Theorem render_short_iso_precise_parses_back :
  forall ev e, 0 < e_time e < 36028797018963968 -> env_off ev mod 60 = 0 -> -86400 < env_off ev < 86400 ->
  exists s, next_entry src_cfg ev OShortIsoPrecise e = NFound (s ++ short_tail (short_found src_cfg e)) /\
    chrono_parse (fmt_of OShortIsoPrecise) true (env_off ev) (classify s) = StrftimeParse.POk (e_time e * 1000).
Proof. exact short_iso_precise_roundtrip_l. Qed.
Print Assumptions render_short_iso_precise_parses_back.

Theorem render_short_iso_parses_back :
  forall ev e, 0 < e_time e < 36028797018963968 -> env_off ev mod 60 = 0 -> -86400 < env_off ev < 86400 ->
  exists s, next_entry src_cfg ev OShortIso e = NFound (s ++ short_tail (short_found src_cfg e)) /\
    chrono_parse (fmt_of OShortIso) false (env_off ev) (classify s)
    = StrftimeParse.POk (e_time e / 1000000 * 1000000000).
Proof. exact short_iso_roundtrip_l. Qed.
Print Assumptions render_short_iso_parses_back.

Example render_roundtrip_example :
  let e := mkEntry 1702683843814918 [] None [] in
  let ev := mkEnv (-12600) true in
  0 < e_time e < 36028797018963968 /\ env_off ev mod 60 = 0 /\ -86400 < env_off ev < 86400 /\
  next_entry src_cfg ev OShortIsoPrecise e = NFound (s2b "2023-12-15T20:14:03.814918-0330" ++ [NL]) /\
  next_entry src_cfg ev OShortUnix e = NFound (s2b "1702683843.814918" ++ [NL]) /\
  next_entry src_cfg ev OShortIso e = NFound (s2b "2023-12-15 20:14:03" ++ [NL]) /\
  next_entry src_cfg ev OShortFull e = NFound (s2b "Fri 2023-12-15 20:14:03 -03:30" ++ [NL]) /\
  next_entry src_cfg ev OShort e = NFound (s2b "Dec 15 20:14:03" ++ [NL]).
Proof. exact roundtrip_example. Qed.
Print Assumptions render_roundtrip_example.

(* the formats with month name, weekday, zone name, related to the ones above (all t, all offsets) *)
Theorem render_short_text :
  forall t off, let c := civil_of t off in
  jstrftime (fmt_of OShort) t off = Some (month_abbr (c_mon c) ++ [32%N] ++ two (c_day c) ++ [32%N] ++ hms c).
Proof. exact short_text_l. Qed.
Print Assumptions render_short_text.

Theorem render_short_precise_text :
  forall t off, exists s, jstrftime (fmt_of OShort) t off = Some s /\
    jstrftime (fmt_of OShortPrecise) t off = Some (s ++ [46%N] ++ micros (civil_of t off)).
Proof. exact short_precise_text_l. Qed.
Print Assumptions render_short_precise_text.

Theorem render_short_full_text :
  forall t off, exists s, jstrftime (fmt_of OShortIso) t off = Some s /\
    jstrftime (fmt_of OShortFull) t off = Some (wday_abbr (local_days t off) ++ [32%N] ++ s ++ [32%N] ++ zone_name off).
Proof. exact short_full_text_l. Qed.
Print Assumptions render_short_full_text.

Theorem render_verbose_header_text :
  forall t off, exists s, jstrftime (fmt_of OShortIso) t off = Some s /\
    jstrftime (cfg_fmt_verbose src_cfg) t off
    = Some (wday_abbr (local_days t off) ++ [32%N] ++ s ++ [46%N] ++ micros (civil_of t off) ++ [32%N] ++ zone_name off).
Proof. exact verbose_text_l. Qed.
Print Assumptions render_verbose_header_text.

Theorem render_weekday_of_printed_date :
  forall t off, let c := civil_of t off in
  local_days t off = Calendar.days_from_civil (c_year c) (c_mon c) (c_day c).
Proof. exact wday_of_printed_date_l. Qed.
Print Assumptions render_weekday_of_printed_date.

Theorem render_zone_name_is_colon_z : forall off, off mod 60 = 0 -> zone_name off = fmt_off true off.
Proof. exact zone_name_colon_z. Qed.
Print Assumptions render_zone_name_is_colon_z.

Example render_zone_name_example : (-12600) mod 60 = 0 /\ zone_name (-12600) = s2b "-03:30" /\ zone_name 20715 = s2b "+05:45:15".
Proof. vm_compute. repeat split; reflexivity. Qed.
Print Assumptions render_zone_name_example.

(* short-monotonic: `mu as f64 / 1000000.0` printed with {:>12.6} is the exact decimal expansion
   below 2^52 microseconds; not above 2^53 *)
Theorem render_monotonic_exact :
  forall mu : N, (mu < 4503599627370496)%N ->
  fmt_mono src_cfg mu
  = pad_left 12 (Strftime.dec (Z.of_N mu / 1000000) ++ 46%N :: digits_n 6 (Z.of_N mu mod 1000000)).
Proof. exact fmt_mono_exact_l. Qed.
Print Assumptions render_monotonic_exact.

Theorem render_monotonic_scaled_exact : forall mu, 0 <= mu < 2 ^ 52 -> mono_scaled 1000000 6 mu = mu.
Proof. exact mono_scaled_exact_l. Qed.
Print Assumptions render_monotonic_scaled_exact.

Example render_monotonic_examples :
  fmt_mono src_cfg 74212842 = s2b "   74.212842" /\
  fmt_mono src_cfg 13446824908 = s2b "13446.824908" /\
  fmt_mono src_cfg 0 = s2b "    0.000000" /\
  fmt_mono src_cfg 999999999999999 = s2b "999999999.999999".
Proof. exact fmt_mono_examples. Qed.
Print Assumptions render_monotonic_examples.

Theorem render_monotonic_inexact_refuted :
  exists mu, 0 <= mu < 2 ^ 64 /\ mono_scaled 1000000 6 mu <> mu.
Proof. exact mono_inexact_refuted_l. Qed.
Print Assumptions render_monotonic_inexact_refuted.

(* The host: seven renderings are functions of the entry and the zone alone ... *)
Theorem render_host_independent :
  forall off b1 b2 o e, o <> OShortMonotonic -> o <> OVerbose -> o <> OExport ->
  next_entry src_cfg (mkEnv off b1) o e = next_entry src_cfg (mkEnv off b2) o e.
Proof. exact src_host_independent. Qed.
Print Assumptions render_host_independent.

(* ... the other three were not before the repair ab7eeab4 (regression lemma; cfg_with_host_call = the scraped
   configuration with the call of sd_id128_get_boot that get_monotonic_usec made before it asked the journal:
   it gave up when the HOST's boot id was unreadable although the journal holds the value) *)
Theorem render_host_dependence_refuted :
  exists e off,
    next_entry cfg_with_host_call (mkEnv off true) OShortMonotonic e <> next_entry cfg_with_host_call (mkEnv off false) OShortMonotonic e /\
    next_entry cfg_with_host_call (mkEnv off true) OVerbose e <> next_entry cfg_with_host_call (mkEnv off false) OVerbose e /\
    next_entry cfg_with_host_call (mkEnv off true) OExport e <> next_entry cfg_with_host_call (mkEnv off false) OExport e /\
    length (export_fields (host_view cfg_with_host_call (mkEnv off false) e)) <> length (export_fields e) /\
    next_entry cfg_with_host_call (mkEnv off false) OShortMonotonic e
    = NFound (s2b "[            ] fink rtkit-daemon[1170]: Demoting known real-time threads." ++ [NL]).
Proof. exact host_dependence_refuted_l. Qed.
Print Assumptions render_host_dependence_refuted.

(* without that call every rendering is a function of entry and zone ... *)
Theorem render_host_independent_without_the_call :
  forall cfg off b1 b2 o e, cfg_mono_needs_host cfg = false ->
  next_entry cfg (mkEnv off b1) o e = next_entry cfg (mkEnv off b2) o e.
Proof. exact host_independent_all_l. Qed.
Print Assumptions render_host_independent_without_the_call.

(* ... and the current source makes no such call *)
Theorem render_src_host_independent :
  forall off b1 b2 o e, next_entry src_cfg (mkEnv off b1) o e = next_entry src_cfg (mkEnv off b2) o e.
Proof. intros. apply host_independent_all_l. reflexivity. Qed.
Print Assumptions render_src_host_independent.

(* when the host's boot id is readable (or is not asked for) the export rendering is the one of the
   theorems above *)
Theorem render_export_host_ok :
  forall cfg ev e, cfg_mono_needs_host cfg = false \/ env_boot_ok ev = true -> host_view cfg ev e = e.
Proof. exact host_view_ok. Qed.
Print Assumptions render_export_host_ok.

(* FINDING verbose_multivalued_field (repaired, 98ec3000; regression lemma about cfg_with_hashmap = the scraped
   configuration with the HashMap next_verbose used before): one value per field name, so a stored data
   object of a multi-valued field was missing from the verbose text although export prints it *)
Theorem render_verbose_multivalued_refuted :
  exists e k v b ev, wf_entry e /\ In (k, v) (e_fields e) /\
    next_entry cfg_with_hashmap ev OVerbose e = NFound b /\ ~ infix (vline cfg_with_hashmap k v) b /\
    infix (print_field_safe (k, v)) (render_export e).
Proof. exact verbose_multivalued_refuted_l. Qed.
Print Assumptions render_verbose_multivalued_refuted.

(* the repaired next_verbose keeps every data object: each of the enumerated ones has its line
   FIELD_BEG name "=" value "\n" in the text (value = the stored bytes, _SELINUX_CONTEXT without its trailing cruft) *)
Theorem render_verbose_all_fields :
  forall cfg ev e f, cfg_verbose_multi cfg = true -> cfg_formats_ok cfg = true -> keys_wf (e_fields e) ->
  In f (firstn (cfg_emerg_verbose cfg) (e_fields e)) ->
  exists b, render_verbose cfg ev e = Some b /\ infix (vline cfg (fst f) (vval cfg f)) b.
Proof. exact verbose_all_fields_l. Qed.
Print Assumptions render_verbose_all_fields.

Theorem render_src_verbose_keeps_all : cfg_verbose_multi src_cfg = true.
Proof. reflexivity. Qed.
Print Assumptions render_src_verbose_keeps_all.

Example render_verbose_multivalued_repaired :
  cfg_verbose_multi (set_verbose_multi true src_cfg) = true /\
  exists b, next_entry (set_verbose_multi true src_cfg) (mkEnv 0%Z true) OVerbose w_entry_multi = NFound b /\
            infixb (s2b "    SYSLOG_FACILITY=DHCP4" ++ [NL] ++ s2b "    SYSLOG_FACILITY=DHCP6" ++ [NL]) b = true.
Proof. exact verbose_multivalued_repaired. Qed.
Print Assumptions render_verbose_multivalued_repaired.

Example render_witness_renderings :
  let ev := mkEnv (-12600)%Z true in
  next_entry src_cfg ev OShort w_entry1 = NFound (s2b "Dec 15 20:14:03 fink rtkit-daemon[1170]: Demoting known real-time threads." ++ [NL]) /\
  next_entry src_cfg ev OShortMonotonic w_entry1 = NFound (s2b "[13446.824908] fink rtkit-daemon[1170]: Demoting known real-time threads." ++ [NL]) /\
  next_entry src_cfg ev OShortFull w_entry1 = NFound (s2b "Fri 2023-12-15 20:14:03 -03:30 fink rtkit-daemon[1170]: Demoting known real-time threads." ++ [NL]) /\
  next_entry src_cfg ev OCat w_entry1 = NFound (s2b "Demoting known real-time threads." ++ [NL]) /\
  next_entry src_cfg ev OShort w_entry_nomsg = NFound (s2b "Dec 15 20:14:03 fink rtkit-daemon[1170]" ++ [NL]).
Proof. exact w_entry1_renderings. Qed.
Print Assumptions render_witness_renderings.

(* Which fields short* looks up, with the fallbacks: for an entry whose enumerated data objects have
   pairwise different names the text after the timestamp is
     [" " _HOSTNAME] [" " (SYSLOG_IDENTIFIER else _COMM)] ["[" (_PID else SYSLOG_PID) "]"] [": " MESSAGE] "\n"
   (short_tail of the six looked-up values); the early end of the enumeration loop never changes it. *)
Theorem render_short_tail_spec :
  forall cfg e, cfg_ok cfg = true -> need_five cfg -> keys_wf (e_fields e) ->
  NoDup (map fst (firstn (cfg_emerg_short cfg) (e_fields e))) ->
  short_tail (short_found cfg e) = short_tail (sf_lookup cfg (firstn (cfg_emerg_short cfg) (e_fields e))).
Proof. exact short_tail_spec_l. Qed.
Print Assumptions render_short_tail_spec.

Theorem render_src_need_five : need_five src_cfg.
Proof. exact src_need_five. Qed.
Print Assumptions render_src_need_five.

Example render_short_tail_spec_hyps :
  keys_wf (e_fields w_entry1) /\ NoDup (map fst (firstn (cfg_emerg_short src_cfg) (e_fields w_entry1))) /\
  short_tail (sf_lookup src_cfg (firstn (cfg_emerg_short src_cfg) (e_fields w_entry1)))
  = s2b " fink rtkit-daemon[1170]: Demoting known real-time threads." ++ [NL].
Proof. exact short_tail_spec_example. Qed.
Print Assumptions render_short_tail_spec_hyps.

(* verbose: field order.  The body is the lines of the names of FIELD_ORDER_VERBOSE, in table order (all values
   of a name, in enumeration order), then the other pairs sorted by (name, value), then _SOURCE_REALTIME_TIMESTAMP;
   every line is FIELD_BEG name "=" value "\n". *)
Theorem render_verbose_body_order :
  forall cfg m, NoDup (cfg_order cfg) ->
  let m1 := filter (key_neq (cfg_k_source_rt cfg)) m in
  verbose_body cfg m
  = concat (map (vl cfg) (ordered_part (cfg_order cfg) m1
                          ++ sort_fields (unordered_part (cfg_order cfg) m1)
                          ++ map (pair (cfg_k_source_rt cfg)) (values_of (cfg_k_source_rt cfg) m))).
Proof. exact verbose_body_order_l. Qed.
Print Assumptions render_verbose_body_order.

(* with the HashMap of the code before 98ec3000 the names were pairwise different (one value per name) *)
Theorem render_verbose_map_keys_distinct :
  forall cfg ev e, cfg_verbose_multi cfg = false -> NoDup (map fst (verbose_map cfg ev e)).
Proof. exact verbose_map_keys. Qed.
Print Assumptions render_verbose_map_keys_distinct.

Theorem render_verbose_rest_sorted : forall l, Sorted.Sorted field_le (sort_fields l).
Proof. exact sort_fields_sorted_l. Qed.
Print Assumptions render_verbose_rest_sorted.

Theorem render_src_order_nodup : NoDup (cfg_order src_cfg).
Proof. exact src_order_nodup. Qed.
Print Assumptions render_src_order_nodup.

Example render_verbose_order_example :
  next_entry (set_order [s2b "_PID"; s2b "MESSAGE"; s2b "__MONOTONIC_TIMESTAMP"] src_cfg) (mkEnv 0%Z true) OVerbose w_entry1
  = NFound (s2b "Fri 2023-12-15 23:44:03.814918 +00:00 [s=301da6bc860f44808d5e36ddb58400db;i=6bd;b=1809e3bbbb334d62937ce8827b16b5f0;m=3217e43cc;t=60c94f9ace606;x=4e442f8e0c086ec5]" ++ [NL]
            ++ s2b "    _PID=1170" ++ [NL]
            ++ s2b "    MESSAGE=Demoting known real-time threads." ++ [NL]
            ++ s2b "    __MONOTONIC_TIMESTAMP=13446824908" ++ [NL]
            ++ s2b "    PRIORITY=6" ++ [NL] ++ s2b "    SYSLOG_IDENTIFIER=rtkit-daemon" ++ [NL] ++ s2b "    SYSLOG_PID=1170" ++ [NL]
            ++ s2b "    _COMM=rtkit-daemon" ++ [NL] ++ s2b "    _HOSTNAME=fink" ++ [NL] ++ s2b "    _TRANSPORT=syslog" ++ [NL]
            ++ s2b "    _SOURCE_REALTIME_TIMESTAMP=1702683843818187" ++ [NL]).
Proof. exact verbose_order_example. Qed.
Print Assumptions render_verbose_order_example.

(* satisfiability of the hypotheses of render_short_no_message, render_export_message_text, render_shows_receive_time *)
Example render_short_no_message_hyps :
  keys_wf (e_fields w_entry_nomsg) /\
  (forall f, In f (firstn (cfg_emerg_short src_cfg) (e_fields w_entry_nomsg)) -> fst f <> cfg_k_msg src_cfg) /\
  short_tail (short_found src_cfg w_entry_nomsg) = s2b " fink rtkit-daemon[1170]" ++ [NL].
Proof. exact short_no_message_example. Qed.
Print Assumptions render_short_no_message_hyps.

Example render_export_message_text_hyps :
  In (s2b "MESSAGE", s2b "Demoting known real-time threads.") (enumerated w_entry1) /\
  text_safe (data_of (s2b "MESSAGE", s2b "Demoting known real-time threads.")) = true.
Proof. exact export_message_text_example. Qed.
Print Assumptions render_export_message_text_hyps.

Example render_src_override : cfg_override src_cfg = Some DsRealtime.
Proof. exact src_override_example. Qed.
Print Assumptions render_src_override.
