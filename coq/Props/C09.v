(* Props/C09.v — property C09 "Journal files: every entry once, in journal order,
   fields intact": statements only; every proof is `exact <lemma>`.
   libsystemd is an oracle: its contract J1 is a hypothesis of the theorems. *)
From Coq Require Import String.
From S4.Base Require Import Bytes.
From S4.Model Require Import Journal.
From S4.Spec Require Import JournalSpec.
From S4.Proofs Require Import JournalWindow JournalExport JournalEndToEnd.
Open Scope Z_scope.

(* For every journal with non-decreasing, valid (positive: libsystemd VALID_REALTIME)
   receive times and every window (bounds before 1970 included; only the u64 upper
   side 2^64 is excluded), the reader (seek + enumeration loop with the repaired,
   strict stop test) hands to the printer exactly the in-window entries: each
   once, in journal order (the output IS the sub-list [window]). *)
Theorem journal_out_correct :
  forall sd_seek_head sd_seek_realtime, J1_contract sd_seek_head sd_seek_realtime ->
  forall j A B, nondecreasing (times j) -> valid_realtimes (times j) -> bound_rep A -> bound_rep B ->
  journal_run sd_seek_head sd_seek_realtime stop_after A B j = window e_time A B j.
Proof. exact journal_out_correct_l. Qed.
Print Assumptions journal_out_correct.

Theorem journal_out_each_once :
  forall sd_seek_head sd_seek_realtime, J1_contract sd_seek_head sd_seek_realtime ->
  forall j A B, nondecreasing (times j) -> valid_realtimes (times j) -> bound_rep A -> bound_rep B ->
  let out := journal_run sd_seek_head sd_seek_realtime stop_after A B j in
  (forall e, In e out <-> In e j /\ in_window A B (e_time e) = true) /\
  (NoDup j -> NoDup out) /\
  length out = length (window_idx A B (times j)).
Proof. exact journal_out_each_once_l. Qed.
Print Assumptions journal_out_each_once.

(* bytes on stdout for any modelled rendering *)
Theorem journal_stdout_correct :
  forall sd_seek_head sd_seek_realtime, J1_contract sd_seek_head sd_seek_realtime ->
  forall r j A B, nondecreasing (times j) -> valid_realtimes (times j) -> bound_rep A -> bound_rep B ->
  journal_stdout sd_seek_head sd_seek_realtime stop_after r A B j
  = concat (map (render r) (window e_time A B j)).
Proof. exact journal_stdout_correct_l. Qed.
Print Assumptions journal_stdout_correct.

(* the oracle contract is satisfiable *)
Theorem J1_satisfiable : J1_contract ref_seek_head ref_seek_realtime.
Proof. exact ref_oracle_J1. Qed.
Print Assumptions J1_satisfiable.

(* F2 (regression lemma): the stop test before the repair drops an entry whose
   time equals the upper bound *)
Theorem journal_upper_bound_refuted :
  exists j A B, nondecreasing (times j) /\ bound_ok A /\ bound_ok B /\
    journal_run ref_seek_head ref_seek_realtime stop_at_or_after A B j <> window e_time A B j.
Proof. exact journal_upper_bound_refuted_l. Qed.
Print Assumptions journal_upper_bound_refuted.

(* regression lemma: with the bound conversion before the repair (`as u64` without the
   clamp) a bound before 1970 wrapped to a huge value *)
Theorem journal_pre_epoch_bound_refuted :
  exists j A B, nondecreasing (times j) /\ valid_realtimes (times j) /\ bound_rep A /\ bound_rep B /\
    journal_run_wrapping ref_seek_head ref_seek_realtime stop_after A B j <> window e_time A B j.
Proof. exact journal_pre_epoch_bound_refuted_l. Qed.
Print Assumptions journal_pre_epoch_bound_refuted.

(* [valid_realtimes] is a necessary hypothesis (an entry stamped exactly 0, which
   libsystemd never writes, would be printed for an upper bound before 1970) *)
Theorem journal_zero_time_refuted :
  exists j A B, nondecreasing (times j) /\ bound_rep A /\ bound_rep B /\
    journal_run ref_seek_head ref_seek_realtime stop_after A B j <> window e_time A B j.
Proof. exact journal_zero_time_refuted_l. Qed.
Print Assumptions journal_zero_time_refuted.

(* fields intact: parsing the export rendering gives back the stored fields, for
   arbitrary value bytes (full statement, repaired printer) *)
Theorem export_roundtrip :
  forall e, wf_entry e -> parse_export (render_export e) = POk [export_fields e].
Proof. exact export_roundtrip_l. Qed.
Print Assumptions export_roundtrip.

Theorem export_roundtrip_stream :
  forall es, Forall wf_entry es ->
  parse_export (concat (map render_export es)) = POk (map export_fields es).
Proof. exact export_roundtrip_stream_l. Qed.
Print Assumptions export_roundtrip_stream.

(* the parser's fuel always suffices *)
Theorem parse_export_fuel_ok : forall s, parse_export s <> POutOfFuel.
Proof. exact parse_export_fuel_ok_l. Qed.
Print Assumptions parse_export_fuel_ok.

(* the printer before the repair: correct only when no value contains a newline *)
Theorem export_roundtrip_textonly_partial :
  forall es, Forall wf_entry es ->
  Forall (fun e => Forall (fun f => ~ In NL (snd f)) (e_fields e)) es ->
  parse_export (concat (map render_export_textonly es)) = POk (map export_fields es).
Proof. exact export_roundtrip_textonly_partial_l. Qed.
Print Assumptions export_roundtrip_textonly_partial.

(* F10 (regression lemma): the SYSLOG_RAW entry of the RHE 9.1 fixture *)
Theorem export_multiline_refuted :
  exists e, wf_entry e /\ parse_export (render_export_textonly e) <> POk [export_fields e].
Proof. exact export_multiline_refuted_l. Qed.
Print Assumptions export_multiline_refuted.

(* cat = the stored MESSAGE value and a newline; entries without MESSAGE print nothing *)
Theorem cat_is_message :
  forall e pre m post,
  e_fields e = pre ++ (k_message, m) :: post ->
  (forall f, In f pre -> fst f <> k_message) ->
  render_cat e = m ++ [NL].
Proof. exact cat_is_message_l. Qed.
Print Assumptions cat_is_message.

Theorem cat_without_message :
  forall e, (forall f, In f (e_fields e) -> fst f <> k_message) -> render_cat e = [].
Proof. exact cat_without_message_l. Qed.
Print Assumptions cat_without_message.

(* end to end: what a consumer parses out of the export rendering of a run is the
   stored fields of exactly the in-window entries, in journal order *)
Theorem journal_export_correct :
  forall sd_seek_head sd_seek_realtime, J1_contract sd_seek_head sd_seek_realtime ->
  forall j A B, nondecreasing (times j) -> valid_realtimes (times j) -> bound_rep A -> bound_rep B -> Forall wf_entry j ->
  parse_export (journal_stdout sd_seek_head sd_seek_realtime stop_after RExport A B j)
  = POk (map export_fields (window e_time A B j)).
Proof. exact journal_export_correct_l. Qed.
Print Assumptions journal_export_correct.

Theorem journal_cat_correct :
  forall sd_seek_head sd_seek_realtime, J1_contract sd_seek_head sd_seek_realtime ->
  forall j A B, nondecreasing (times j) -> valid_realtimes (times j) -> bound_rep A -> bound_rep B ->
  journal_stdout sd_seek_head sd_seek_realtime stop_after RCat A B j
  = concat (map render_cat (window e_time A B j)).
Proof. exact journal_cat_correct_l. Qed.
Print Assumptions journal_cat_correct.
