(* Props/C11.v — property C11 "year-less timestamps receive the right year": statements only;
   every proof is `exact <lemma>` (Proofs/YearProofs.v, Proofs/CalendarExtra.v).

   [assign_years fuel off Y msgs] is the model of SyslogProcessor::process_missing_year for a file whose
   messages carry (month, day, time of day), read in the zone [off], with mtime year [Y] in that zone:
   Some [(year, instant); ...] in file order, or None when a message cannot be dated in a candidate
   year (29 Feb in a common year, Issue #245: outside the property) or the retry fuel runs out.
   TOL = 25 h.  GAP = 365 d - 25 h.  Instants are nanoseconds. *)
From Coq Require Import ZArith Bool List.
From S4.Model Require Import Calendar Year.
From S4.Proofs Require Import CalendarExtra YearProofs.
Import ListNotations.
Open Scope Z_scope.

(* 1. the last message is dated in the year of the modification time *)
Theorem C11_assign_last : forall fuel off Y msgs ys,
  assign_years fuel off Y msgs = Some ys -> msgs <> [] ->
  exists t, last ys (0, 0) = (Y, t).
Proof. exact assign_last_lemma. Qed.
Print Assumptions C11_assign_last.

(* 2. time never runs backwards by more than the tolerance from one message to the next:
      for every adjacent pair a (above) b (below):  t_a <= t_b + 25 h *)
Theorem C11_assign_no_big_backstep : forall fuel off Y msgs ys,
  assign_years fuel off Y msgs = Some ys ->
  forall l1 a b l2, ys = l1 ++ a :: b :: l2 -> snd a <= snd b + TOL.
Proof. exact assign_no_big_backstep_lemma. Qed.
Print Assumptions C11_assign_no_big_backstep.

(* 3. the year only ever steps down, going up the file, and only where keeping it would break 2:
      read from the last message upwards ([steps_ok], lists reversed), each message's year y is <= the
      year of the message below, it is dated in y, and every skipped year y0 (y < y0 <= year below)
      would have put it more than 25 h after the message below *)
Theorem C11_assign_minimal_steps : forall fuel off Y msgs ys,
  assign_years fuel off Y msgs = Some ys -> steps_ok off Y None (rev msgs) (rev ys).
Proof. exact assign_minimal_steps_lemma. Qed.
Print Assumptions C11_assign_minimal_steps.

(* 4. the retry loop needs at most two attempts per message (one decrement): more fuel changes nothing,
      so the unbounded loop of the code terminates and [OutOfFuel] never occurs with fuel 2 *)
Theorem C11_assign_fuel : forall k off Y msgs,
  Forall wf_msg msgs -> assign_years (2 + k) off Y msgs = assign_years 2 off Y msgs.
Proof. exact assign_fuel_lemma. Qed.
Print Assumptions C11_assign_fuel.

(* 5. TRUE YEARS.  [tm] = the messages in file order, each with its true year.  If every message is a
      valid date in its true year ([msg_ok]), and for each adjacent pair a (above) b (below) ([pair_ok]):
      chronological, the gap is < 365 d - 25 h (the exact constant; see 6), and a 29 February is not
      followed by a message of another year (Issue #245), then with the mtime in the last message's
      year the walk assigns exactly the true years (and instants). *)
Theorem C11_assign_true_years : forall off tm,
  seq_ok off tm ->
  assign_years 2 off (fst (last tm (0, mkMsg 0 0 0))) (map snd tm) =
  Some (map (fun ym => (fst ym, instant_of off ym)) tm).
Proof. exact assign_true_years_lemma. Qed.
Print Assumptions C11_assign_true_years.

(* 6. the margin is real: the property's "gaps under one year" must read "under 365 d - 25 h".
      1 Mar 2021 00:00:00 followed by 27 Feb 2022 23:00:00 (gap exactly 365 d - 25 h < 1 year):
      both are dated 2022. *)
Theorem C11_assign_margin_witness :
  instant_of 0 (2022, mkMsg 2 27 (23 * 3600 * NS)) - instant_of 0 (2021, mkMsg 3 1 0) = GAP /\
  GAP < 365 * DAY /\
  option_map (map fst) (assign_years 2 0 2022 (map snd margin_tm)) = Some [2022; 2022] /\
  map fst margin_tm = [2021; 2022].
Proof. exact assign_margin_witness_lemma. Qed.
Print Assumptions C11_assign_margin_witness.

(* ... and one nanosecond less satisfies the hypothesis of 5 (the hypotheses are satisfiable) *)
Example C11_margin_ok : seq_ok 0 margin_tm_ok.
Proof. exact margin_ok_lemma. Qed.
Print Assumptions C11_margin_ok.

(* 7. early stop at the --dt-after bound: walking only the messages from the end of the file up to the
      stop gives them the years the full walk gives them (lists from the last message upwards) *)
Theorem C11_assign_early_stop : forall fuel off Y below above l,
  walk fuel off Y None (below ++ above) = Some l ->
  walk fuel off Y None below = Some (firstn (length below) l).
Proof. exact assign_early_stop_lemma. Qed.
Print Assumptions C11_assign_early_stop.

(* 8. the year of the modification time (seconds since the epoch) in the fallback zone is the year whose
      1 January 00:00:00 in that zone is the last one not after it *)
Theorem C11_year_of_seconds : forall off secs,
  let y := year_of_seconds off secs in
  ystart y * 86400 - off <= secs < ystart (y + 1) * 86400 - off.
Proof. exact year_of_seconds_spec. Qed.
Print Assumptions C11_year_of_seconds.

(* 9. a log spanning two year boundaries with a leap day, zone -03:30, mtime in 2021 *)
Example C11_example_hypotheses : seq_ok (-12600) example_tm.
Proof. exact example_seq_ok. Qed.
Print Assumptions C11_example_hypotheses.

Example C11_example_two_boundaries :
  option_map (map fst) (assign_years 2 (-12600) 2021 (map snd example_tm)) =
  Some [2019; 2019; 2020; 2020; 2020; 2021].
Proof. exact example_two_boundaries_lemma. Qed.
Print Assumptions C11_example_two_boundaries.

(* 10. Issue #245, excluded by the property, is outside the model: 29 Feb followed by a later year *)
Example C11_issue245_outside : assign_years 2 0 2021 [mkMsg 2 29 0; mkMsg 1 5 0] = None.
Proof. exact issue245_outside_model. Qed.
Print Assumptions C11_issue245_outside.

(* calendar facts the above rests on (all years in Z) *)
Theorem C11_calendar_strict_mono : forall y m d y' m' d',
  valid_date y m d = true -> valid_date y' m' d' = true ->
  date_lt y m d y' m' d' -> days_from_civil y m d < days_from_civil y' m' d'.
Proof. exact dfc_strict_mono. Qed.
Print Assumptions C11_calendar_strict_mono.

Theorem C11_calendar_shift_year : forall y m d,
  valid_date y m d = true -> valid_date (y + 1) m d = true ->
  365 <= days_from_civil (y + 1) m d - days_from_civil y m d <= 366.
Proof. exact dfc_shift_year. Qed.
Print Assumptions C11_calendar_shift_year.
