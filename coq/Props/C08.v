(* Props/C08.v — property C08 (accounting-record files: every record once, in time order):
   statements only; every proof is `exact <lemma>`. *)
From Coq Require Import List NArith ZArith Bool Sorted Permutation.
Import ListNotations.
From S4.Base Require Import Bytes.
From S4.Spec Require Import RecordsSpec.
From S4.Model Require Import Records.
From S4.Gen Require Import FixedStructTables.
From S4.Proofs Require Import StableSort KeyedMap RecordsProofs FixedStructTablesOk.
Open Scope N_scope.

(* The repaired reader (map keyed by (time value, file offset)): for every entry size > 0,
   every window and every sequence of time values — any order, duplicates, nulls interleaved —
   the driver loop ends (fuel = number of map entries) and sends exactly the records of the
   spec, in the spec's order: stable sort by time of the non-null in-window records. *)
Theorem C08_records_out_correct : forall lo hi sz tvs,
  0 < sz ->
  records_out_K2 lo hi sz tvs = WDone (map r_fo (spec_records lo hi (index_recs sz 0 tvs))).
Proof. exact records_out_K2_correct. Qed.
Print Assumptions C08_records_out_correct.

(* Invalid entries (all bytes 0xFF: FixedStruct::new fails) are dropped at the moment they would
   be sent and the walk continues; what is sent is the spec of the file without them. *)
Theorem C08_records_sent_correct : forall bad lo hi sz tvs,
  0 < sz ->
  records_sent bad (records_out_K2 lo hi sz tvs)
  = WDone (map r_fo (stable_sort_by_time
                       (filter (fun r => negb (bad (r_fo r)))
                               (filter (rec_keep lo hi) (index_recs sz 0 tvs))))).
Proof. exact records_sent_K2_correct. Qed.
Print Assumptions C08_records_sent_correct.

(* the fuel: number of map entries = number of records kept <= number of entries of the file *)
Theorem C08_walk_fuel : forall lo hi sz tvs,
  0 < sz ->
  length (scan k2_cmp k2_mk lo hi sz 0 tvs []) = length (filter (rec_keep lo hi) (index_recs sz 0 tvs))
  /\ (length (scan k2_cmp k2_mk lo hi sz 0 tvs []) <= length tvs)%nat.
Proof. exact records_map_size. Qed.
Print Assumptions C08_walk_fuel.

(* what the spec says: each kept record once ... *)
Theorem C08_spec_each_once : forall lo hi recs,
  Permutation (spec_records lo hi recs) (filter (rec_keep lo hi) recs).
Proof. exact spec_records_perm. Qed.
Print Assumptions C08_spec_each_once.

Theorem C08_printed_offsets_distinct : forall lo hi sz tvs,
  0 < sz -> NoDup (map r_fo (spec_records lo hi (index_recs sz 0 tvs))).
Proof. exact records_out_nodup. Qed.
Print Assumptions C08_printed_offsets_distinct.

(* ... in time order ... *)
Theorem C08_spec_time_order : forall lo hi recs,
  StronglySorted (fun a b => rec_tle a b = true) (spec_records lo hi recs).
Proof. exact spec_records_sorted. Qed.
Print Assumptions C08_spec_time_order.

(* ... equal times keep file order ... *)
Theorem C08_spec_stable : forall lo hi recs t,
  filter (fun r => tv_eqb t (r_tv r)) (spec_records lo hi recs)
  = filter (fun r => tv_eqb t (r_tv r)) (filter (rec_keep lo hi) recs).
Proof. exact spec_records_stable. Qed.
Print Assumptions C08_spec_stable.

(* ... the window is inclusive at both ends, None = unbounded, null records are skipped *)
Theorem C08_window_inclusive : forall lo hi r,
  rec_keep lo hi r = true <->
  r_tv r <> (0, 0)%Z /\
  (forall a, lo = Some a -> tv_le a (r_tv r)) /\
  (forall b, hi = Some b -> tv_le (r_tv r) b).
Proof. exact rec_keep_inclusive. Qed.
Print Assumptions C08_window_inclusive.

(* The reader as it was before commit deb9a25f (map keyed by the time value only) does not
   satisfy the statement: regression witness, a lastlog file with times [t, t, t+5, t+5]. *)
Theorem C08_records_out_K1_refuted :
  exists lo hi sz tvs, 0 < sz /\
    records_out_K1 lo hi sz tvs <> WDone (map r_fo (spec_records lo hi (index_recs sz 0 tvs))).
Proof. exact records_out_K1_refuted. Qed.
Print Assumptions C08_records_out_K1_refuted.

(* ... and it does satisfy it exactly outside the class of the defect (kept time values
   pairwise different) *)
Theorem C08_records_out_K1_distinct_times : forall lo hi sz tvs,
  0 < sz ->
  NoDup (map r_tv (filter (rec_keep lo hi) (index_recs sz 0 tvs))) ->
  records_out_K1 lo hi sz tvs = WDone (map r_fo (spec_records lo hi (index_recs sz 0 tvs))).
Proof. exact records_out_K1_distinct_times. Qed.
Print Assumptions C08_records_out_K1_distinct_times.

(* Layout table regenerated from the compiled constants of every FixedStructType *)
Theorem C08_layouts_wf : forall l, In l fixedstruct_layouts -> layout_wf l.
Proof. exact layouts_wf. Qed.
Print Assumptions C08_layouts_wf.

Theorem C08_entry_sz_attained :
  existsb (fun l => l_size l =? entry_sz_min) fixedstruct_layouts = true /\
  existsb (fun l => l_size l =? entry_sz_max) fixedstruct_layouts = true.
Proof. exact entry_sz_attained. Qed.
Print Assumptions C08_entry_sz_attained.

Theorem C08_layout_names_distinct : nodupb (map l_name fixedstruct_layouts) = true.
Proof. exact layout_names_distinct. Qed.
Print Assumptions C08_layout_names_distinct.

Theorem C08_filesz_guards_consistent :
  forallb (fun gt => beqb (lower_bytes (fst gt)) (lower_bytes (skipn 3 (snd gt)))) filesz_guards = true.
Proof. exact filesz_guards_consistent. Qed.
Print Assumptions C08_filesz_guards_consistent.

Theorem C08_filesz_types_are_layouts :
  forallb (fun t => memb t (map l_name fixedstruct_layouts)) (filesz_try_all ++ map snd filesz_bonus) = true.
Proof. exact filesz_types_are_layouts. Qed.
Print Assumptions C08_filesz_types_are_layouts.

Theorem C08_layouts_reachable :
  forallb (fun l => memb (l_name l) filesz_try_all) fixedstruct_layouts = true.
Proof. exact layouts_reachable. Qed.
Print Assumptions C08_layouts_reachable.

Theorem C08_layouts_have_bonus :
  forallb (fun l => memb (l_name l) (map snd filesz_bonus)) fixedstruct_layouts = true.
Proof. exact layouts_have_bonus. Qed.
Print Assumptions C08_layouts_have_bonus.

(* regression statement about the try-all list as it was before commit dd987c74 (frozen
   snapshot): one supported layout was never offered by filesz_to_types *)
Theorem C08_layout_reachability_refuted :
  exists n, In n layout_names_snapshot /\ memb n try_all_snapshot = false.
Proof. exact layout_reachability_refuted. Qed.
Print Assumptions C08_layout_reachability_refuted.

(* the hypotheses are satisfiable / the model computes *)
Example C08_example_K2 :
  records_out_K2 (Some (1700000000, 0)%Z) (Some (1700000005, 0)%Z) 292
                 [(1700000005, 0); (0, 0); (1700000000, 0); (1700000005, 0); (1700000009, 0); (1700000000, 0)]%Z
  = WDone [584; 1460; 0; 876].
Proof. exact records_out_K2_example. Qed.
Print Assumptions C08_example_K2.

Example C08_example_K1_distinct :
  NoDup (map r_tv (filter (rec_keep None None) (index_recs 292 0 [(5, 0); (0, 0); (3, 1)]%Z)))
  /\ records_out_K1 None None 292 [(5, 0); (0, 0); (3, 1)]%Z = WDone [584; 0].
Proof. exact records_out_K1_distinct_example. Qed.
Print Assumptions C08_example_K1_distinct.
