(* Props/C08.v — property C08 (accounting-record files: every record once, in time order):
   statements only; every proof is `exact <lemma>`. *)
From Coq Require Import List NArith ZArith Bool Sorted Permutation String.
Import ListNotations.
From S4.Base Require Import Bytes.
From S4.Spec Require Import RecordsSpec.
From S4.Model Require Import Records RecordRender LayoutDetect.
From S4.Gen Require Import FixedStructTables.
From S4.Proofs Require Import StableSort KeyedMap RecordsProofs RecordRenderProofs LayoutDetectProofs FixedStructTablesOk.
Open Scope N_scope.
Open Scope list_scope.

(* The repaired reader (map keyed by (time value, file offset)): for every entry size > 0,
   every window and every sequence of time values — any order, duplicates, nulls interleaved —
   the driver loop ends (fuel = number of map entries) and sends exactly the records of the
   spec, in the spec's order: stable sort by time of the non-null in-window records. *)
Theorem C08_records_out_correct : forall lo hi sz tvs,
  0 < sz ->
  records_out_K2 lo hi sz tvs = WDone (map r_fo (spec_records lo hi (index_recs sz 0 tvs))).
Proof. exact records_out_K2_correct. Qed.
Print Assumptions C08_records_out_correct.

(* Invalid entries (all bytes 0xFF: FixedStruct::new fails) are dropped at the moment they would
   be sent and the walk continues; what is sent is the spec of the file without them. *)
Theorem C08_records_sent_correct : forall bad lo hi sz tvs,
  0 < sz ->
  records_sent bad (records_out_K2 lo hi sz tvs)
  = WDone (map r_fo (stable_sort_by_time
                       (filter (fun r => negb (bad (r_fo r)))
                               (filter (rec_keep lo hi) (index_recs sz 0 tvs))))).
Proof. exact records_sent_K2_correct. Qed.
Print Assumptions C08_records_sent_correct.

(* the fuel: number of map entries = number of records kept <= number of entries of the file *)
Theorem C08_walk_fuel : forall lo hi sz tvs,
  0 < sz ->
  length (scan k2_cmp k2_mk lo hi sz 0 tvs []) = length (filter (rec_keep lo hi) (index_recs sz 0 tvs))
  /\ (length (scan k2_cmp k2_mk lo hi sz 0 tvs []) <= length tvs)%nat.
Proof. exact records_map_size. Qed.
Print Assumptions C08_walk_fuel.

(* what the spec says: each kept record once ... *)
Theorem C08_spec_each_once : forall lo hi recs,
  Permutation (spec_records lo hi recs) (filter (rec_keep lo hi) recs).
Proof. exact spec_records_perm. Qed.
Print Assumptions C08_spec_each_once.

Theorem C08_printed_offsets_distinct : forall lo hi sz tvs,
  0 < sz -> NoDup (map r_fo (spec_records lo hi (index_recs sz 0 tvs))).
Proof. exact records_out_nodup. Qed.
Print Assumptions C08_printed_offsets_distinct.

(* ... in time order ... *)
Theorem C08_spec_time_order : forall lo hi recs,
  StronglySorted (fun a b => rec_tle a b = true) (spec_records lo hi recs).
Proof. exact spec_records_sorted. Qed.
Print Assumptions C08_spec_time_order.

(* ... equal times keep file order ... *)
Theorem C08_spec_stable : forall lo hi recs t,
  filter (fun r => tv_eqb t (r_tv r)) (spec_records lo hi recs)
  = filter (fun r => tv_eqb t (r_tv r)) (filter (rec_keep lo hi) recs).
Proof. exact spec_records_stable. Qed.
Print Assumptions C08_spec_stable.

(* ... the window is inclusive at both ends, None = unbounded, null records are skipped *)
Theorem C08_window_inclusive : forall lo hi r,
  rec_keep lo hi r = true <->
  r_tv r <> (0, 0)%Z /\
  (forall a, lo = Some a -> tv_le a (r_tv r)) /\
  (forall b, hi = Some b -> tv_le (r_tv r) b).
Proof. exact rec_keep_inclusive. Qed.
Print Assumptions C08_window_inclusive.

(* The reader as it was before commit deb9a25f (map keyed by the time value only) does not
   satisfy the statement: regression witness, a lastlog file with times [t, t, t+5, t+5]. *)
Theorem C08_records_out_K1_refuted :
  exists lo hi sz tvs, 0 < sz /\
    records_out_K1 lo hi sz tvs <> WDone (map r_fo (spec_records lo hi (index_recs sz 0 tvs))).
Proof. exact records_out_K1_refuted. Qed.
Print Assumptions C08_records_out_K1_refuted.

(* ... and it does satisfy it exactly outside the class of the defect (kept time values
   pairwise different) *)
Theorem C08_records_out_K1_distinct_times : forall lo hi sz tvs,
  0 < sz ->
  NoDup (map r_tv (filter (rec_keep lo hi) (index_recs sz 0 tvs))) ->
  records_out_K1 lo hi sz tvs = WDone (map r_fo (spec_records lo hi (index_recs sz 0 tvs))).
Proof. exact records_out_K1_distinct_times. Qed.
Print Assumptions C08_records_out_K1_distinct_times.

(* Layout table regenerated from the compiled constants of every FixedStructType *)
Theorem C08_layouts_wf : forall l, In l fixedstruct_layouts -> layout_wf l.
Proof. exact layouts_wf. Qed.
Print Assumptions C08_layouts_wf.

Theorem C08_entry_sz_attained :
  existsb (fun l => l_size l =? entry_sz_min) fixedstruct_layouts = true /\
  existsb (fun l => l_size l =? entry_sz_max) fixedstruct_layouts = true.
Proof. exact entry_sz_attained. Qed.
Print Assumptions C08_entry_sz_attained.

Theorem C08_layout_names_distinct : nodupb (map l_name fixedstruct_layouts) = true.
Proof. exact layout_names_distinct. Qed.
Print Assumptions C08_layout_names_distinct.

Theorem C08_filesz_guards_consistent :
  forallb (fun gt => beqb (lower_bytes (fst gt)) (lower_bytes (skipn 3 (snd gt)))) filesz_guards = true.
Proof. exact filesz_guards_consistent. Qed.
Print Assumptions C08_filesz_guards_consistent.

Theorem C08_filesz_types_are_layouts :
  forallb (fun t => memb t (map l_name fixedstruct_layouts)) (filesz_try_all ++ map snd filesz_bonus) = true.
Proof. exact filesz_types_are_layouts. Qed.
Print Assumptions C08_filesz_types_are_layouts.

Theorem C08_layouts_reachable :
  forallb (fun l => memb (l_name l) filesz_try_all) fixedstruct_layouts = true.
Proof. exact layouts_reachable. Qed.
Print Assumptions C08_layouts_reachable.

Theorem C08_layouts_have_bonus :
  forallb (fun l => memb (l_name l) (map snd filesz_bonus)) fixedstruct_layouts = true.
Proof. exact layouts_have_bonus. Qed.
Print Assumptions C08_layouts_have_bonus.

(* regression statement about the try-all list as it was before commit dd987c74 (frozen
   snapshot): one supported layout was never offered by filesz_to_types *)
Theorem C08_layout_reachability_refuted :
  exists n, In n layout_names_snapshot /\ memb n try_all_snapshot = false.
Proof. exact layout_reachability_refuted. Qed.
Print Assumptions C08_layout_reachability_refuted.

(* the hypotheses are satisfiable / the model computes *)
Example C08_example_K2 :
  records_out_K2 (Some (1700000000, 0)%Z) (Some (1700000005, 0)%Z) 292
                 [(1700000005, 0); (0, 0); (1700000000, 0); (1700000005, 0); (1700000009, 0); (1700000000, 0)]%Z
  = WDone [584; 1460; 0; 876].
Proof. exact records_out_K2_example. Qed.
Print Assumptions C08_example_K2.

Example C08_example_K1_distinct :
  NoDup (map r_tv (filter (rec_keep None None) (index_recs 292 0 [(5, 0); (0, 0); (3, 1)]%Z)))
  /\ records_out_K1 None None 292 [(5, 0); (0, 0); (3, 1)]%Z = WDone [584; 0].
Proof. exact records_out_K1_distinct_example. Qed.
Print Assumptions C08_example_K1_distinct.

(* ================================================================== the printed text of a record *)
(* "Each printed line shows that record's own field values and nothing else."
   The model of FixedStruct::as_bytes writes, through a cursor into the printer's buffer, the
   sequence of items regenerated from the source of as_bytes for the record's layout.  For every
   layout of the table, every entry (bytes < 256) and every f32 formatter producing at most 64
   bytes it returns Ok with exactly: the concatenation, in the layout's order, of the texts of the
   items (literal labels and `value` texts), then "\n\0" — never truncated. *)
Theorem C08_as_bytes_is_render : forall f32txt n items e,
  In (n, items) fixedstruct_render -> (forall b, (length (f32txt b) <= 64)%nat) -> bytes_ok e ->
  as_bytes f32txt print_buffer_cap items as_bytes_tail e = ROk (render f32txt items as_bytes_tail e).
Proof. exact table_as_bytes_is_render. Qed.
Print Assumptions C08_as_bytes_is_render.

Example C08_as_bytes_example :
  In (s2b "Fs_Linux_x86_Utmpx", lx86_items) fixedstruct_render /\
  bytes_ok lx86_utmpx_full_user /\
  as_bytes f32_int_text print_buffer_cap lx86_items as_bytes_tail lx86_utmpx_full_user
  = ROk (render f32_int_text lx86_items as_bytes_tail lx86_utmpx_full_user).
Proof. exact as_bytes_example. Qed.
Print Assumptions C08_as_bytes_example.

Theorem C08_f32_int_text_len : forall b, (length (f32_int_text b) <= 64)%nat.
Proof. exact f32_int_text_len. Qed.
Print Assumptions C08_f32_int_text_len.

(* every item's text is a function of the bytes of its own field [off, off + width) of the entry *)
Theorem C08_item_text_local : forall f32txt it e1 e2,
  slice (fst (item_span it)) (snd (item_span it)) e1 = slice (fst (item_span it)) (snd (item_span it)) e2 ->
  item_text f32txt it e1 = item_text f32txt it e2.
Proof. exact item_text_local. Qed.
Print Assumptions C08_item_text_local.

(* ... and every printed field lies inside the entry; the table obligations (readable back, numbers
   never contain their stop byte, the longest line fits the buffer) hold for every row *)
Theorem C08_render_rows_ok : forallb render_row_ok fixedstruct_render = true.
Proof. exact render_rows_ok. Qed.
Print Assumptions C08_render_rows_ok.

Theorem C08_render_covers_layouts :
  forallb (fun l => match assoc (l_name l) fixedstruct_render with Some _ => true | None => false end)
          fixedstruct_layouts = true
  /\ length fixedstruct_render = length fixedstruct_layouts.
Proof. exact render_covers_layouts. Qed.
Print Assumptions C08_render_covers_layouts.

(* nothing from neighbouring records: the line of the record at [fo, fo + sz) depends on those
   bytes of the file only *)
Theorem C08_render_local : forall f32txt items tail fo sz file1 file2,
  slice fo sz file1 = slice fo sz file2 ->
  render f32txt items tail (slice fo sz file1) = render f32txt items tail (slice fo sz file2).
Proof. exact render_local. Qed.
Print Assumptions C08_render_local.

(* C strings: at most the field's width ... *)
Theorem C08_cstr_text_length : forall off w s e, (length (cstr_text off w s e) <= N.to_nat w)%nat.
Proof. exact cstr_text_length. Qed.
Print Assumptions C08_cstr_text_length.

(* ... a function of the field's bytes alone, whatever follows the field ... *)
Theorem C08_cstr_text_local : forall off w s e1 e2,
  slice off w e1 = slice off w e2 -> cstr_text off w s e1 = cstr_text off w s e2.
Proof. exact cstr_text_local. Qed.
Print Assumptions C08_cstr_text_local.

(* ... a field filled to its width (ut_user of exactly 32 bytes, ut_host of 256) is printed whole
   and does not run on into the next field ... *)
Theorem C08_cstr_text_full_width : forall off w s e,
  ~ In 0 (slice off w e) -> cstr_text off w s e = slice off w e.
Proof. exact cstr_text_full_width. Qed.
Print Assumptions C08_cstr_text_full_width.

(* ... and a field with a NUL is printed up to it *)
Theorem C08_cstr_text_until_nul : forall off w s e a b,
  slice off w e = a ++ 0 :: b -> ~ In 0 a -> cstr_text off w s e = a.
Proof. exact cstr_text_until_nul. Qed.
Print Assumptions C08_cstr_text_until_nul.

Example C08_full_width_user_example :
  render f32_int_text lx86_items as_bytes_tail lx86_utmpx_full_user
  = s2b "ut_type USER_PROCESS ut_pid 1000 ut_line 'pts/3' ut_id 'ts/3' ut_user 'firstname.lastname@corporate.org' ut_host 'gateway.corp.example' e_termination 0 e_exit 0 ut_session '3' ut_xtime 1700000000.5 ut_addr 0.0.0.0"
    ++ [10; 0]
  /\ items_clean f32_int_text lx86_items as_bytes_tail lx86_utmpx_full_user = true
  /\ length lx86_utmpx_full_user = 384%nat.
Proof. exact full_width_user_example. Qed.
Print Assumptions C08_full_width_user_example.

(* reading a line back: for every layout and every entry whose values are clean (no string or f32
   text contains the byte that follows it in the line: the quote, for sockaddr fields the quote or
   the newline) the parser returns the texts of all items in order ... *)
Theorem C08_parse_render : forall f32txt n items e,
  In (n, items) fixedstruct_render ->
  items_clean f32txt items as_bytes_tail e = true ->
  parse_items items as_bytes_tail (render f32txt items as_bytes_tail e) = Some (var_texts f32txt items e).
Proof. exact table_parse_render. Qed.
Print Assumptions C08_parse_render.

(* ... so two records with clean values that print the same line agree on the text of every shown
   field (contrapositive: records that differ in a shown field print different lines) ... *)
Theorem C08_render_injective : forall f32txt n items e1 e2,
  In (n, items) fixedstruct_render ->
  items_clean f32txt items as_bytes_tail e1 = true -> items_clean f32txt items as_bytes_tail e2 = true ->
  render f32txt items as_bytes_tail e1 = render f32txt items as_bytes_tail e2 ->
  forall it, In it items -> is_var it = true -> item_text f32txt it e1 = item_text f32txt it e2.
Proof. exact table_render_injective. Qed.
Print Assumptions C08_render_injective.

(* ... the text of an integer field determines the integer (numtoa is injective) ... *)
Theorem C08_num_text_value : forall f32txt off sz sg e,
  dec_signed_val (item_text f32txt (RNum off sz sg) e) = field_int off sz sg e.
Proof. exact num_text_value. Qed.
Print Assumptions C08_num_text_value.

(* ... and the cleanliness condition concerns the strings and the f32 text only: integers, type
   names, flag lists and addresses can always be read back *)
Theorem C08_clean_is_strings_clean : forall f32txt n items e,
  In (n, items) fixedstruct_render ->
  items_clean f32txt items as_bytes_tail e = strings_clean f32txt items as_bytes_tail e.
Proof. exact table_clean_is_strings_clean. Qed.
Print Assumptions C08_clean_is_strings_clean.

(* one record, one line: no newline inside a record's text unless one of its strings has one *)
Theorem C08_record_is_one_line : forall f32txt n items e,
  In (n, items) fixedstruct_render ->
  (forall it, In it items -> needs_value it = true -> memN 10 (item_text f32txt it e) = false) ->
  memN 10 (flat_map (fun it => item_text f32txt it e) items) = false.
Proof. exact table_record_is_one_line. Qed.
Print Assumptions C08_record_is_one_line.

(* recorded findings of the rendering, as witnesses *)
Theorem C08_ss_newline_refuted :
  length nb32_utmpx_ss = 516%nat /\
  memN 10 (flat_map (fun it => item_text f32_int_text it nb32_utmpx_ss) nb32_items) = true /\
  item_text f32_int_text (RCstr 336 128 false) nb32_utmpx_ss = [16; 2; 195; 80; 10].
Proof. exact ss_newline_refuted. Qed.
Print Assumptions C08_ss_newline_refuted.

(* regression statement about set_buffer_at_or_err_i8 as it was before commit b0611f28 (bytes >= 0x80
   of a c_char string printed as NUL); the current code prints the field's own bytes *)
Theorem C08_high_byte_printed_as_nul_refuted :
  exists off w e, cstr_text_old off w true e <> take_cstr (slice off w e)
                  /\ cstr_text_old off w true e = [106; 0; 0; 114; 103; 101; 110]
                  /\ take_cstr (slice off w e) = [106; 195; 188; 114; 103; 101; 110]
                  /\ cstr_text off w true e = [106; 195; 188; 114; 103; 101; 110].
Proof. exact high_byte_printed_as_nul_refuted. Qed.
Print Assumptions C08_high_byte_printed_as_nul_refuted.

Theorem C08_cstr_text_is_field_bytes : forall off w s e, cstr_text off w s e = take_cstr (slice off w e).
Proof. exact cstr_text_is_field_bytes. Qed.
Print Assumptions C08_cstr_text_is_field_bytes.

(* ================================================================== layout detection *)
(* score_file keeps the first candidate, in the order it meets them, that reaches the maximal
   positive high score: exact characterisation *)
Theorem C08_best_of_iff : forall l n s,
  best_of l None 0%Z = (Some n, s) <->
  exists l1 l2, l = l1 ++ (n, s) :: l2 /\ (0 < s)%Z /\
                Forall (fun x : bytes * Z => (snd x < s)%Z) l1 /\ Forall (fun x : bytes * Z => (snd x <= s)%Z) l2.
Proof. exact best_of_iff. Qed.
Print Assumptions C08_best_of_iff.

(* POSITIVE: a candidate whose high score is positive and strictly above every other candidate's
   is chosen under every iteration order *)
Theorem C08_score_file_order_independent : forall mem mx cands file l n s,
  cand_scores mem mx cands file = Some l -> NoDup (map fst l) ->
  In (n, s) l -> (0 < s)%Z -> (forall m t, In (m, t) l -> m <> n -> (t < s)%Z) ->
  forall cands', Permutation cands cands' -> score_file mem mx cands' file = Some (Some n, s).
Proof. exact score_file_order_independent. Qed.
Print Assumptions C08_score_file_order_independent.

(* ... in particular by the code as it is (candidates in ascending discriminant order) *)
Theorem C08_detect_unique_maximum : forall mem kind file l n s,
  cand_scores mem count_found_entries_max (candidate_set kind file) file = Some l ->
  NoDup (map fst l) -> In (n, s) l -> (0 < s)%Z -> (forall m t, In (m, t) l -> m <> n -> (t < s)%Z) ->
  detect mem kind file = Some (Some n, s).
Proof. exact detect_unique_maximum. Qed.
Print Assumptions C08_detect_unique_maximum.

(* ... and for the unambiguous sizes (no other layout's entry size divides the file size), closed
   reads and one plausible entry among the first COUNT_FOUND_ENTRIES_MAX convertible ones *)
Theorem C08_detect_alone_plausible : forall mem kind file n sz items b e,
  candidate_set kind file = [(n, sz, items, b)] ->
  Forall (fun e => items_closed items e = true) (chunks (length file) (N.to_nat sz) file) ->
  In e (take_conv count_found_entries_max (chunks (length file) (N.to_nat sz) file)) ->
  plausible items e = true -> existsb is_time items = true ->
  exists h, detect mem kind file = Some (Some n, h) /\ (20 <= h)%Z.
Proof. exact detect_alone_plausible. Qed.
Print Assumptions C08_detect_alone_plausible.

Example C08_detect_alone_plausible_example :
  candidate_set 2 lx86_lastlog_rec = [(s2b "Fs_Linux_x86_Lastlog", 292, items_of "Fs_Linux_x86_Lastlog", 15%Z)] /\
  forallb (items_closed (items_of "Fs_Linux_x86_Lastlog")) (chunks (length lx86_lastlog_rec) 292 lx86_lastlog_rec) = true /\
  take_conv count_found_entries_max (chunks (length lx86_lastlog_rec) 292 lx86_lastlog_rec) = [lx86_lastlog_rec] /\
  plausible (items_of "Fs_Linux_x86_Lastlog") lx86_lastlog_rec = true /\
  existsb is_time (items_of "Fs_Linux_x86_Lastlog") = true /\
  detect no_mem 2 lx86_lastlog_rec = Some (Some (s2b "Fs_Linux_x86_Lastlog"), 77%Z).
Proof. exact detect_alone_plausible_example. Qed.
Print Assumptions C08_detect_alone_plausible_example.

Example C08_detect_unique_maximum_example :
  detect no_mem 5 ok_file = Some (Some (s2b "Fs_Netbsd_x8664_Utmpx"), 122%Z).
Proof. exact detect_unique_maximum_example. Qed.
Print Assumptions C08_detect_unique_maximum_example.

(* REFUTED in general: with two candidates tied at the maximal score each of them is chosen under
   some iteration order — the result is not a function of the candidate set (with the HashMap of
   the code before commit a9566a30: not a function of the file) *)
Theorem C08_score_file_tie_order_dependent : forall mem mx cands file l n1 n2 s,
  cand_scores mem mx cands file = Some l ->
  In (n1, s) l -> In (n2, s) l -> n1 <> n2 -> (0 < s)%Z -> (forall x, In x l -> (snd x <= s)%Z) ->
  exists cands1 cands2, Permutation cands cands1 /\ Permutation cands cands2 /\
    score_file mem mx cands1 file = Some (Some n1, s) /\ score_file mem mx cands2 file = Some (Some n2, s).
Proof. exact score_file_tie_order_dependent. Qed.
Print Assumptions C08_score_file_tie_order_dependent.

(* the confusable class: a layout is displaced only by a candidate whose high score ties or exceeds
   its own, and a layout is a candidate exactly when its entry size divides the file size *)
Theorem C08_score_file_displaced : forall mem mx cands file l n s n' s',
  cand_scores mem mx cands file = Some l -> In (n, s) l ->
  score_file mem mx cands file = Some (Some n', s') -> n' <> n ->
  In (n', s') l /\ (s <= s')%Z /\ (0 < s')%Z.
Proof. exact score_file_displaced. Qed.
Print Assumptions C08_score_file_displaced.

Theorem C08_filesz_candidates_sound : forall layouts bonus_tbl try_all score_tbl bonus kind filesz n sz items b,
  In (n, sz, items, b) (filesz_candidates layouts bonus_tbl try_all score_tbl bonus kind filesz) ->
  filesz <> 0 /\ 0 < sz /\ filesz mod sz = 0 /\ In n try_all /\
  find_size n layouts = Some sz /\ assoc n score_tbl = Some items /\
  b = (if has_bonus kind n bonus_tbl then bonus else 0%Z).
Proof. exact filesz_candidates_sound. Qed.
Print Assumptions C08_filesz_candidates_sound.

Theorem C08_filesz_candidates_complete : forall layouts bonus_tbl try_all score_tbl bonus kind filesz n sz items,
  filesz <> 0 -> In n try_all -> find_size n layouts = Some sz -> assoc n score_tbl = Some items ->
  0 < sz -> filesz mod sz = 0 ->
  In (n, sz, items, if has_bonus kind n bonus_tbl then bonus else 0%Z)
     (filesz_candidates layouts bonus_tbl try_all score_tbl bonus kind filesz).
Proof. exact filesz_candidates_complete. Qed.
Print Assumptions C08_filesz_candidates_complete.

Theorem C08_candidate_seq_perm : forall kind file, Permutation (candidate_set kind file) (candidate_seq kind file).
Proof. exact candidate_seq_perm. Qed.
Print Assumptions C08_candidate_seq_perm.

(* recorded findings of the detection, as witnesses over the regenerated tables *)
Theorem C08_layout_score_tie_refuted :
  plausible (items_of "Fs_Netbsd_x8664_Utmpx") nb64_utmpx_rec = true /\
  cand_scores no_mem count_found_entries_max (candidate_seq 5 tie_file) tie_file
  = Some [(s2b "Fs_Netbsd_x8632_Utmpx", 122%Z); (s2b "Fs_Netbsd_x8664_Utmp", 0%Z); (s2b "Fs_Netbsd_x8664_Utmpx", 122%Z)] /\
  detect no_mem 5 tie_file = Some (Some (s2b "Fs_Netbsd_x8632_Utmpx"), 122%Z) /\
  score_file no_mem count_found_entries_max (rev (candidate_seq 5 tie_file)) tie_file
  = Some (Some (s2b "Fs_Netbsd_x8664_Utmpx"), 122%Z).
Proof. exact layout_score_tie_refuted. Qed.
Print Assumptions C08_layout_score_tie_refuted.

Theorem C08_lastlog_read_as_utmp_refuted :
  plausible (items_of "Fs_Netbsd_x8664_Lastlog") nb64_lastlog_rec = true /\
  forall cands', Permutation (candidate_set 2 ll_file) cands' ->
    score_file no_mem count_found_entries_max cands' ll_file = Some (Some (s2b "Fs_Netbsd_x8664_Utmp"), 71%Z).
Proof. exact lastlog_read_as_utmp_refuted. Qed.
Print Assumptions C08_lastlog_read_as_utmp_refuted.

(* the score of an entry is a function of the entry alone exactly when every scored string has a
   NUL before the end of the struct (the CStr accessors read to the first NUL in memory) *)
Theorem C08_score_entry_closed : forall items bonus e,
  items_closed items e = true ->
  (forall after, score_entry after items bonus e = score_entry [] items bonus e)
  /\ score_entry [] items bonus e <> None.
Proof. exact score_entry_closed. Qed.
Print Assumptions C08_score_entry_closed.

Theorem C08_score_entry_open_depends_on_memory : forall items bonus e,
  items_closed items e = false ->
  exists after1 after2 s1 s2,
    score_entry after1 items bonus e = Some s1 /\ score_entry after2 items bonus e = Some s2 /\ s1 <> s2.
Proof. exact score_entry_open_depends_on_memory. Qed.
Print Assumptions C08_score_entry_open_depends_on_memory.

Theorem C08_score_entry_none_iff : forall items bonus e,
  score_entry [] items bonus e = None <-> items_closed items e = false.
Proof. exact score_entry_none_iff. Qed.
Print Assumptions C08_score_entry_none_iff.

Theorem C08_score_reads_past_struct_end_refuted :
  items_closed (items_of "Fs_Linux_x86_Lastlog") lx86_lastlog_full = false /\
  score_entry [0] (items_of "Fs_Linux_x86_Lastlog") 15 lx86_lastlog_full = Some 549%Z /\
  score_entry [65; 0] (items_of "Fs_Linux_x86_Lastlog") 15 lx86_lastlog_full = Some 551%Z.
Proof. exact score_reads_past_struct_end_refuted. Qed.
Print Assumptions C08_score_reads_past_struct_end_refuted.

(* the plausibility the scoring rewards: printable strings without data after their NUL, NUL
   terminated where checked, zero padding, a valid type / flags, a time within [2000, 2038]: such
   an entry scores at least 20 + bonus, whatever lies behind the allocation ... *)
Theorem C08_plausible_score_entry : forall items bonus e,
  plausible items e = true -> existsb is_time items = true ->
  forall aft, exists s, score_entry aft items bonus e = Some s /\ (20 <= s)%Z /\ (20 + bonus <= s)%Z.
Proof. exact plausible_score_entry. Qed.
Print Assumptions C08_plausible_score_entry.

(* ... the high score of a candidate whose reads stay inside the struct is the maximum of 0 and the
   scores of the first COUNT_FOUND_ENTRIES_MAX convertible entries ... *)
Theorem C08_type_high_closed : forall mem mx size items bonus file,
  Forall (fun e => items_closed items e = true) (chunks (length file) (N.to_nat size) file) ->
  type_high mem mx size items bonus file
  = Some (fold_left Z.max (map (sc items bonus) (take_conv mx (chunks (length file) (N.to_nat size) file))) 0%Z).
Proof. exact type_high_closed. Qed.
Print Assumptions C08_type_high_closed.

(* ... so the layout a file was written in, with one plausible entry among them, has a positive
   high score *)
Theorem C08_type_high_plausible : forall mem mx size items bonus file e,
  Forall (fun e => items_closed items e = true) (chunks (length file) (N.to_nat size) file) ->
  In e (take_conv mx (chunks (length file) (N.to_nat size) file)) ->
  plausible items e = true -> existsb is_time items = true ->
  exists h, type_high mem mx size items bonus file = Some h /\ (20 <= h)%Z /\ (20 + bonus <= h)%Z.
Proof. exact type_high_plausible. Qed.
Print Assumptions C08_type_high_plausible.

(* table obligations of the detection *)
Theorem C08_filesz_guard_consts_are_sizes :
  forallb (fun gt => match assoc (fst gt) filesz_guard_consts, find_size (snd gt) fixedstruct_layouts with
                     | Some a, Some b => a =? b
                     | _, _ => false
                     end) filesz_guards = true.
Proof. exact filesz_guard_consts_are_sizes. Qed.
Print Assumptions C08_filesz_guard_consts_are_sizes.

Theorem C08_score_rows_ok : forallb score_row_ok fixedstruct_score = true.
Proof. exact score_rows_ok. Qed.
Print Assumptions C08_score_rows_ok.

Theorem C08_score_covers_layouts :
  forallb (fun l => match assoc (l_name l) fixedstruct_score with Some _ => true | None => false end)
          fixedstruct_layouts = true
  /\ length fixedstruct_score = length fixedstruct_layouts.
Proof. exact score_covers_layouts. Qed.
Print Assumptions C08_score_covers_layouts.

Theorem C08_candidate_order_is_the_layouts :
  nodupb candidate_order = true /\ forallb (fun l => memb (l_name l) candidate_order) fixedstruct_layouts = true
  /\ length candidate_order = length fixedstruct_layouts.
Proof. exact candidate_order_is_the_layouts. Qed.
Print Assumptions C08_candidate_order_is_the_layouts.
