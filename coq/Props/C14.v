(* Props/C14.v — property C14: statements only; every proof is `exact <lemma>`. *)
From Coq Require Import ZArith.
From S4.Model Require Import Calendar.
From S4.Spec Require Import CalendarSpec.
From S4.Proofs Require Import CalendarProofs.
Open Scope Z_scope.

Theorem C14_days_from_civil_is_definitional_count :
  forall y m d, 0 <= y -> 1 <= m <= 12 -> days_from_civil y m d = spec_days y m d.
Proof. exact days_from_civil_spec. Qed.
Print Assumptions C14_days_from_civil_is_definitional_count.
