(* Props/C14.v — property C14 (datetime-filter arguments resolve to the documented instant):
   statements only; every proof is `exact <lemma>`; Print Assumptions after each. *)
From Coq Require Import String ZArith.
From S4.Base Require Import Bytes.
From S4.Model Require Import Calendar CliDt.
From S4.Gen Require Import CliDtTables.
From S4.Spec Require Import CalendarSpec CliDtRef CliDtSpec.
From S4.Proofs Require Import CalendarProofs CliDtSpecProofs CliDtAbsInfra CliDtAbsProofs CliDtMiscProofs.
Open Scope Z_scope.

(* ---- calendar: the era-based arithmetic of the model is the definitional day count, every year >= 0 *)
Theorem C14_days_from_civil_is_definitional_count :
  forall y m d, 0 <= y -> 1 <= m <= 12 -> days_from_civil y m d = spec_days y m d.
Proof. exact days_from_civil_spec. Qed.
Print Assumptions C14_days_from_civil_is_definitional_count.

Theorem C14_spec_evaluated_fast_is_spec :
  forall fa fb tz now, spec_bounds_fast fa fb tz now = spec_bounds fa fb tz now.
Proof. exact spec_bounds_fast_eq. Qed.
Print Assumptions C14_spec_evaluated_fast_is_spec.

(* ---- regenerated tables *)
Theorem C14_zone_table_is_reference : tz_table_s = ref_tz_table.
Proof. exact tz_table_matches_reference. Qed.
Print Assumptions C14_zone_table_is_reference.

Theorem C14_relative_expression_anchored : dur_anchor_start = true /\ dur_anchor_end = true.
Proof. exact dur_expression_anchored. Qed.
Print Assumptions C14_relative_expression_anchored.

Theorem C14_epoch_read_as_utc : epoch_utc = true.
Proof. exact epoch_read_as_utc. Qed.
Print Assumptions C14_epoch_read_as_utc.

(* ---- absolute forms: for ALL field values of the documented grammar *)
Theorem C14_datetime_numeric_resolves :
  forall l y m d h mi s fr z tz,
    numeric_zone z ->
    form_ok (FDateTime l y m d h mi s fr z) = true ->
    m_resolve_abs (classify (render (FDateTime l y m d h mi s fr z))) tz
    = denote (FDateTime l y m d h mi s fr z) tz 0 None.
Proof. exact abs_datetime_numeric_resolves. Qed.
Print Assumptions C14_datetime_numeric_resolves.

Theorem C14_bare_date_is_midnight_in_tz :
  forall l y m d tz,
    form_ok (FDate l y m d) = true ->
    m_resolve_abs (classify (render (FDate l y m d))) tz = denote (FDate l y m d) tz 0 None.
Proof. exact abs_date_resolves. Qed.
Print Assumptions C14_bare_date_is_midnight_in_tz.

Theorem C14_named_zone_PST_partial :
  forall l y m d h mi s fr sp tz,
    form_ok (FDateTime l y m d h mi s fr (ZoneName sp "PST")) = true ->
    m_resolve_abs (classify (render (FDateTime l y m d h mi s fr (ZoneName sp "PST")))) tz
    = denote (FDateTime l y m d h mi s fr (ZoneName sp "PST")) tz 0 None.
Proof. exact abs_named_PST_partial. Qed.
Print Assumptions C14_named_zone_PST_partial.

Theorem C14_named_zone_all_names_fixed_fields_partial :
  forallb (fun name =>
    forallb (fun l =>
      match m_resolve_abs (classify (render (named_form l name))) 19800,
            denote_with spec_days_fast (named_form l name) 19800 0 None with
      | Some a, Some b => a =? b
      | _, _ => false
      end) [LCompact; LDashSpace; LDashT; LSlash]) (names_with false) = true.
Proof. exact named_all_names_fixed_fields. Qed.
Print Assumptions C14_named_zone_all_names_fixed_fields_partial.

Theorem C14_plus_epoch_is_utc_partial :
  forallb (fun tz => match m_resolve (cs "+1987184272") tz None 0 with
                     | Some v => v =? 1987184272 * NS | None => false end)
          [0; 19800; -12600; 50400; -43200; 3600] = true.
Proof. exact plus_epoch_is_utc. Qed.
Print Assumptions C14_plus_epoch_is_utc_partial.

(* the code before the fix (epoch read in the --tz-offset zone): refuted *)
Theorem C14_plus_epoch_refuted_before_fix :
  resolve_with dur_anchor_start dur_anchor_end false (cs "+1987184272") 19800 None 0
  = Some (1987164472 * NS).
Proof. exact plus_epoch_refuted_before_fix. Qed.
Print Assumptions C14_plus_epoch_refuted_before_fix.

(* ---- relative forms *)
Theorem C14_relative_examples_partial :
  m_resolve (cs "-1w22h") 19800 None 1700000000 = Some ((1700000000 - (604800 + 22 * 3600)) * NS)
  /\ m_resolve (cs "+30s") (-12600) None 1700000000 = Some ((1700000000 + 30) * NS)
  /\ m_resolve (cs "+1w2d3h4m5s") 0 None 1700000000 = Some ((1700000000 + (604800 + 2 * 86400 + 3 * 3600 + 4 * 60 + 5)) * NS)
  /\ m_resolve (cs "-5s4m3h2d1w") 0 None 1700000000 = Some ((1700000000 - (604800 + 2 * 86400 + 3 * 3600 + 4 * 60 + 5)) * NS)
  /\ m_resolve (cs "-0012d00345m") 3600 None 1700000000 = Some ((1700000000 - (12 * 86400 + 345 * 60)) * NS)
  /\ m_resolve (cs "@+90m") 3600 (Some 123456789) 1700000000 = Some (123456789 + 5400 * NS)
  /\ m_resolve (cs "@-1d") 3600 None 1700000000 = None.
Proof. exact relative_examples_partial. Qed.
Print Assumptions C14_relative_examples_partial.

Theorem C14_at_relative :
  forall a rel tz now x d,
    is_other (m_wdhms a) = false -> is_exit (m_wdhms a) = false ->
    m_wdhms rel = DurOk d true ->
    m_resolve a tz None now = Some x ->
    resolve_abs cli_rows append_value append_pattern tz_table epoch_utc rel tz = None ->
    0 <= d -> TS_MIN * NS <= x + d * NS <= TS_MAX * NS + (NS - 1) ->
    CliDtMiscProofs.m_bounds (Some a) (Some rel) tz now = Some (Some x, Some (x + d * NS)).
Proof. exact at_relative_before. Qed.
Print Assumptions C14_at_relative.

Theorem C14_at_relative_help_examples :
  CliDtMiscProofs.m_bounds (Some (cs "20220102")) (Some (cs "@+1d")) (-12600) 1700000000
  = CliDtMiscProofs.m_bounds (Some (cs "20220102")) (Some (cs "20220103")) (-12600) 1700000000
  /\ CliDtMiscProofs.m_bounds (Some (cs "@-6h")) (Some (cs "20220101T120000")) 19800 1700000000
     = CliDtMiscProofs.m_bounds (Some (cs "20220101T060000")) (Some (cs "20220101T120000")) 19800 1700000000
  /\ CliDtMiscProofs.m_bounds (Some (cs "20220102")) (Some (cs "@+1d")) 0 1700000000
     = Some (Some (1641081600 * NS), Some ((1641081600 + 86400) * NS)).
Proof. exact at_relative_help_example. Qed.
Print Assumptions C14_at_relative_help_examples.

Theorem C14_at_relative_keeps_fraction_examples :
  CliDtMiscProofs.m_bounds (Some (cs "2020-01-02T03:04:05.678")) (Some (cs "@+1s")) 0 1700000000
  = Some (Some 1577934245678000000, Some 1577934246678000000)
  /\ CliDtMiscProofs.m_bounds (Some (cs "2020-01-02T03:04:05.678")) (Some (cs "@+0s")) 0 1700000000
     = Some (Some 1577934245678000000, Some 1577934245678000000)
  /\ CliDtMiscProofs.m_bounds (Some (cs "2020-01-02T03:04:05.999999")) (Some (cs "@+90s")) 0 1700000000
     = Some (Some 1577934245999999000, Some 1577934335999999000)
  /\ CliDtMiscProofs.m_bounds (Some (cs "@-2s")) (Some (cs "2020-01-02 03:04:05.500 +05:30")) 0 1700000000
     = Some (Some 1577914443500000000, Some 1577914445500000000)
  /\ CliDtMiscProofs.m_bounds (Some (cs "@-1h2m3s")) (Some (cs "20200102T030405.001")) (-12600) 1700000000
     = CliDtMiscProofs.m_bounds (Some (cs "20200102T020202.001")) (Some (cs "20200102T030405.001")) (-12600) 1700000000.
Proof. exact at_relative_keeps_fraction. Qed.
Print Assumptions C14_at_relative_keeps_fraction_examples.

Theorem C14_spec_at_relative :
  forall f items tz now x,
    is_at (Some f) = false -> denote f tz now None = Some x ->
    spec_bounds (Some f) (Some (FRel true false items)) tz now
    = if x + rel_sum items * NSs <? x then None else Some (Some x, Some (x + rel_sum items * NSs)).
Proof. exact spec_at_relative. Qed.
Print Assumptions C14_spec_at_relative.

(* ---- rejections *)
Theorem C14_both_at_rejected :
  forall a b tz now,
    is_other (m_wdhms a) = true -> is_other (m_wdhms b) = true ->
    CliDtMiscProofs.m_bounds (Some a) (Some b) tz now = None.
Proof. exact both_at_rejected. Qed.
Print Assumptions C14_both_at_rejected.

Theorem C14_after_gt_before_rejected :
  forall a b tz now x y, CliDtMiscProofs.m_bounds a b tz now = Some (Some x, Some y) -> x <= y.
Proof. exact after_not_after_before. Qed.
Print Assumptions C14_after_gt_before_rejected.

Theorem C14_ambiguous_zone_names_rejected :
  forallb (fun name =>
    forallb (fun l =>
      match m_resolve (classify (render (named_form l name))) 19800 None 1700000000 with
      | Some _ => false | None => true end) [LCompact; LDashSpace; LDashT; LSlash]) (names_with true) = true.
Proof. exact ambiguous_names_rejected. Qed.
Print Assumptions C14_ambiguous_zone_names_rejected.

(* near-miss strings (F4).  Universal at the level of the matcher for a foreign or digit first
   character; the full statement "every near-miss string resolves to None" is proved only for
   the witnesses (_partial) and sampled by runs B and C. *)
Theorem C14_anchored_matcher_rejects_foreign_first_char :
  forall c rest a_e, c <> 64%N -> c <> 43%N -> c <> 45%N -> m_search true a_e (Ch c :: rest) = None.
Proof. exact anchored_rejects_foreign_first_char. Qed.
Print Assumptions C14_anchored_matcher_rejects_foreign_first_char.

Theorem C14_near_miss_witnesses_rejected_partial :
  forallb (fun s => match m_resolve (cs s) 0 None 1700000000 with
                    | Some _ => false | None => true end) near_miss_witnesses = true.
Proof. exact near_miss_witnesses_rejected. Qed.
Print Assumptions C14_near_miss_witnesses_rejected_partial.

(* the code before the fix (unanchored expression) accepted every witness: refuted *)
Theorem C14_near_miss_refuted_before_fix :
  forallb (fun s => match resolve_with false false epoch_utc (cs s) 0 None 1700000000 with
                    | Some _ => true | None => false end) near_miss_witnesses = true.
Proof. exact near_miss_refuted_before_fix. Qed.
Print Assumptions C14_near_miss_refuted_before_fix.
