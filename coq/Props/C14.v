(* Props/C14.v — property C14 (datetime-filter arguments resolve to the documented instant):
   statements only; every proof is `exact <lemma>`; Print Assumptions after each. *)
From Coq Require Import String ZArith.
From S4.Base Require Import Bytes.
From S4.Model Require Import Calendar CliDt.
From S4.Gen Require Import CliDtTables.
From S4.Spec Require Import CalendarSpec CliDtRef CliDtSpec.
From S4.Proofs Require Import CalendarProofs CliDtSpecProofs CliDtAbsInfra CliDtAbsProofs CliDtMiscProofs.
From S4.Proofs Require Import CliDtScanLemmas CliDtUniversal CliDtNamedInfra CliDtNamed CliDtLanguage.
Open Scope string_scope.
Open Scope Z_scope.

(* ---- calendar: the era-based arithmetic of the model is the definitional day count, every year >= 0 *)
Theorem C14_days_from_civil_is_definitional_count :
  forall y m d, 0 <= y -> 1 <= m <= 12 -> days_from_civil y m d = spec_days y m d.
Proof. exact days_from_civil_spec. Qed.
Print Assumptions C14_days_from_civil_is_definitional_count.

Theorem C14_spec_evaluated_fast_is_spec :
  forall fa fb tz now, spec_bounds_fast fa fb tz now = spec_bounds fa fb tz now.
Proof. exact spec_bounds_fast_eq. Qed.
Print Assumptions C14_spec_evaluated_fast_is_spec.

(* ---- regenerated tables *)
Theorem C14_zone_table_is_reference : tz_table_s = ref_tz_table.
Proof. exact tz_table_matches_reference. Qed.
Print Assumptions C14_zone_table_is_reference.

Theorem C14_relative_expression_anchored : dur_anchor_start = true /\ dur_anchor_end = true.
Proof. exact dur_expression_anchored. Qed.
Print Assumptions C14_relative_expression_anchored.

Theorem C14_epoch_read_as_utc : epoch_utc = true.
Proof. exact epoch_read_as_utc. Qed.
Print Assumptions C14_epoch_read_as_utc.

(* ---- absolute forms: for ALL field values of the documented grammar *)
Theorem C14_datetime_numeric_resolves :
  forall l y m d h mi s fr z tz,
    numeric_zone z ->
    form_ok (FDateTime l y m d h mi s fr z) = true ->
    m_resolve_abs (classify (render (FDateTime l y m d h mi s fr z))) tz
    = denote (FDateTime l y m d h mi s fr z) tz 0 None.
Proof. exact abs_datetime_numeric_resolves. Qed.
Print Assumptions C14_datetime_numeric_resolves.

Theorem C14_bare_date_is_midnight_in_tz :
  forall l y m d tz,
    form_ok (FDate l y m d) = true ->
    m_resolve_abs (classify (render (FDate l y m d))) tz = denote (FDate l y m d) tz 0 None.
Proof. exact abs_date_resolves. Qed.
Print Assumptions C14_bare_date_is_midnight_in_tz.

(* named zones: EVERY unambiguous name of the regenerated table (= the reference table), every layout,
   fraction, documented spacing and every field value *)
Theorem C14_named_zone_universal :
  forall name l y m d h mi s fr sp tz,
    In name (names_with false) ->
    form_ok (FDateTime l y m d h mi s fr (ZoneName sp name)) = true ->
    m_resolve_abs (classify (render (FDateTime l y m d h mi s fr (ZoneName sp name)))) tz
    = denote (FDateTime l y m d h mi s fr (ZoneName sp name)) tz 0 None.
Proof. exact abs_named_universal. Qed.
Print Assumptions C14_named_zone_universal.

Example C14_named_zone_universal_satisfiable :
  In "NPT" (names_with false)
  /\ form_ok (FDateTime LSlash 2024 2 29 23 59 59 (FMicro 999999) (ZoneName true "NPT")) = true
  /\ In "chast" (names_with false).
Proof. exact named_universal_satisfiable. Qed.
Print Assumptions C14_named_zone_universal_satisfiable.

(* the zone table entry by entry: letters only, first occurrence, value "" or sign HH:MM within a
   day with minutes < 60, equal to the reference value *)
Theorem C14_zone_table_entries_ok : forallb entry_ok ref_tz_table = true.
Proof. exact table_entries_ok. Qed.
Print Assumptions C14_zone_table_entries_ok.

(* "+epoch": EVERY non-empty digit string (any length, leading zeros); UTC whatever --tz-offset, the
   other bound and the clock; accepted exactly up to chrono's last second (+262142-12-31T23:59:59Z) *)
Theorem C14_plus_epoch_universal :
  forall ds tz other now,
    digits_ok ds = true ->
    m_resolve (classify (render (FEpoch ds))) tz other now
    = if dval ds <=? TS_MAX then Some (dval ds * NS) else None.
Proof. exact plus_epoch_universal. Qed.
Print Assumptions C14_plus_epoch_universal.

Theorem C14_plus_epoch_is_documented_instant :
  forall ds tz other now,
    digits_ok ds = true -> dval ds <= TS_MAX ->
    m_resolve (classify (render (FEpoch ds))) tz other now = denote (FEpoch ds) tz now other.
Proof. exact plus_epoch_is_denoted. Qed.
Print Assumptions C14_plus_epoch_is_documented_instant.

Example C14_plus_epoch_hyps_satisfiable :
  digits_ok [0;0;1;7]%N = true /\ dval [0;0;1;7]%N <= TS_MAX
  /\ digits_ok [8;2;1;0;2;6;6;8;7;6;8;0;0]%N = true /\ ~ dval [8;2;1;0;2;6;6;8;7;6;8;0;0]%N <= TS_MAX.
Proof. exact plus_epoch_hyps_satisfiable. Qed.
Print Assumptions C14_plus_epoch_hyps_satisfiable.

(* the code before the fix (epoch read in the --tz-offset zone): refuted *)
Theorem C14_plus_epoch_refuted_before_fix :
  resolve_with dur_anchor_start dur_anchor_end false (cs "+1987184272") 19800 None 0
  = Some (1987164472 * NS).
Proof. exact plus_epoch_refuted_before_fix. Qed.
Print Assumptions C14_plus_epoch_refuted_before_fix.

(* ---- relative forms: EVERY non-empty sequence of (count, unit) items, any order and multiplicity,
   both signs, with and without '@' *)
(* string_wdhms_to_duration on the rendered text, with the exact guards: a count above i64::MAX exits;
   count*unit above TimeDelta::MAX seconds, or the sum above TimeDelta::MAX, is "not parseable";
   a unit that occurs several times keeps its LAST count (eff) *)
Theorem C14_relative_duration_universal :
  forall at_ neg items,
    items <> [] -> Forall item_ne items ->
    m_wdhms (rel_arg at_ neg items) = rel_dur at_ neg items.
Proof. exact wdhms_rendered. Qed.
Print Assumptions C14_relative_duration_universal.

Theorem C14_relative_universal :
  forall at_ neg items tz other now,
    items <> [] -> Forall item_ne items ->
    m_resolve (rel_arg at_ neg items) tz other now = rel_value (rel_dur at_ neg items) other now.
Proof. exact relative_universal. Qed.
Print Assumptions C14_relative_universal.

Theorem C14_relative_text_is_rendering :
  forall at_ neg items, Forall item_ok items -> classify (render (FRel at_ neg items)) = rel_arg at_ neg items.
Proof. exact classify_render_rel. Qed.
Print Assumptions C14_relative_text_is_rendering.

(* the documented forms (each unit at most once, sum within the bound the spec speaks about):
   now (whole seconds) or the other bound, plus/minus the sum of the units *)
Theorem C14_relative_documented :
  forall at_ neg items tz other now,
    form_ok (FRel at_ neg items) = true ->
    TS_MIN + DUR_BOUND <= now <= TS_MAX - DUR_BOUND ->
    (forall o, other = Some o -> TS_MIN * NS + DUR_BOUND * NS <= o <= TS_MAX * NS - DUR_BOUND * NS) ->
    m_resolve (classify (render (FRel at_ neg items))) tz other now = denote (FRel at_ neg items) tz now other.
Proof. exact relative_documented. Qed.
Print Assumptions C14_relative_documented.

Example C14_relative_documented_satisfiable :
  form_ok (FRel true true [([1;2]%N, UD); ([0;3;4;5]%N, UM)]) = true
  /\ TS_MIN + DUR_BOUND <= 1700000000 <= TS_MAX - DUR_BOUND.
Proof. exact relative_documented_satisfiable. Qed.
Print Assumptions C14_relative_documented_satisfiable.

Theorem C14_units_once_sum :
  forall items, units_distinct items = true -> unit_total items = rel_sum items.
Proof. exact unit_total_distinct. Qed.
Print Assumptions C14_units_once_sum.

Example C14_repeated_units_last_wins :
  m_resolve (cs "+1d2d") 0 None 1700000000 = Some ((1700000000 + 2 * 86400) * NS)
  /\ rel_dur false false [([1]%N, UD); ([2]%N, UD)] = DurOk (2 * 86400) false
  /\ m_resolve (cs "-6w5w4w") 0 None 1700000000 = Some ((1700000000 - 4 * 604800) * NS)
  /\ m_resolve (cs "+1d1h1d") 0 None 1700000000 = Some ((1700000000 + 86400 + 3600) * NS).
Proof. exact repeated_units_last_wins. Qed.
Print Assumptions C14_repeated_units_last_wins.

Example C14_relative_guards_on_the_boundary :
  rel_dur false false [([9;2;2;3;3;7;2;0;3;6;8;5;4;7;7;5]%N, US)] = DurOk 9223372036854775 false
  /\ rel_dur false false [([9;2;2;3;3;7;2;0;3;6;8;5;4;7;7;6]%N, US)] = DurNone
  /\ rel_dur false false [([9;2;2;3;3;7;2;0;3;6;8;5;4;7;7;5;8;0;8]%N, US)] = DurExit
  /\ rel_dur false true [([9;2;2;3;3;7;2;0;3;6;8;5;4;7;7;5]%N, US); ([1]%N, UM)] = DurNone
  /\ rel_dur true false [([1;5;2;5;0;2;8;4;4;5;2]%N, UW)] = DurOk (15250284452 * 604800) true
  /\ rel_dur true false [([1;5;2;5;0;2;8;4;4;5;3]%N, UW)] = DurNone.
Proof. exact relative_guards. Qed.
Print Assumptions C14_relative_guards_on_the_boundary.

(* the code before the repair (the five TimeDelta values added with `+`): the sum overflow panicked *)
Theorem C14_sum_overflow_panic_refuted_before_fix :
  wdhms_gen dur_at dur_plus dur_minus dur_units dur_anchor_start dur_anchor_end true (cs "+9223372036854775s1m") = DurExit
  /\ m_wdhms (cs "+9223372036854775s1m") = DurNone
  /\ rel_dur_gen true false false [([9;2;2;3;3;7;2;0;3;6;8;5;4;7;7;5]%N, US); ([1]%N, UM)] = DurExit.
Proof. exact sum_overflow_before_fix. Qed.
Print Assumptions C14_sum_overflow_panic_refuted_before_fix.

Theorem C14_at_relative :
  forall a rel tz now x d,
    is_other (m_wdhms a) = false -> is_exit (m_wdhms a) = false ->
    m_wdhms rel = DurOk d true ->
    m_resolve a tz None now = Some x ->
    resolve_abs cli_rows append_value append_pattern tz_table epoch_utc rel tz = None ->
    0 <= d -> TS_MIN * NS <= x + d * NS <= TS_MAX * NS + (NS - 1) ->
    CliDtMiscProofs.m_bounds (Some a) (Some rel) tz now = Some (Some x, Some (x + d * NS)).
Proof. exact at_relative_before. Qed.
Print Assumptions C14_at_relative.

Theorem C14_at_relative_help_examples :
  CliDtMiscProofs.m_bounds (Some (cs "20220102")) (Some (cs "@+1d")) (-12600) 1700000000
  = CliDtMiscProofs.m_bounds (Some (cs "20220102")) (Some (cs "20220103")) (-12600) 1700000000
  /\ CliDtMiscProofs.m_bounds (Some (cs "@-6h")) (Some (cs "20220101T120000")) 19800 1700000000
     = CliDtMiscProofs.m_bounds (Some (cs "20220101T060000")) (Some (cs "20220101T120000")) 19800 1700000000
  /\ CliDtMiscProofs.m_bounds (Some (cs "20220102")) (Some (cs "@+1d")) 0 1700000000
     = Some (Some (1641081600 * NS), Some ((1641081600 + 86400) * NS)).
Proof. exact at_relative_help_example. Qed.
Print Assumptions C14_at_relative_help_examples.

Theorem C14_at_relative_keeps_fraction_examples :
  CliDtMiscProofs.m_bounds (Some (cs "2020-01-02T03:04:05.678")) (Some (cs "@+1s")) 0 1700000000
  = Some (Some 1577934245678000000, Some 1577934246678000000)
  /\ CliDtMiscProofs.m_bounds (Some (cs "2020-01-02T03:04:05.678")) (Some (cs "@+0s")) 0 1700000000
     = Some (Some 1577934245678000000, Some 1577934245678000000)
  /\ CliDtMiscProofs.m_bounds (Some (cs "2020-01-02T03:04:05.999999")) (Some (cs "@+90s")) 0 1700000000
     = Some (Some 1577934245999999000, Some 1577934335999999000)
  /\ CliDtMiscProofs.m_bounds (Some (cs "@-2s")) (Some (cs "2020-01-02 03:04:05.500 +05:30")) 0 1700000000
     = Some (Some 1577914443500000000, Some 1577914445500000000)
  /\ CliDtMiscProofs.m_bounds (Some (cs "@-1h2m3s")) (Some (cs "20200102T030405.001")) (-12600) 1700000000
     = CliDtMiscProofs.m_bounds (Some (cs "20200102T020202.001")) (Some (cs "20200102T030405.001")) (-12600) 1700000000.
Proof. exact at_relative_keeps_fraction. Qed.
Print Assumptions C14_at_relative_keeps_fraction_examples.

Theorem C14_spec_at_relative :
  forall f items tz now x,
    is_at (Some f) = false -> denote f tz now None = Some x ->
    spec_bounds (Some f) (Some (FRel true false items)) tz now
    = if x + rel_sum items * NSs <? x then None else Some (Some x, Some (x + rel_sum items * NSs)).
Proof. exact spec_at_relative. Qed.
Print Assumptions C14_spec_at_relative.

(* ---- rejections *)
Theorem C14_both_at_rejected :
  forall a b tz now,
    is_other (m_wdhms a) = true -> is_other (m_wdhms b) = true ->
    CliDtMiscProofs.m_bounds (Some a) (Some b) tz now = None.
Proof. exact both_at_rejected. Qed.
Print Assumptions C14_both_at_rejected.

Theorem C14_after_gt_before_rejected :
  forall a b tz now x y, CliDtMiscProofs.m_bounds a b tz now = Some (Some x, Some y) -> x <= y.
Proof. exact after_not_after_before. Qed.
Print Assumptions C14_after_gt_before_rejected.

(* every ambiguous name of the table, every layout, fraction, spacing, every field value, whatever
   --tz-offset, the other bound and the clock *)
Theorem C14_ambiguous_zone_names_rejected :
  forall name l y m d h mi s fr sp tz other now,
    In name (names_with true) ->
    m_resolve (classify (render (FDateTime l y m d h mi s fr (ZoneName sp name)))) tz other now = None.
Proof. exact abs_named_ambiguous_rejected. Qed.
Print Assumptions C14_ambiguous_zone_names_rejected.

Example C14_ambiguous_names_exist : In "SST" (names_with true).
Proof. exact ambiguous_names_exist. Qed.
Print Assumptions C14_ambiguous_names_exist.

(* ---- which texts are resolved at all: resolve s <> None  <->  s in L (so every near-miss string,
   being outside L, is rejected).  L = texts read by some regenerated row (the LENIENT language of its
   pattern: relation [lenient], equivalent to the scanner) + the rendered relative forms within the guards *)
Theorem C14_relative_matcher_language :
  forall s at_ neg caps,
    m_search true true s = Some (at_, neg, caps) <->
    exists items, items <> [] /\ Forall item_ne items /\ s = rel_arg at_ neg items /\ caps = caps_of items.
Proof. exact rel_language. Qed.
Print Assumptions C14_relative_matcher_language.

Theorem C14_pattern_language :
  forall items, forallb basic_item items = true ->
    forall s fs, scan items s = Some fs <-> lenient items s fs.
Proof. exact scan_iff_lenient. Qed.
Print Assumptions C14_pattern_language.

Theorem C14_rows_use_basic_items :
  forallb (fun rw => forallb basic_item (tokenize (final_pattern append_pattern rw))) cli_rows = true.
Proof. exact rows_basic. Qed.
Print Assumptions C14_rows_use_basic_items.

Theorem C14_resolve_language :
  forall s tz other now,
    m_resolve s tz other now <> None <->
    (exists rw v, In rw cli_rows /\ row_accepts rw s tz v)
    \/ (exists at_ neg items, items <> [] /\ Forall item_ne items /\ s = rel_arg at_ neg items
                              /\ rel_value (rel_dur at_ neg items) other now <> None).
Proof. exact resolve_language. Qed.
Print Assumptions C14_resolve_language.

Theorem C14_absolute_value_is_a_rows_reading :
  forall s tz v, m_resolve_abs s tz = Some v -> exists rw, In rw cli_rows /\ row_accepts rw s tz v.
Proof. exact resolve_abs_language. Qed.
Print Assumptions C14_absolute_value_is_a_rows_reading.

Theorem C14_outside_language_rejected :
  forall s tz other now,
    (forall rw v, In rw cli_rows -> ~ row_accepts rw s tz v) ->
    (forall at_ neg items, items <> [] -> Forall item_ne items -> s <> rel_arg at_ neg items) ->
    m_resolve s tz other now = None.
Proof. exact outside_language_rejected. Qed.
Print Assumptions C14_outside_language_rejected.

(* the extras the lenient language admits beyond the documented grammar, one accepted witness per
   class (each reproduced on the binary by the check), and rejected neighbours *)
Example C14_extras_accepted : forallb (fun cw => accepted (snd cw)) extras_witnesses = true.
Proof. exact extras_accepted. Qed.
Print Assumptions C14_extras_accepted.

Example C14_outside_witnesses_rejected : forallb (fun s => negb (accepted s)) outside_witnesses = true.
Proof. exact outside_rejected. Qed.
Print Assumptions C14_outside_witnesses_rejected.

(* matcher level, universal: no text beginning with a character other than '@' '+' '-' is a relative offset *)
Theorem C14_anchored_matcher_rejects_foreign_first_char :
  forall c rest a_e, c <> 64%N -> c <> 43%N -> c <> 45%N -> m_search true a_e (Ch c :: rest) = None.
Proof. exact anchored_rejects_foreign_first_char. Qed.
Print Assumptions C14_anchored_matcher_rejects_foreign_first_char.

Example C14_near_miss_witnesses_rejected :
  forallb (fun s => match m_resolve (cs s) 0 None 1700000000 with
                    | Some _ => false | None => true end) near_miss_witnesses = true.
Proof. exact near_miss_witnesses_rejected. Qed.
Print Assumptions C14_near_miss_witnesses_rejected.

(* the code before the fix (unanchored expression) accepted every witness: refuted *)
Theorem C14_near_miss_refuted_before_fix :
  forallb (fun s => match resolve_with false false epoch_utc (cs s) 0 None 1700000000 with
                    | Some _ => true | None => false end) near_miss_witnesses = true.
Proof. exact near_miss_refuted_before_fix. Qed.
Print Assumptions C14_near_miss_refuted_before_fix.
