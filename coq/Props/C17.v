(* Props/C17.v — property C17 "Memory held for a streamed text log does not grow with its size".
   Statements only.  PARTIAL claim: the model (Model/Retain.v) counts what the --summary
   high-water marks count (entries of BlockReader.blocks, LineReader.lines,
   SyslineReader.syslines); real heap use is not modelled.  `run c (init ms) evs` is the reader
   state after the schedule `evs` (EW = one iteration of the worker loop of
   exec_syslogprocessor: find, send, drop_data_try; ER j = the consumer side lets go of message
   j); every interleaving is some list.  `sched_ok H` = at most H messages are referenced by
   the consumer side at any time (H = channel capacity + 2).
   The search phase of a windowed run on a plain file (binary search, logarithmic) is left out. *)
From Coq Require Import List NArith Bool.
Import ListNotations.
From S4.Model Require Import Retain.
From S4.Proofs Require Import RetainProofs.
Open Scope N_scope.

(* The repaired policy P_retry (failed releases are retried; a block is also released with the
   line that ends on its last byte): for every block size, every well-formed message sequence
   whose messages occupy at most `span` blocks and `ml` lines, plain or streamed container, every
   H and EVERY schedule respecting H, the stores never exceed the marks and the marks never
   exceed
       syslines  (2 span + 2) bs + 1
       lines     ((2 span + 2) bs + H + 2) ml + 2
       blocks    ((2 span + 2) bs + H + 4) span
   — no dependence on the number of messages.
   _partial: quantified over all well-formed message sequences (`wf`), not literally over all
   layouts; that `layout_msgs bs layout` is well-formed is decided by `wfb` (sound, below) and
   evaluated on every generated case by the correspondence run, not proved for all layouts. *)
Theorem C17_retry_bounded_partial : forall bs span ml H ms c evs,
  pol c = P_retry -> wf bs span ml ms -> sched_ok H c (init ms) evs = true ->
  let s := run c (init ms) evs in
  lenN (syslines s) <= hs s /\ hs s <= bound_syslines bs span /\
  lenN (lines s) <= hl s /\ hl s <= bound_lines bs span ml H /\
  lenN (blocks s) <= hb s /\ hb s <= bound_blocks bs span H /\
  lenN (pending s) <= H.
Proof. exact retry_bounded. Qed.
Print Assumptions C17_retry_bounded_partial.

(* "after every step": every prefix of an admissible schedule is admissible *)
Theorem C17_sched_ok_prefix : forall H c a s b,
  sched_ok H c s (a ++ b) = true -> sched_ok H c s a = true.
Proof. exact sched_ok_prefix. Qed.
Print Assumptions C17_sched_ok_prefix.

Theorem C17_wfb_sound : forall bs span ml ms, wfb bs span ml ms = true -> wf bs span ml ms.
Proof. exact wfb_sound. Qed.
Print Assumptions C17_wfb_sound.

(* the bounds, spelled out *)
Theorem C17_bounds_explicit : forall bs span ml H,
  bound_syslines bs span = (2 * span + 2) * bs + 1 /\
  bound_lines bs span ml H = ((2 * span + 2) * bs + 1 + H + 1) * ml + 2 /\
  bound_blocks bs span H = ((2 * span + 2) * bs + 1 + H + 3) * span.
Proof. intros. repeat split. Qed.
Print Assumptions C17_bounds_explicit.

(* the hypotheses are satisfiable (multi-line and multi-block messages, block size 64, the
   consumer 7 messages behind); on that input the current policy reaches 216/283 *)
Theorem C17_retry_bounded_example :
  let ms := layout_msgs 64 ex_layout in
  wfb 64 (max_span ms) (max_lines ms) ms = true /\
  sched_ok 7 retry_plain (init ms) (sched_lag 7 (length ms)) = true /\
  max_span ms = 5 /\ max_lines ms = 3 /\ lenN ms = 163 /\
  marks (run retry_plain (init ms) (sched_lag 7 (length ms))) = (13, 15, 6) /\
  marks (run cur_plain (init ms) (sched_lag 7 (length ms))) = (216, 283, 6) /\
  bound_syslines 64 5 = 769 /\ bound_lines 64 5 3 7 = 2333 /\ bound_blocks 64 5 7 = 3895.
Proof. exact retry_bounded_example. Qed.
Print Assumptions C17_retry_bounded_example.

(* FINDING F9b (current policy, no lag needed).  General form: in a plain file whose lines each
   lie inside one block — in particular lines that end exactly on block edges — the current
   policy never releases a block: for EVERY such message sequence and EVERY schedule the blocks
   retained are all the blocks read, i.e. they grow with the file. *)
Theorem C17_retain_edge_refuted : forall c ms evs,
  pol c = P_cur -> streamed c = false -> Forall single_block ms ->
  lenN (blocks (run c (init ms) evs)) = nread (run c (init ms) evs).
Proof. exact cur_edge_keeps_all_blocks. Qed.
Print Assumptions C17_retain_edge_refuted.

(* witness instances of the linear growth (vm_compute; n = 200 .. 1600 lines of 64 bytes, block
   size 512, the consumer keeps up, no failed release): all n/8 blocks are retained ... *)
Theorem C17_retain_edge_refuted_witnesses :
  forallb (fun n => let s := run_layout cur_plain 512 (edge_layout n) 1 in
                    (derr s =? 0) && (lenN (blocks s) =? N.of_nat n / 8) && (hb s =? N.of_nat n / 8))
          [200; 400; 800; 1600]%nat = true.
Proof. exact retain_edge_witnesses. Qed.
Print Assumptions C17_retain_edge_refuted_witnesses.

(* ... the family satisfies the hypothesis of the general theorem, and the repaired policy
   keeps at most 4 blocks on it *)
Theorem C17_retain_edge_family :
  forallb (fun n => forallb (fun m => forallb (fun l => lfb l =? llb l) (mlines m))
                            (layout_msgs 512 (edge_layout n)))
          [200; 400; 800; 1600]%nat = true /\
  forallb (fun n => let s := run_layout retry_plain 512 (edge_layout n) 1 in hb s <=? 4)
          [200; 400; 800; 1600]%nat = true.
Proof. split; [exact edge_layout_single | exact retain_edge_retry_witnesses]. Qed.
Print Assumptions C17_retain_edge_family.

(* FINDING F9a (current policy).  WITNESS INSTANCES, not a proof for all n: block size 64,
   n messages of 70 bytes (two blocks each), the consumer 7 = cap + 2 messages behind (the
   schedule respects |held| <= 7): at the end all but 7 of the n lines are still stored, and
   n - 10 releases failed and were never retried, for n = 50, 100, 200, 400 ... *)
Theorem C17_retain_lag_refuted_witnesses :
  forallb (fun n => let s := run_layout cur_plain 64 (lag_layout n) 7 in
                    lag_sched_ok cur_plain 64 (lag_layout n) 7 7 &&
                    (N.of_nat n <=? lenN (lines s) + 7) && (N.of_nat n <=? hl s + 7) &&
                    (N.of_nat n <=? derr s + 10))
          [50; 100; 200; 400]%nat = true.
Proof. exact retain_lag_witnesses. Qed.
Print Assumptions C17_retain_lag_refuted_witnesses.

(* ... while the repaired policy stays at 16 lines / 20 blocks / 8 messages on the same runs *)
Theorem C17_retain_lag_retry_witnesses :
  forallb (fun n => let s := run_layout retry_plain 64 (lag_layout n) 7 in
                    (hl s <=? 16) && (hb s <=? 20) && (hs s <=? 8))
          [50; 100; 200; 400]%nat = true.
Proof. exact retain_lag_retry_witnesses. Qed.
Print Assumptions C17_retain_lag_retry_witnesses.

(* FINDING F9c (year-less timestamp notations, every container): the whole file is found before
   anything is printed and nothing is dropped; the stores hold every message — for every message
   sequence. *)
Theorem C17_retain_yearless_refuted : forall c ms,
  syslines (find_all c ms) = ms /\ lenN ms <= hs (find_all c ms).
Proof. exact yearless_keeps_all. Qed.
Print Assumptions C17_retain_yearless_refuted.
