(* Props/C17.v — property C17 "Memory held for a streamed text log does not grow with its size".
   Statements only.  The model (Model/Retain.v) counts what the --summary
   high-water marks count (entries of BlockReader.blocks, LineReader.lines,
   SyslineReader.syslines); real heap use is not modelled.  `run c (init ms) evs` is the reader
   state after the schedule `evs` (EW = one iteration of the worker loop of
   exec_syslogprocessor: find, send, drop_data_try; ER j = the consumer side lets go of message
   j); every interleaving is some list.  `sched_ok H` = at most H messages are referenced by
   the consumer side at any time (H = channel capacity + 2).
   A run with a datetime window on a plain file first searches the file (Model/RetainSearch.v:
   block-zero analysis, then the binary search of Model/Search.v whose every probe stores the
   message it lands in, then the stage-3 loop): `w_run c bs ms t evs`, t = the window start. *)
From Coq Require Import List NArith ZArith Bool.
Import ListNotations.
From S4.Spec Require Import WindowSpec.
From S4.Model Require Import Retain Search RetainSearch.
From S4.Proofs Require Import RetainProofs RetainLayout RetainLag SearchProofs RetainSearchProofs RetainSearchFuel
  RetainWindowProofs.
Open Scope N_scope.

(* The repaired policy P_retry (failed releases are retried; a block is also released with the
   line that ends on its last byte): for EVERY layout (list of (line length, dated)) whose lines
   have at least one byte and whose first line is dated, every block size > 0, plain or streamed
   container, every H and EVERY schedule respecting H, the stores never exceed the marks and the
   marks never exceed
       syslines  (2 span + 2) bs + 1
       lines     ((2 span + 2) bs + H + 2) ml + 2
       blocks    ((2 span + 2) bs + H + 4) span
   where span / ml are the largest number of blocks / lines of one message of the file — no
   dependence on the number of messages. *)
Theorem C17_retry_bounded : forall bs layout H c evs,
  pol c = P_retry -> layout_ok bs layout ->
  let ms := layout_msgs bs layout in
  let span := max_span ms in let ml := max_lines ms in
  sched_ok H c (init ms) evs = true ->
  let s := run c (init ms) evs in
  lenN (syslines s) <= hs s /\ hs s <= bound_syslines bs span /\
  lenN (lines s) <= hl s /\ hl s <= bound_lines bs span ml H /\
  lenN (blocks s) <= hb s /\ hb s <= bound_blocks bs span H /\
  lenN (pending s) <= H.
Proof. exact retry_bounded_layout. Qed.
Print Assumptions C17_retry_bounded.

(* the hypothesis on the layout, spelled out *)
Theorem C17_layout_ok_explicit : forall bs layout,
  layout_ok bs layout <->
  0 < bs /\ Forall (fun x => 1 <= fst x) layout /\
  match layout with (_, d) :: _ => d = true | [] => True end.
Proof. exact layout_ok_explicit. Qed.
Print Assumptions C17_layout_ok_explicit.

(* every such layout yields a well-formed message sequence (the lemma that was missing) ... *)
Theorem C17_layout_msgs_wf : forall bs layout, layout_ok bs layout ->
  let ms := layout_msgs bs layout in wf bs (max_span ms) (max_lines ms) ms.
Proof. exact layout_msgs_wf. Qed.
Print Assumptions C17_layout_msgs_wf.

(* ... and the bound over all well-formed message sequences, from which the theorem above follows *)
Theorem C17_retry_bounded_wf : forall bs span ml H ms c evs,
  pol c = P_retry -> wf bs span ml ms -> sched_ok H c (init ms) evs = true ->
  let s := run c (init ms) evs in
  lenN (syslines s) <= hs s /\ hs s <= bound_syslines bs span /\
  lenN (lines s) <= hl s /\ hl s <= bound_lines bs span ml H /\
  lenN (blocks s) <= hb s /\ hb s <= bound_blocks bs span H /\
  lenN (pending s) <= H.
Proof. exact retry_bounded. Qed.
Print Assumptions C17_retry_bounded_wf.

(* "after every step": every prefix of an admissible schedule is admissible *)
Theorem C17_sched_ok_prefix : forall H c a s b,
  sched_ok H c s (a ++ b) = true -> sched_ok H c s a = true.
Proof. exact sched_ok_prefix. Qed.
Print Assumptions C17_sched_ok_prefix.

Theorem C17_wfb_sound : forall bs span ml ms, wfb bs span ml ms = true -> wf bs span ml ms.
Proof. exact wfb_sound. Qed.
Print Assumptions C17_wfb_sound.

(* the bounds, spelled out *)
Theorem C17_bounds_explicit : forall bs span ml H,
  bound_syslines bs span = (2 * span + 2) * bs + 1 /\
  bound_lines bs span ml H = ((2 * span + 2) * bs + 1 + H + 1) * ml + 2 /\
  bound_blocks bs span H = ((2 * span + 2) * bs + 1 + H + 3) * span.
Proof. intros. repeat split. Qed.
Print Assumptions C17_bounds_explicit.

(* the hypotheses are satisfiable (multi-line and multi-block messages, block size 64, the
   consumer 7 messages behind); on that input the current policy reaches 216/283 *)
Theorem C17_layout_ok_example : layout_ok 64 ex_layout /\
  max_span (layout_msgs 64 ex_layout) = 5 /\ max_lines (layout_msgs 64 ex_layout) = 3.
Proof. exact layout_ok_example. Qed.
Print Assumptions C17_layout_ok_example.

Theorem C17_retry_bounded_example :
  let ms := layout_msgs 64 ex_layout in
  wfb 64 (max_span ms) (max_lines ms) ms = true /\
  sched_ok 7 retry_plain (init ms) (sched_lag 7 (length ms)) = true /\
  max_span ms = 5 /\ max_lines ms = 3 /\ lenN ms = 163 /\
  marks (run retry_plain (init ms) (sched_lag 7 (length ms))) = (13, 15, 6) /\
  marks (run cur_plain (init ms) (sched_lag 7 (length ms))) = (216, 283, 6) /\
  bound_syslines 64 5 = 769 /\ bound_lines 64 5 3 7 = 2333 /\ bound_blocks 64 5 7 = 3895.
Proof. exact retry_bounded_example. Qed.
Print Assumptions C17_retry_bounded_example.

(* FINDING F9b (current policy, no lag needed).  General form: in a plain file whose lines each
   lie inside one block — in particular lines that end exactly on block edges — the current
   policy never releases a block: for EVERY such message sequence and EVERY schedule the blocks
   retained are all the blocks read, i.e. they grow with the file. *)
Theorem C17_retain_edge_refuted : forall c ms evs,
  pol c = P_cur -> streamed c = false -> Forall single_block ms ->
  lenN (blocks (run c (init ms) evs)) = nread (run c (init ms) evs).
Proof. exact cur_edge_keeps_all_blocks. Qed.
Print Assumptions C17_retain_edge_refuted.

(* witness instances of the linear growth (vm_compute; n = 200 .. 1600 lines of 64 bytes, block
   size 512, the consumer keeps up, no failed release): all n/8 blocks are retained ... *)
Theorem C17_retain_edge_refuted_witnesses :
  forallb (fun n => let s := run_layout cur_plain 512 (edge_layout n) 1 in
                    (derr s =? 0) && (lenN (blocks s) =? N.of_nat n / 8) && (hb s =? N.of_nat n / 8))
          [200; 400; 800; 1600]%nat = true.
Proof. exact retain_edge_witnesses. Qed.
Print Assumptions C17_retain_edge_refuted_witnesses.

(* ... the family satisfies the hypothesis of the general theorem, and the repaired policy
   keeps at most 4 blocks on it *)
Theorem C17_retain_edge_family :
  forallb (fun n => forallb (fun m => forallb (fun l => lfb l =? llb l) (mlines m))
                            (layout_msgs 512 (edge_layout n)))
          [200; 400; 800; 1600]%nat = true /\
  forallb (fun n => let s := run_layout retry_plain 512 (edge_layout n) 1 in hb s <=? 4)
          [200; 400; 800; 1600]%nat = true.
Proof. split; [exact edge_layout_single | exact retain_edge_retry_witnesses]. Qed.
Print Assumptions C17_retain_edge_family.

(* FINDING F9a (current policy), for EVERY n: block size 64, three short lines and n messages of
   70 bytes (two blocks each), the consumer 7 = CHANNEL_CAPACITY + 2 messages behind.  The schedule
   never has more than 7 messages referenced by the consumer side (sched_ok 7), yet no release
   ever succeeds: at the end all n + 3 lines and at least n blocks are still stored. *)
Theorem C17_retain_lag_refuted : forall n : nat,
  let ms := layout_msgs 64 (lag_layout n) in
  let evs := sched_lag 7 (length ms) in
  let s := run cur_plain (init ms) evs in
  sched_ok 7 cur_plain (init ms) evs = true /\
  lenN ms = N.of_nat n + 3 /\ dok s = 0 /\
  lenN (lines s) = N.of_nat n + 3 /\ N.of_nat n + 3 <= hl s /\
  N.of_nat n <= lenN (blocks s) /\ N.of_nat n <= hb s.
Proof. exact retain_lag_all_n. Qed.
Print Assumptions C17_retain_lag_refuted.

(* F9a, general form: for every message sequence (keys 0, 1, 2, ..; each message knows the first
   line of the next) in which a message lag - 2 or more positions before p lies at least two
   blocks before p (so the drop reaches it while the consumer, lag behind, still references it),
   the schedule sched_lag lag respects the bound lag and the current policy releases nothing:
   every line of the file (and, plain file, every block read) is still stored at the end. *)
Theorem C17_retain_lag_general : forall c lag ms,
  pol c = P_cur -> 3 <= lag -> map mkey ms = nseq 0 (length ms) -> linked ms ->
  (forall m p, In m ms -> In p ms -> mkey m + lag <= mkey p + 2 -> 3 <= mfb p /\ mlb m + 2 <= mfb p) ->
  let evs := sched_lag lag (length ms) in
  let s := run c (init ms) evs in
  sched_ok lag c (init ms) evs = true /\ dok s = 0 /\
  lenN (lines s) = lenN (file_lines ms) /\ lenN (file_lines ms) <= hl s /\
  lenN (blocks s) <= hb s /\
  (streamed c = false -> lenN (blocks s) = nread s /\ forall m, In m ms -> mlb m + 1 <= nread s).
Proof. exact cur_lag_keeps_everything. Qed.
Print Assumptions C17_retain_lag_general.

(* concrete instances evaluated by vm_compute (n = 50 .. 400), kept as a cross-check of the model *)
Theorem C17_retain_lag_refuted_witnesses :
  forallb (fun n => let s := run_layout cur_plain 64 (lag_layout n) 7 in
                    lag_sched_ok cur_plain 64 (lag_layout n) 7 7 &&
                    (N.of_nat n <=? lenN (lines s) + 7) && (N.of_nat n <=? hl s + 7) &&
                    (N.of_nat n <=? derr s + 10))
          [50; 100; 200; 400]%nat = true.
Proof. exact retain_lag_witnesses. Qed.
Print Assumptions C17_retain_lag_refuted_witnesses.

(* ... while the repaired policy stays at 16 lines / 20 blocks / 8 messages on the same runs *)
Theorem C17_retain_lag_retry_witnesses :
  forallb (fun n => let s := run_layout retry_plain 64 (lag_layout n) 7 in
                    (hl s <=? 16) && (hb s <=? 20) && (hs s <=? 8))
          [50; 100; 200; 400]%nat = true.
Proof. exact retain_lag_retry_witnesses. Qed.
Print Assumptions C17_retain_lag_retry_witnesses.

(* FINDING F9c (year-less timestamp notations, every container): the whole file is found before
   anything is printed and nothing is dropped; the stores hold every message — for every message
   sequence. *)
Theorem C17_retain_yearless_refuted : forall c ms,
  syslines (find_all c ms) = ms /\ lenN ms <= hs (find_all c ms).
Proof. exact yearless_keeps_all. Qed.
Print Assumptions C17_retain_yearless_refuted.

(* THE WINDOWED CLAUSE.  Repaired policy, plain file, EVERY layout, block size, window start t, H
   and EVERY stage-3 schedule respecting H: the marks of a run that searches the file first exceed
   the bounds of C17_retry_bounded by at most K messages, 2 ml K lines and 2 ml (span + 1) K + 1
   blocks, where K = 9 + 2 * bit length(file size) <= 11 + 2 log2(file size) is the largest number
   of find_sysline calls of the block-zero analysis and the search: logarithmic in the size of the
   file, never linear.  Nothing is dropped during the search; whatever the search stored may stay. *)
Theorem C17_windowed_bounded : forall bs layout H c t evs,
  pol c = P_retry -> streamed c = false -> layout_ok bs layout ->
  let ms := layout_msgs bs layout in
  let span := max_span ms in let ml := max_lines ms in
  let K := 9 + 2 * N.size (wfilesz ms) in
  w_run_sched_ok H c bs ms t evs = true ->
  let T := w_run c bs ms t evs in
  hs (wb T) <= bound_syslines bs span + K /\
  hl (wb T) <= bound_lines bs span ml H + K * (2 * ml) /\
  hb (wb T) <= bound_blocks bs span H + (K * (2 * ml * (span + 1)) + 1) /\
  lenN (syslines (wb T)) <= hs (wb T) /\ lenN (lines (wb T)) <= hl (wb T) /\ lenN (blocks (wb T)) <= hb (wb T) /\
  K <= 11 + 2 * N.log2 (wfilesz ms).
Proof. exact retry_windowed_bounded_layout. Qed.
Print Assumptions C17_windowed_bounded.

(* the same over well-formed message sequences, with the number of finds of the search spelled out *)
Theorem C17_windowed_bounded_wf : forall bs span ml H ms c,
  pol c = P_retry -> streamed c = false -> wf bs span ml ms -> forall t evs,
  w_run_sched_ok H c bs ms t evs = true ->
  let K := search_finds ms in
  let T := w_run c bs ms t evs in
  hs (wb T) <= bound_syslines bs span + K /\
  hl (wb T) <= bound_lines bs span ml H + K * (2 * ml) /\
  hb (wb T) <= bound_blocks bs span H + (K * (2 * ml * (span + 1)) + 1) /\
  lenN (syslines (wb T)) <= hs (wb T) /\ lenN (lines (wb T)) <= hl (wb T) /\ lenN (blocks (wb T)) <= hb (wb T).
Proof. exact windowed_bounded. Qed.
Print Assumptions C17_windowed_bounded_wf.

Theorem C17_windowed_finds_explicit : forall ms,
  search_finds ms = 9 + 2 * N.size (wfilesz ms) /\ N.size (wfilesz ms) <= N.log2 (wfilesz ms) + 1.
Proof. exact windowed_finds_explicit. Qed.
Print Assumptions C17_windowed_finds_explicit.

(* the file size the logarithm is taken of is the size of the file: the sum of the line lengths *)
Theorem C17_windowed_filesz : forall bs layout, layout_ok bs layout ->
  wfilesz (layout_msgs bs layout) = fold_right (fun x t => fst x + t) 0 layout.
Proof. exact wfilesz_layout. Qed.
Print Assumptions C17_windowed_filesz.

(* the search of the windowed model IS the binary search of Model/Search.v (property C03) with the
   fuel 2 + bit length(file size), and on every file of the domain (dated lines of two bytes or
   more; instants increase with the message number) it completes: never out of fuel, no panic,
   no error path, and it returns the first message at or after the window start *)
Theorem C17_windowed_search_completes : forall bs layout t,
  layout_ok bs layout -> Forall (fun x => snd x = true -> 2 <= fst x) layout ->
  let r := snd (w_search bs (layout_msgs bs layout) t) in
  r <> SOutOfFuel /\ (forall c, r <> SPanic c /\ r <> SDoneErr c) /\
  r = spec_res (first_at_or_after s_t s_next (Some t) 0 (wgs (layout_msgs bs layout))).
Proof. exact w_search_completes. Qed.
Print Assumptions C17_windowed_search_completes.

(* the hypotheses are satisfiable: 163 messages, 13783 bytes, block size 64, window starting at
   message 80, the consumer 7 behind; the search makes at most 37 finds and leaves 20 blocks /
   21 lines / 9 messages, the repaired policy never exceeds that in the stream phase; the current
   policy reaches 117 / 149 on the same schedule (F9a) and 20 / 21 when the consumer keeps up *)
Theorem C17_windowed_example :
  let ms := layout_msgs 64 ex_layout in
  let evs := w_sched_lag 7 80 82 in
  wfilesz ms = 13783 /\ search_finds ms = 37 /\
  snd (w_search 64 ms 80) = SFound 6815 (mkSl 6785 30 80%Z) /\
  w_run_sched_ok 7 retry_plain 64 ms 80 evs = true /\
  wmarks (fst (w_search 64 ms 80)) = (20, 21, 9) /\
  wmarks (w_run retry_plain 64 ms 80 evs) = (20, 21, 9) /\
  wmarks (w_run cur_plain 64 ms 80 evs) = (117, 149, 9) /\
  wmarks (w_run cur_plain 64 ms 80 (w_sched_lag 1 80 82)) = (20, 21, 9).
Proof. exact windowed_example. Qed.
Print Assumptions C17_windowed_example.

Theorem C17_windowed_example_domain :
  layout_ok 64 ex_layout /\ Forall (fun x => snd x = true -> 2 <= fst x) ex_layout.
Proof. exact windowed_example_domain. Qed.
Print Assumptions C17_windowed_example_domain.

(* ====================================================================== every kind of window *)

(* PLAIN file, -a and / or -b (ta, tb: each optional).  The first message after B is found and
   stored but not sent, and the driver stops.  Repaired policy, every layout, block size, window,
   H >= 1 and every stage-3 schedule respecting H: the bounds of C17_windowed_bounded with H + 1 in
   place of H (the message that is found but not sent). *)
Theorem C17_windowed2_bounded : forall bs layout H c ta tb evs,
  pol c = P_retry -> streamed c = false -> layout_ok bs layout -> 1 <= H ->
  let ms := layout_msgs bs layout in
  let span := max_span ms in let ml := max_lines ms in
  let K := 9 + 2 * N.size (wfilesz ms) in
  w_run_sched_ok2 H c bs ms ta tb evs = true ->
  let T := w_run2 c bs ms ta tb evs in
  hs (wb T) <= bound_syslines bs span + K /\
  hl (wb T) <= bound_lines bs span ml (H + 1) + K * (2 * ml) /\
  hb (wb T) <= bound_blocks bs span (H + 1) + (K * (2 * ml * (span + 1)) + 1) /\
  lenN (syslines (wb T)) <= hs (wb T) /\ lenN (lines (wb T)) <= hl (wb T) /\ lenN (blocks (wb T)) <= hb (wb T).
Proof. exact retry_windowed2_bounded_layout. Qed.
Print Assumptions C17_windowed2_bounded.

(* with -a only the general run is the run of C17_windowed_bounded *)
Theorem C17_windowed2_is_windowed : forall c bs ms t evs,
  w_run2 c bs ms (Some t) None evs = w_run c bs ms t evs.
Proof. exact w_run2_is_w_run. Qed.
Print Assumptions C17_windowed2_is_windowed.

(* ANY container read from its start with -b only (sw_run with ta = None is the streaming run that
   stops at the first message after B): the streaming bounds with H + 1, no logarithmic term *)
Theorem C17_window_b_bounded : forall bs layout H c tb evs,
  pol c = P_retry -> layout_ok bs layout -> 1 <= H ->
  let ms := layout_msgs bs layout in
  let span := max_span ms in let ml := max_lines ms in
  sched_ok_b H c tb (sw_start c ms None tb) evs = true ->
  let s := sw_run c ms None tb evs in
  lenN (syslines s) <= hs s /\ hs s <= bound_syslines bs span /\
  lenN (lines s) <= hl s /\ hl s <= bound_lines bs span ml (H + 1) /\
  lenN (blocks s) <= hb s /\ hb s <= bound_blocks bs span (H + 1).
Proof. exact sw_b_bounded_layout. Qed.
Print Assumptions C17_window_b_bounded.

(* FINDING F9d (-a on a streamed file).  Stage 2 is ONE linear search (find_sysline for every message
   from the start of the file up to the first one at or after A) and drop_data_try is only called in
   the stage-3 loop: for EVERY release policy (the repaired one included), every container, every
   message sequence and every window, all the messages before A are stored at the same time at the
   end of stage 2, and `syslines high` is at least their number: linear in the part of the file
   before the window. *)
Theorem C17_window_streamed_refuted : forall c ms ta tb evs,
  exists bef rest, ms = bef ++ rest /\ Forall (fun m => before_a ta m = true) bef /\
    match rest with m :: _ => before_a ta m = false | [] => True end /\
    syslines (lin_search c ta (length ms) (init ms)) = bef /\
    lenN bef <= hs (sw_run c ms ta tb evs).
Proof. exact window_linear_search_keeps_prefix. Qed.
Print Assumptions C17_window_streamed_refuted.

(* ... while the repaired DRIVER (drop_data_try also inside the linear search: stage 2 is the
   stage-3 loop with messages that are not sent) has exactly the streaming bounds of
   C17_retry_bounded for every layout, window position and schedule: no logarithmic term *)
Theorem C17_window_streamed_repaired_bounded : forall bs layout H c nbefore evs,
  pol c = P_retry -> layout_ok bs layout ->
  let ms := layout_msgs bs layout in
  let span := max_span ms in let ml := max_lines ms in
  sched_ok H c (init ms) (flat_map (fun k => [EW; ER k]) (nseq 0 nbefore) ++ evs) = true ->
  let s := sw_run_repaired c ms nbefore evs in
  lenN (syslines s) <= hs s /\ hs s <= bound_syslines bs span /\
  lenN (lines s) <= hl s /\ hl s <= bound_lines bs span ml H /\
  lenN (blocks s) <= hb s /\ hb s <= bound_blocks bs span H /\
  lenN (pending s) <= H.
Proof. exact sw_repaired_bounded_layout. Qed.
Print Assumptions C17_window_streamed_repaired_bounded.

(* the hypotheses are satisfiable and the numbers on the example layout (163 messages, block size
   64, the consumer 7 behind): -b 100 streamed 2 / 15 / 6; -a 80 streamed: 80 messages stored by
   the linear search, 2 / 144 / 83 under BOTH release policies; the repaired driver 2 / 15 / 6;
   -a 80 -b 120 plain: repaired 20 / 21 / 9, current code 63 / 79 (F9a) *)
Theorem C17_window_examples :
  let ms := layout_msgs 64 ex_layout in
  sched_ok_b 7 retry_gz (Some 100%Z) (sw_start retry_gz ms None (Some 100%Z)) (w_sched_lag 7 0 162) = true /\
  marks (sw_run retry_gz ms None (Some 100%Z) (w_sched_lag 7 0 162)) = (2, 15, 6) /\
  lenN (syslines (lin_search retry_gz (Some 80%Z) (length ms) (init ms))) = 80 /\
  marks (sw_run retry_gz ms (Some 80%Z) None (w_sched_lag 7 80 82)) = (2, 144, 83) /\
  marks (sw_run cur_gz ms (Some 80%Z) None (w_sched_lag 1 80 82)) = (2, 144, 83) /\
  sched_ok 7 retry_gz (init ms) (flat_map (fun k => [EW; ER k]) (nseq 0 80) ++ (EW :: w_sched_lag 7 80 82)) = true /\
  marks (sw_run_repaired retry_gz ms 80 (EW :: w_sched_lag 7 80 82)) = (2, 15, 6) /\
  w_run_sched_ok2 7 retry_plain 64 ms (Some 80%Z) (Some 120%Z) (w_sched_lag 7 80 82) = true /\
  wmarks (w_run2 retry_plain 64 ms (Some 80%Z) (Some 120%Z) (w_sched_lag 7 80 82)) = (20, 21, 9) /\
  wmarks (w_run2 cur_plain 64 ms (Some 80%Z) (Some 120%Z) (w_sched_lag 7 80 82)) = (63, 79, 9).
Proof. exact window_examples. Qed.
Print Assumptions C17_window_examples.

(* ====================================================================== the two models of the stores agree *)
(* Model/Caches.v (WP-A) is the cache state of the readers as a state machine over the BYTES of a
   file; Model/Retain.v is the retained sets over the LAYOUT of a file.  Qualified names below:
   Caches.* is that machine, RetainCaches.* the file / oracle / drop plan that put the two side by
   side, RetainCachesAgree.* / RetainCachesLayout.* the statements' own vocabulary (spelled out by
   the three _explicit theorems). *)
From S4.Base Require Chunk.
From S4.Model Require Lines Caches RetainCaches.
From S4.Proofs Require CachesProofs RetainKeepsUp RetainNoErr RetainFar RetainFarFifo RetainFarConv RetainFarExact RetainFarLayout RetainNoEdge RetainCachesAgree RetainCachesLayout.

(* what "agree" says: the five counters of summary() equal the five marks, the three stores have
   the same sizes, and no release failed *)
Theorem C17_agree_explicit : forall C s, RetainCachesAgree.agree0 C s <->
  (Caches.bc_highest (Caches.b_cnt (Caches.l_blk (Caches.s_lr C))) = hb s /\
   Caches.lc_highest (Caches.l_cnt (Caches.s_lr C)) = hl s /\
   Caches.sc_highest (Caches.s_cnt C) = hs s /\ Caches.sc_drop_ok (Caches.s_cnt C) = dok s /\
   Caches.sc_drop_err (Caches.s_cnt C) = derr s /\
   Chunk.lenN (Caches.b_blocks (Caches.l_blk (Caches.s_lr C))) = lenN (blocks s) /\
   Chunk.lenN (Caches.l_lines (Caches.s_lr C)) = lenN (lines s) /\
   Chunk.lenN (Caches.s_syslines C) = lenN (syslines s)) /\ derr s = 0.
Proof. exact RetainCachesLayout.agree0_explicit. Qed.
Print Assumptions C17_agree_explicit.

(* the domain: layout_ok, dated lines have two bytes or more (a line of one byte is only its
   newline), and there is a line *)
Theorem C17_layout_dom_explicit : forall bs layout, RetainCachesLayout.layout_dom bs layout <->
  (0 < bs /\ Forall (fun x => 1 <= fst x) layout /\ match layout with (_, d) :: _ => d = true | [] => True end) /\
  Forall (fun x => snd x = true -> 2 <= fst x) layout /\ layout <> [].
Proof. exact RetainCachesLayout.layout_dom_explicit. Qed.
Print Assumptions C17_layout_dom_explicit.

(* a message sequence describes a file: its lines are lines of the file (CachesProofs.span), block
   numbers are offsets / bs, the lines follow each other from offset 0 to the end of the file, a
   message begins with a line the oracle dates and goes on with lines it does not *)
Theorem C17_realizes_explicit : forall bs f dated ms, RetainCachesAgree.realizes bs f dated ms <->
  Forall (fun l => CachesProofs.span f (lbeg l) (lend l) /\ lfb l = lbeg l / bs /\ llb l = lend l / bs) (file_lines ms) /\
  Retain.chain (fun a b => lbeg b = lend a + 1) (file_lines ms) /\
  match ms with m :: _ => lbeg (mfirst m) = 0 | [] => True end /\
  match ms with m :: r => mend (last r m) + 1 = Chunk.lenN f | [] => True end /\
  Forall (fun m => (exists z, dated (Chunk.slice f (lbeg (mfirst m)) (lend (mfirst m) + 1)) = Some z) /\
                   Forall (fun l => dated (Chunk.slice f (lbeg l) (lend l + 1)) = None) (mbody m)) ms.
Proof. exact RetainCachesLayout.realizes_explicit. Qed.
Print Assumptions C17_realizes_explicit.

(* THE AGREEMENT.  Plain file, the stage driver's call pattern (Caches.c_stream: find_sysline at 0,
   then at each returned offset; drop_data_try(the message before the one just found) where the
   plan says so) with the plan that SyslogProcessor::drop_data produces, a consumer that keeps up
   (sched_lag 1): for EVERY file f, date oracle and well-formed message sequence that describes f,
   after the whole run the cache machine reports the marks of the retained-set model and stores as
   many blocks, lines and syslines ... *)
Theorem C17_caches_retain_agree_file : forall bs f, 0 < bs -> 0 < Chunk.lenN f ->
  forall dated span ml ms, wf bs span ml ms -> map mkey ms = nseq 0 (length ms) ->
  RetainCachesAgree.realizes bs f dated ms -> ms <> [] ->
  RetainCachesAgree.agree0
    (fst (Caches.c_stream dated bs f (RetainCaches.drop_plan ms) Caches.sr_init))
    (run cur_plain (init ms) (sched_lag 1 (length ms))).
Proof. exact RetainCachesAgree.stream_agree. Qed.
Print Assumptions C17_caches_retain_agree_file.

(* ... and after EVERY iteration of the driver's loop (c_stream_upto j = c_stream whose loop stops
   after j iterations; the retained-set model after the first j + 1 iterations of its schedule): the
   simulation relation between the two machines (RetainCachesAgree.Rel) is kept by every find and
   every drop_data *)
Theorem C17_caches_retain_agree_each : forall bs f, 0 < bs -> 0 < Chunk.lenN f ->
  forall dated span ml ms, wf bs span ml ms -> map mkey ms = nseq 0 (length ms) ->
  RetainCachesAgree.realizes bs f dated ms -> forall j, ms <> [] ->
  RetainCachesAgree.agree0
    (fst (RetainCaches.c_stream_upto j dated bs f (RetainCaches.drop_plan ms) Caches.sr_init))
    (run cur_plain (init ms) (sched_lag 1 (Nat.min (S j) (length ms)))).
Proof. exact RetainCachesAgree.stream_agree_upto. Qed.
Print Assumptions C17_caches_retain_agree_each.

Theorem C17_c_stream_upto_full : forall dated bs f plan st,
  Caches.c_stream dated bs f plan st = RetainCaches.c_stream_upto (S (length f)) dated bs f plan st.
Proof. exact (fun dated bs f plan st => eq_refl). Qed.
Print Assumptions C17_c_stream_upto_full.

(* for EVERY layout of the domain: the file layout_file layout (a dated line begins with 'D'), the
   oracle dD (first byte 'D'), the messages layout_msgs bs layout *)
Theorem C17_caches_retain_agree : forall bs layout, RetainCachesLayout.layout_dom bs layout ->
  let ms := layout_msgs bs layout in
  RetainCachesAgree.agree0
    (fst (Caches.c_stream RetainCaches.dD bs (RetainCaches.layout_file layout) (RetainCaches.drop_plan ms) Caches.sr_init))
    (run cur_plain (init ms) (sched_lag 1 (length ms))).
Proof. exact RetainCachesLayout.caches_retain_agree. Qed.
Print Assumptions C17_caches_retain_agree.

Theorem C17_caches_retain_agree_layout_each : forall bs layout j, RetainCachesLayout.layout_dom bs layout ->
  let ms := layout_msgs bs layout in
  RetainCachesAgree.agree0
    (fst (RetainCaches.c_stream_upto j RetainCaches.dD bs (RetainCaches.layout_file layout) (RetainCaches.drop_plan ms) Caches.sr_init))
    (run cur_plain (init ms) (sched_lag 1 (Nat.min (S j) (length ms)))).
Proof. exact RetainCachesLayout.caches_retain_agree_upto. Qed.
Print Assumptions C17_caches_retain_agree_layout_each.

(* the file realises the layout *)
Theorem C17_layout_realizes : forall bs layout, RetainCachesLayout.layout_dom bs layout ->
  RetainCachesAgree.realizes bs (RetainCaches.layout_file layout) RetainCaches.dD (layout_msgs bs layout).
Proof. exact RetainCachesLayout.layout_realizes. Qed.
Print Assumptions C17_layout_realizes.

(* WHAT CARRIES OVER.  (1) The only way the current policy departs from the repaired one in what it
   stores of messages and lines is a failed release: every input, every schedule, any two
   configurations with these policies (whatever their containers), from states that agree on
   everything but the blocks *)
Theorem C17_cur_is_retry_without_err : forall cc cr evs, pol cc = P_cur -> pol cr = P_retry -> forall sc sr,
  RetainKeepsUp.eqx sc sr -> pending sc = [] -> derr (run cc sc evs) = derr sc ->
  RetainKeepsUp.eqx (run cc sc evs) (run cr sr evs).
Proof. exact RetainKeepsUp.cur_is_retry_without_err. Qed.
Print Assumptions C17_cur_is_retry_without_err.

Theorem C17_eqx_explicit : forall s s', RetainKeepsUp.eqx s s' <->
  lines s' = lines s /\ syslines s' = syslines s /\ pending s' = pending s /\ held s' = held s /\
  hl s' = hl s /\ hs s' = hs s /\ nread s' = nread s /\ front s' = front s /\ todo s' = todo s /\
  stage2 s' = stage2 s /\ wprev s' = wprev s /\ dok s' = dok s /\ derr s' = derr s.
Proof. exact (fun s s' => iff_refl _). Qed.
Print Assumptions C17_eqx_explicit.

(* a consumer that keeps up never has more than one message referenced *)
Theorem C17_keeps_up_sched_ok : forall c ms, map mkey ms = nseq 0 (length ms) ->
  sched_ok 1 c (init ms) (sched_lag 1 (length ms)) = true.
Proof. exact RetainKeepsUp.keeps_up_sched_ok. Qed.
Print Assumptions C17_keeps_up_sched_ok.

(* so the current policy under such a consumer, when no release failed, has the bounds of the
   repaired policy (H = 1) for messages and lines *)
Theorem C17_cur_keeps_up_bounded : forall bs span ml ms c, pol c = P_cur -> wf bs span ml ms ->
  map mkey ms = nseq 0 (length ms) ->
  let s := run c (init ms) (sched_lag 1 (length ms)) in
  derr s = 0 ->
  lenN (syslines s) <= hs s /\ hs s <= bound_syslines bs span /\
  lenN (lines s) <= hl s /\ hl s <= bound_lines bs span ml 1.
Proof. exact RetainKeepsUp.cur_keeps_up_bounded. Qed.
Print Assumptions C17_cur_keeps_up_bounded.

(* ... and under EVERY admissible schedule, whatever the bound H on the consumer's references: a run of
   the current policy in which no release failed (drop_sysline Err = 0 in --summary) keeps the
   bounds of the repaired policy for messages and lines.  This is the statement OUTSIDE finding
   F9a: the recorded class (drop distance < capacity + 2) is exactly where releases can fail; the
   check's slow-consumer stage observes Err = 0 and flat marks on files outside it *)
Theorem C17_cur_no_failed_release_bounded : forall bs span ml H ms c evs, pol c = P_cur -> wf bs span ml ms ->
  sched_ok H c (init ms) evs = true ->
  let s := run c (init ms) evs in
  derr s = 0 ->
  lenN (syslines s) <= hs s /\ hs s <= bound_syslines bs span /\
  lenN (lines s) <= hl s /\ hl s <= bound_lines bs span ml H /\
  lenN (pending s) <= H.
Proof. exact RetainNoErr.cur_no_err_bounded. Qed.
Print Assumptions C17_cur_no_failed_release_bounded.

Theorem C17_cur_no_failed_release_bounded_layout : forall bs layout H c evs, pol c = P_cur -> layout_ok bs layout ->
  let ms := layout_msgs bs layout in
  sched_ok H c (init ms) evs = true ->
  let s := run c (init ms) evs in
  derr s = 0 ->
  hs s <= bound_syslines bs (max_span ms) /\ hl s <= bound_lines bs (max_span ms) (max_lines ms) H.
Proof. exact RetainNoErr.cur_no_err_bounded_layout. Qed.
Print Assumptions C17_cur_no_failed_release_bounded_layout.

(* satisfiable with a lagging consumer: 240 lines of 20 bytes at block size 512; 7 messages behind
   (channel capacity 5) no release fails; 66 behind (a capacity of 64) releases fail *)
Theorem C17_no_failed_release_example :
  let ms := layout_msgs 512 RetainNoErr.far_layout in
  let n := length ms in
  wfb 512 (max_span ms) (max_lines ms) ms = true /\
  sched_ok 7 cur_plain (init ms) (sched_lag 7 n) = true /\
  derr (run cur_plain (init ms) (sched_lag 7 n)) = 0 /\
  sched_ok 66 cur_plain (init ms) (sched_lag 66 n) = true /\
  0 < derr (run cur_plain (init ms) (sched_lag 66 n)).
Proof. exact RetainNoErr.no_err_example. Qed.
Print Assumptions C17_no_failed_release_example.

(* ... and WHEN no release fails: the geometric condition `far lag ms` — whenever the drop issued in the
   iteration that finds message k (reference p = message k-1, candidates = stored messages m with
   mlb m + 2 <= mfb p, provided 3 <= mfb p) reaches a message m, m lies at least lag messages before k —
   is the exact complement of the recorded class of finding F9a ("drop distance < lag").  Under the
   FIFO consumer lag messages behind (the furthest a channel of capacity lag - 2 lets it fall), for
   every message sequence with consecutive keys, either policy, plain or streamed: the schedule is
   admissible and NO release fails *)
Theorem C17_far_explicit : forall lag ms, RetainFar.far lag ms <->
  forall m p, In m ms -> In p ms -> 3 <= mfb p -> mlb m + 2 <= mfb p -> mkey m + lag <= mkey p + 1.
Proof. exact (fun lag ms => iff_refl _). Qed.
Print Assumptions C17_far_explicit.

Theorem C17_far_no_failed_release : forall c lag ms, 1 <= lag -> map mkey ms = nseq 0 (length ms) ->
  RetainFar.far lag ms ->
  let evs := sched_lag lag (length ms) in
  sched_ok lag c (init ms) evs = true /\ derr (run c (init ms) evs) = 0.
Proof. exact RetainFar.cur_far_no_err. Qed.
Print Assumptions C17_far_no_failed_release.

(* hence, outside the recorded class, the CURRENT policy has the repaired bounds for messages and lines *)
Theorem C17_far_bounded : forall bs span ml lag ms c, pol c = P_cur -> wf bs span ml ms -> 1 <= lag ->
  map mkey ms = nseq 0 (length ms) -> RetainFar.far lag ms ->
  let s := run c (init ms) (sched_lag lag (length ms)) in
  derr s = 0 /\ hs s <= bound_syslines bs span /\ hl s <= bound_lines bs span ml lag.
Proof. exact RetainFar.cur_far_bounded. Qed.
Print Assumptions C17_far_bounded.

(* the decidable form the check evaluates on its generated files *)
Theorem C17_farb_sound : forall lag ms, RetainFar.farb lag ms = true -> RetainFar.far lag ms.
Proof. exact RetainFar.farb_sound. Qed.
Print Assumptions C17_farb_sound.

(* the condition is tight on the example: 240 lines of 20 bytes at block size 512 have drop distance 28 *)
Theorem C17_far_tight_example :
  let ms := layout_msgs 512 RetainNoErr.far_layout in
  RetainFar.farb 7 ms = true /\ RetainFar.farb 28 ms = true /\ RetainFar.farb 29 ms = false /\
  derr (run cur_plain (init ms) (sched_lag 28 (length ms))) = 0 /\
  0 < derr (run cur_plain (init ms) (sched_lag 29 (length ms))).
Proof. vm_compute. repeat split; reflexivity. Qed.
Print Assumptions C17_far_tight_example.

(* ... for EVERY schedule of a first-in-first-out consumer, not only the constant lag: the j-th release
   is the release of message j and happens after message j was sent; the worker's iterations and the
   releases interleave arbitrarily (the consumer may keep up for a while, then fall back as far as the
   bound allows, then catch up in bursts) *)
Theorem C17_fifo_explicit : forall evs, RetainFarFifo.fifo evs <-> RetainFarFifo.fifo_from 0 0 evs.
Proof. exact (fun evs => iff_refl _). Qed.
Print Assumptions C17_fifo_explicit.

Theorem C17_fifo_from_explicit : forall next sent evs, RetainFarFifo.fifo_from next sent evs <->
  match evs with
  | [] => True
  | EW :: r => RetainFarFifo.fifo_from next (sent + 1) r
  | ER j :: r => j = next /\ j < sent /\ RetainFarFifo.fifo_from (next + 1) sent r
  end.
Proof. intros next sent evs. destruct evs as [|e r]; [reflexivity|]. destruct e; reflexivity. Qed.
Print Assumptions C17_fifo_from_explicit.

Theorem C17_far_no_failed_release_fifo : forall c lag ms evs, 1 <= lag -> map mkey ms = nseq 0 (length ms) ->
  RetainFar.far lag ms -> RetainFarFifo.fifo evs -> sched_ok lag c (init ms) evs = true ->
  derr (run c (init ms) evs) = 0.
Proof. exact RetainFarFifo.cur_far_no_err_fifo. Qed.
Print Assumptions C17_far_no_failed_release_fifo.

Theorem C17_far_bounded_fifo : forall bs span ml lag ms c evs, pol c = P_cur -> wf bs span ml ms -> 1 <= lag ->
  map mkey ms = nseq 0 (length ms) -> RetainFar.far lag ms -> RetainFarFifo.fifo evs ->
  sched_ok lag c (init ms) evs = true ->
  let s := run c (init ms) evs in
  derr s = 0 /\ hs s <= bound_syslines bs span /\ hl s <= bound_lines bs span ml lag.
Proof. exact RetainFarFifo.cur_far_bounded_fifo. Qed.
Print Assumptions C17_far_bounded_fifo.

(* the canonical schedules are such schedules *)
Theorem C17_sched_lag_fifo : forall lag n, 1 <= lag -> RetainFarFifo.fifo (sched_lag lag n).
Proof. exact RetainFarFifo.sched_lag_fifo. Qed.
Print Assumptions C17_sched_lag_fifo.

(* an irregular schedule (1 behind for eight messages, then 7 behind for eight, catching up in bursts)
   meets the hypotheses; and "after it was sent" is needed: a release before the send uses up the
   message's turn, message 0 stays referenced and one release fails *)
Theorem C17_far_fifo_examples :
  let ms := layout_msgs 512 RetainNoErr.far_layout in
  (let evs := RetainFarFifo.irregular 1 7 0 0 (length ms) in
   RetainFarFifo.fifob evs = true /\ RetainFar.farb 7 ms = true /\
   sched_ok 7 cur_plain (init ms) evs = true /\ derr (run cur_plain (init ms) evs) = 0) /\
  (let evs := RetainFarFifo.premature (length ms) in
   RetainFarFifo.fifob evs = false /\ sched_ok 7 cur_plain (init ms) evs = true /\
   derr (run cur_plain (init ms) evs) = 1).
Proof. vm_compute. repeat split; reflexivity. Qed.
Print Assumptions C17_far_fifo_examples.

(* THE CONVERSE: the recorded class of finding F9a is exactly where the lagging consumer makes a release
   fail.  If some drop that is really issued (its reference p is neither message 0 nor one of the last
   two) reaches a message m found fewer than lag messages before the message being found, the run under
   sched_lag lag has a failed release — either policy, plain or streamed, no well-formedness needed *)
Theorem C17_reached_held_explicit : forall lag ms, RetainFarConv.reached_held lag ms <->
  exists m p, In m ms /\ In p ms /\ 3 <= mfb p /\ mlb m + 2 <= mfb p /\ mkey p + 1 < mkey m + lag
              /\ mkey p + 2 < lenN ms /\ 1 <= mkey p /\ mkey m <= mkey p.
Proof. exact (fun lag ms => iff_refl _). Qed.
Print Assumptions C17_reached_held_explicit.

Theorem C17_reached_held_fails : forall c lag ms, 1 <= lag -> map mkey ms = nseq 0 (length ms) ->
  RetainFarConv.reached_held lag ms -> 0 < derr (run c (init ms) (sched_lag lag (length ms))).
Proof. exact RetainFarConv.reached_held_err. Qed.
Print Assumptions C17_reached_held_fails.

Theorem C17_far_excludes_reached_held : forall lag ms, RetainFar.far lag ms -> RetainFarConv.reached_held lag ms -> False.
Proof. exact RetainFarConv.far_not_reached_held. Qed.
Print Assumptions C17_far_excludes_reached_held.

Theorem C17_reached_heldb_sound : forall lag ms, RetainFarConv.reached_heldb lag ms = true -> RetainFarConv.reached_held lag ms.
Proof. exact RetainFarConv.reached_heldb_sound. Qed.
Print Assumptions C17_reached_heldb_sound.

(* EXACTNESS as one equivalence: for every well-formed message sequence with consecutive keys, either
   policy, plain or streamed, every lag >= 1, the run with the consumer lag messages behind has NO failed
   release if and only if no issued drop reaches a message found fewer than lag messages earlier *)
Theorem C17_F9a_class_exact : forall bs span ml c lag ms, wf bs span ml ms -> 1 <= lag ->
  map mkey ms = nseq 0 (length ms) ->
  (derr (run c (init ms) (sched_lag lag (length ms))) = 0 <-> RetainFarConv.reached_heldb lag ms = false).
Proof. exact RetainFarExact.no_err_iff_wf. Qed.
Print Assumptions C17_F9a_class_exact.

Theorem C17_reached_heldb_iff : forall lag ms, RetainFarConv.reached_heldb lag ms = true <-> RetainFarConv.reached_held lag ms.
Proof. exact RetainFarExact.reached_heldb_iff. Qed.
Print Assumptions C17_reached_heldb_iff.

(* ... and for EVERY layout (lines of one byte or more, first line dated), every block size *)
Theorem C17_F9a_class_exact_layout : forall bs layout c lag, layout_ok bs layout -> 1 <= lag ->
  (derr (run_layout c bs layout lag) = 0 <-> RetainFarConv.reached_heldb lag (layout_msgs bs layout) = false).
Proof. exact RetainFarLayout.layout_no_err_iff. Qed.
Print Assumptions C17_F9a_class_exact_layout.

Theorem C17_far_bounded_layout : forall bs layout c lag, pol c = P_cur -> layout_ok bs layout -> 1 <= lag ->
  RetainFar.farb lag (layout_msgs bs layout) = true ->
  let ms := layout_msgs bs layout in
  let s := run_layout c bs layout lag in
  derr s = 0 /\ hs s <= bound_syslines bs (max_span ms) /\ hl s <= bound_lines bs (max_span ms) (max_lines ms) lag.
Proof. exact RetainFarLayout.layout_far_bounded. Qed.
Print Assumptions C17_far_bounded_layout.

(* THE BLOCKS: the two policies release different blocks only through lines whose last byte is the last
   byte of a block (finding F9b).  When no line of the file is such a line, a run of the current policy
   without a failed release IS the run of the repaired policy — the whole state, blocks and blocks high
   included, every schedule *)
Theorem C17_no_edge_explicit : forall ms, RetainNoEdge.no_edge ms <->
  forall m l, In m ms -> In l (mlines m) -> ledge l = false.
Proof. exact (fun ms => iff_refl _). Qed.
Print Assumptions C17_no_edge_explicit.

Theorem C17_cur_is_retry_without_err_no_edge : forall cc cr ms evs, pol cc = P_cur -> pol cr = P_retry ->
  streamed cr = streamed cc -> RetainNoEdge.no_edge ms -> derr (run cc (init ms) evs) = 0 ->
  run cc (init ms) evs = run cr (init ms) evs.
Proof. exact RetainNoEdge.cur_is_retry_without_err_no_edge. Qed.
Print Assumptions C17_cur_is_retry_without_err_no_edge.

(* OUTSIDE THE RECORDED CLASSES THE PROPERTY HOLDS FOR THE CURRENT POLICY: not F9a (far), not F9b (no_edge),
   a year in the notation (the model's streaming run), every first-in-first-out consumer within the bound:
   no release fails and all three marks obey bounds that do not depend on the number of messages *)
Theorem C17_cur_outside_classes_bounded : forall bs span ml lag ms c evs, pol c = P_cur -> wf bs span ml ms -> 1 <= lag ->
  map mkey ms = nseq 0 (length ms) -> RetainFar.far lag ms -> RetainNoEdge.no_edge ms -> RetainFarFifo.fifo evs ->
  sched_ok lag c (init ms) evs = true ->
  let s := run c (init ms) evs in
  derr s = 0 /\ hs s <= bound_syslines bs span /\ hl s <= bound_lines bs span ml lag /\
  hb s <= bound_blocks bs span lag.
Proof. exact RetainFarLayout.cur_outside_classes_bounded. Qed.
Print Assumptions C17_cur_outside_classes_bounded.

Theorem C17_layout_outside_classes_bounded : forall bs layout c lag evs, pol c = P_cur -> layout_ok bs layout -> 1 <= lag ->
  let ms := layout_msgs bs layout in
  RetainFar.farb lag ms = true -> RetainNoEdge.no_edgeb ms = true -> RetainFarFifo.fifo evs ->
  sched_ok lag c (init ms) evs = true ->
  let s := run c (init ms) evs in
  derr s = 0 /\ hs s <= bound_syslines bs (max_span ms) /\ hl s <= bound_lines bs (max_span ms) (max_lines ms) lag /\
  hb s <= bound_blocks bs (max_span ms) lag.
Proof. exact RetainFarLayout.layout_outside_classes_bounded. Qed.
Print Assumptions C17_layout_outside_classes_bounded.

Theorem C17_no_edge_example :
  let ms := layout_msgs 512 RetainNoEdge.no_edge_layout in
  let n := length ms in
  RetainNoEdge.no_edgeb ms = true /\ RetainNoEdge.no_edgeb (layout_msgs 512 RetainNoErr.far_layout) = false /\
  RetainFar.farb 7 ms = true /\
  derr (run cur_plain (init ms) (sched_lag 7 n)) = 0 /\
  marks (run cur_plain (init ms) (sched_lag 7 n)) = marks (run retry_plain (init ms) (sched_lag 7 n)) /\
  hb (run cur_plain (init ms) (sched_lag 7 n)) <= bound_blocks 512 (max_span ms) 7.
Proof. vm_compute. repeat split; try reflexivity; discriminate. Qed.
Print Assumptions C17_no_edge_example.

Theorem C17_keeps_up_example :
  let ms := layout_msgs 64 ex_layout in
  let n := length ms in
  wfb 64 (max_span ms) (max_lines ms) ms = true /\
  derr (run cur_plain (init ms) (sched_lag 1 n)) = 0 /\
  marks (run cur_plain (init ms) (sched_lag 1 n)) = (13, 12, 6) /\
  marks (run retry_plain (init ms) (sched_lag 1 n)) = (11, 12, 6) /\
  bound_syslines 64 (max_span ms) = 769 /\ bound_lines 64 (max_span ms) (max_lines ms) 1 = 2315 /\
  derr (run cur_plain (init ms) (sched_lag 7 n)) = 159 /\
  marks (run cur_plain (init ms) (sched_lag 7 n)) = (216, 283, 6) /\
  marks (run retry_plain (init ms) (sched_lag 7 n)) = (13, 15, 6).
Proof. exact RetainKeepsUp.keeps_up_example. Qed.
Print Assumptions C17_keeps_up_example.

(* (2) THE BOUNDS ON THE CACHE MACHINE: for every layout of the domain and every block size, the
   byte-level machine of the CURRENT code, driven as the stage driver drives it on a plain file
   whose consumer keeps up, never fails a release and keeps syslines high / lines high under the
   bounds of C17_retry_bounded with H = 1 *)
Theorem C17_caches_bounded : forall bs layout, RetainCachesLayout.layout_dom bs layout ->
  let ms := layout_msgs bs layout in
  let span := max_span ms in let ml := max_lines ms in
  let C := fst (Caches.c_stream RetainCaches.dD bs (RetainCaches.layout_file layout) (RetainCaches.drop_plan ms) Caches.sr_init) in
  Caches.sc_drop_err (Caches.s_cnt C) = 0 /\
  Chunk.lenN (Caches.s_syslines C) <= Caches.sc_highest (Caches.s_cnt C) /\
  Caches.sc_highest (Caches.s_cnt C) <= bound_syslines bs span /\
  Chunk.lenN (Caches.l_lines (Caches.s_lr C)) <= Caches.lc_highest (Caches.l_cnt (Caches.s_lr C)) /\
  Caches.lc_highest (Caches.l_cnt (Caches.s_lr C)) <= bound_lines bs span ml 1.
Proof. exact RetainCachesLayout.caches_bounded. Qed.
Print Assumptions C17_caches_bounded.

(* (3) FINDING F9b on the cache machine: when every line lies inside one block it keeps every block
   it has read (no bound on `blocks high` carries over to the current code) *)
Theorem C17_caches_edge_refuted : forall bs layout, RetainCachesLayout.layout_dom bs layout ->
  let ms := layout_msgs bs layout in
  Forall single_block ms ->
  let C := fst (Caches.c_stream RetainCaches.dD bs (RetainCaches.layout_file layout) (RetainCaches.drop_plan ms) Caches.sr_init) in
  let s := run cur_plain (init ms) (sched_lag 1 (length ms)) in
  Chunk.lenN (Caches.b_blocks (Caches.l_blk (Caches.s_lr C))) = nread s.
Proof. exact RetainCachesLayout.caches_edge_keeps_all_blocks. Qed.
Print Assumptions C17_caches_edge_refuted.

(* the hypotheses are satisfiable; both machines evaluated on 12 lines / 430 bytes at block size 16 *)
Theorem C17_caches_examples :
  RetainCachesLayout.layout_dom 64 ex_layout /\
  RetainCachesLayout.layout_dom 512 (edge_layout 200) /\ Forall single_block (layout_msgs 512 (edge_layout 200)) /\
  RetainCachesLayout.layout_dom 16 RetainCachesLayout.agree_example_layout /\
  (let ms := layout_msgs 16 RetainCachesLayout.agree_example_layout in
   let C := fst (Caches.c_stream RetainCaches.dD 16 (RetainCaches.layout_file RetainCachesLayout.agree_example_layout)
                   (RetainCaches.drop_plan ms) Caches.sr_init) in
   let s := run cur_plain (init ms) (sched_lag 1 (length ms)) in
   RetainCaches.drop_plan ms = [false; true; true; true; true; true; true] /\
   (Caches.bc_highest (Caches.b_cnt (Caches.l_blk (Caches.s_lr C))), Caches.lc_highest (Caches.l_cnt (Caches.s_lr C)),
    Caches.sc_highest (Caches.s_cnt C), Caches.sc_drop_ok (Caches.s_cnt C), Caches.sc_drop_err (Caches.s_cnt C)) = (18, 8, 5, 3, 0) /\
   (hb s, hl s, hs s, dok s, derr s) = (18, 8, 5, 3, 0) /\
   (Chunk.lenN (Caches.b_blocks (Caches.l_blk (Caches.s_lr C))), Chunk.lenN (Caches.l_lines (Caches.s_lr C)),
    Chunk.lenN (Caches.s_syslines C)) = (18, 6, 5) /\
   (lenN (blocks s), lenN (lines s), lenN (syslines s)) = (18, 6, 5) /\
   bound_syslines 16 (max_span ms) = 257 /\ bound_lines 16 (max_span ms) (max_lines ms) 1 = 779).
Proof. exact RetainCachesLayout.caches_examples. Qed.
Print Assumptions C17_caches_examples.
