(* Props/C19.v — property C19: the summary agrees with what was printed.
   Statements only; every proof is `exact <lemma>`. *)
From S4.Base Require Import Bytes.
From S4.Model Require Import PrintCal Strftime Print Summary.
From S4.Proofs Require Import PrintSem PrintVariants PrintStrip SummaryProofs.
Open Scope nat_scope.

(* colour never: `Printed bytes` = number of bytes on stdout (for every SGR table g: none is used) *)
Theorem C19_total_bytes_stdout : forall c srcs evs g, c_summary c = true -> c_colour c = false ->
  u_bytes (k_total (run c srcs evs)) = blen (concr g (k_stdout (run c srcs evs))).
Proof. exact total_bytes_stdout_nocolour. Qed.
Print Assumptions C19_total_bytes_stdout.

(* F8: with colour on the identity is false *)
Theorem C19_total_bytes_colour_refuted :
  exists c srcs evs g, c_summary c = true /\ c_colour c = true /\ sgr_ok g /\
    u_bytes (k_total (run c srcs evs)) <> blen (concr g (k_stdout (run c srcs evs))).
Proof. exact total_bytes_colour_refuted. Qed.
Print Assumptions C19_total_bytes_colour_refuted.

(* what holds for every colour setting: the total counts every byte that is not part of an SGR sequence *)
Theorem C19_total_bytes_payload : forall c srcs evs, c_summary c = true ->
  u_bytes (k_total (run c srcs evs)) = blen (payload (k_stdout (run c srcs evs))).
Proof. exact total_bytes_payload. Qed.
Print Assumptions C19_total_bytes_payload.

Theorem C19_total_bytes_strip_sgr : forall c srcs evs g, c_summary c = true ->
  sgr_ok g -> no_esc (payload (k_stdout (run c srcs evs))) ->
  u_bytes (k_total (run c srcs evs)) = blen (strip_sgr (concr g (k_stdout (run c srcs evs)))).
Proof. exact total_bytes_strip_sgr. Qed.
Print Assumptions C19_total_bytes_strip_sgr.

(* per-file byte counts + one separator per message + supplied newlines = total *)
Theorem C19_per_file_sum : forall c srcs evs n, c_summary c = true -> Forall (fun e => e_src e < n) evs ->
  (sumf n (fun j => u_bytes (k_files (run c srcs evs) j))
   + N.of_nat (length evs) * blen (c_sep c) + N.of_nat (length (filter supplied_nl evs))
   = u_bytes (k_total (run c srcs evs)))%N.
Proof. exact per_file_sum. Qed.
Print Assumptions C19_per_file_sum.

(* message counters = print events by kind; `lines` = lines of text messages only *)
Theorem C19_message_counters : forall c srcs evs, c_summary c = true ->
  let t := k_total (run c srcs evs) in
  u_sys t = count_kind KSys evs /\ u_fixed t = count_kind KFixed evs /\
  u_evtx t = count_kind KEvtx evs /\ u_journal t = count_kind KJournal evs /\
  u_lines t = text_lines evs.
Proof. exact message_counters. Qed.
Print Assumptions C19_message_counters.

(* explicit: the lines of record / event / journal messages are not in `Printed lines` *)
Theorem C19_lines_exclude_records :
  exists c srcs evs, c_summary c = true /\
    u_lines (k_total (run c srcs evs)) = 0%N /\
    length (filter (fun b => (b =? 10)%N) (payload (k_stdout (run c srcs evs)))) = 3.
Proof. exact lines_exclude_records. Qed.
Print Assumptions C19_lines_exclude_records.

(* first / last printed datetime = minimum / maximum of the printed instants *)
Theorem C19_first_last : forall c srcs evs, c_summary c = true ->
  is_min (u_first (k_total (run c srcs evs))) (instants evs) /\
  is_max (u_last (k_total (run c srcs evs))) (instants evs).
Proof. exact first_last_printed. Qed.
Print Assumptions C19_first_last.

(* --summary does not change stdout *)
Theorem C19_summary_leaves_stdout : forall c srcs evs b,
  k_stdout (run (with_summary b c) srcs evs) = k_stdout (run c srcs evs).
Proof. exact summary_leaves_stdout. Qed.
Print Assumptions C19_summary_leaves_stdout.

(* the printer's count is read through the literal 2056-byte buffer model *)
Theorem C19_buffer_transparent : forall cap p last,
  ends_flushed p = true ->
  let r := exec_buf cap p {| p_out := []; p_buf := []; p_printed := 0; p_last := last |} in
  p_out r = sem_out p last /\ p_printed r = printed_of p /\ p_last r = sem_last p last /\ p_buf r = [].
Proof. exact exec_buf_sem. Qed.
Print Assumptions C19_buffer_transparent.
