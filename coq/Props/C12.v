(* Props/C12.v — property C12 "the read block size never changes what is printed".
   Core: everything a caller observes of the readers is a function of the file only. *)
From S4.Base Require Import Bytes Chunk.
From S4.Spec Require Import LinesSpec.
From S4.Model Require Import Lines Syslines.
From S4.Gen Require Import BlockConsts.
From S4.Model Require Import Gate.
From S4.Proofs Require Import LinesProofs SyslinesProofs GateRefuted.
Open Scope N_scope.

(* reader_core_bs_independent: for any two block sizes the observable results of find_line,
   find_sysline and of the stage driver are equal *)
Theorem reader_core_bs_independent : forall dated bs1 bs2 (f : file), 0 < bs1 -> 0 < bs2 ->
  (forall fo, obs_line bs1 f (find_line_m bs1 f fo) = obs_line bs2 f (find_line_m bs2 f fo)) /\
  (forall fo, obs_find_sysline bs1 f (find_sysline_m dated bs1 f fo) =
              obs_find_sysline bs2 f (find_sysline_m dated bs2 f fo)) /\
  obs_stream bs1 f (stream_m dated bs1 f) = obs_stream bs2 f (stream_m dated bs2 f).
Proof. exact SyslinesProofs.reader_core_bs_independent. Qed.
Print Assumptions reader_core_bs_independent.

(* block arithmetic (DESIGN section 5) *)
Theorem byte_at_block : forall bs (f : file) bo bi, bi < bs ->
  nthN (block bs f bo) bi = nthN f (bo * bs + bi).
Proof. exact Chunk.byte_at_block. Qed.
Print Assumptions byte_at_block.

Theorem concat_blocks : forall bs (f : file), 0 < bs ->
  concat (blocks_from (N.to_nat (count_blocks (lenN f) bs)) bs f 0) = f.
Proof. exact Chunk.concat_blocks. Qed.
Print Assumptions concat_blocks.

Theorem length_block : forall bs (f : file) bo, 0 < bs -> bo <= blockoffset_last (lenN f) bs ->
  blocksz_at_blockoffset bo (lenN f) bs = Some (lenN (block bs f bo)).
Proof. exact Chunk.blocksz_at_blockoffset_spec. Qed.
Print Assumptions length_block.

Theorem offset_block_index : forall fo bs, 0 < bs ->
  fo = block_offset_at_file_offset fo bs * bs + block_index_at_file_offset fo bs /\
  block_index_at_file_offset fo bs < bs.
Proof. exact Chunk.div_mod_bs. Qed.
Print Assumptions offset_block_index.

Theorem helpers_bounded : forall fo filesz bs, 0 < bs -> fo <= filesz ->
  block_offset_at_file_offset fo bs * bs <= filesz /\
  block_index_at_file_offset fo bs < bs /\
  count_blocks filesz bs * bs < filesz + bs.
Proof. exact Chunk.helpers_bounded. Qed.
Print Assumptions helpers_bounded.

(* The acceptance gate of the CURRENT code (Model/Gate.v, thresholds regenerated from the
   source) is NOT independent of the block size: refuted for permitted sizes *)
Theorem gate_refuted : exists (dated : list N -> option Z) (f : file) (bs : N),
  64 <= bs /\ bs <= blocksz_max /\ gate dated bs f <> gate dated blocksz_def f.
Proof. exact GateRefuted.gate_refuted. Qed.
Print Assumptions gate_refuted.

(* F3a: five 121-byte lines dated at column 0 — rejected at 64, accepted at 128 and at the default *)
Theorem gate_refuted_F3a :
  64 <= 64 /\ gate dated_w 64 file_f3a = FileErrNoSyslinesFound /\ gate dated_w 128 file_f3a = FileOk /\
  gate dated_w blocksz_def file_f3a = FileOk.
Proof. exact GateRefuted.gate_refuted_F3a. Qed.
Print Assumptions gate_refuted_F3a.

(* F3b: a 100-byte undated first line *)
Theorem gate_refuted_F3b :
  gate dated_w 64 file_f3b = FileErrNoSyslinesFound /\ gate dated_w 128 file_f3b = FileOk /\
  gate dated_w blocksz_def file_f3b = FileOk.
Proof. exact GateRefuted.gate_refuted_F3b. Qed.
Print Assumptions gate_refuted_F3b.

(* F3c: two 4050-byte dated lines — accepted at 4096, rejected at the default *)
Theorem gate_refuted_F3c :
  gate dated_w 4096 file_f3c = FileOk /\ gate dated_w blocksz_def file_f3c = FileErrNoLinesFound.
Proof. exact GateRefuted.gate_refuted_F3c. Qed.
Print Assumptions gate_refuted_F3c.
