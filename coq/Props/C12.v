(* Props/C12.v — property C12 "the read block size never changes what is printed".
   Core: everything a caller observes of the readers is a function of the file only. *)
From S4.Base Require Import Bytes Chunk.
From S4.Spec Require Import LinesSpec.
From S4.Model Require Import Lines Syslines.
From S4.Gen Require Import BlockConsts.
From S4.Model Require Import Gate.
From S4.Proofs Require Import LinesProofs SyslinesProofs GateRefuted.
Open Scope N_scope.

(* reader_core_bs_independent: for any two block sizes the observable results of find_line,
   find_sysline and of the stage driver are equal *)
Theorem reader_core_bs_independent : forall dated bs1 bs2 (f : file), 0 < bs1 -> 0 < bs2 ->
  (forall fo, obs_line bs1 f (find_line_m bs1 f fo) = obs_line bs2 f (find_line_m bs2 f fo)) /\
  (forall fo, obs_find_sysline bs1 f (find_sysline_m dated bs1 f fo) =
              obs_find_sysline bs2 f (find_sysline_m dated bs2 f fo)) /\
  obs_stream bs1 f (stream_m dated bs1 f) = obs_stream bs2 f (stream_m dated bs2 f).
Proof. exact SyslinesProofs.reader_core_bs_independent. Qed.
Print Assumptions reader_core_bs_independent.

(* block arithmetic (DESIGN section 5) *)
Theorem byte_at_block : forall bs (f : file) bo bi, bi < bs ->
  nthN (block bs f bo) bi = nthN f (bo * bs + bi).
Proof. exact Chunk.byte_at_block. Qed.
Print Assumptions byte_at_block.

Theorem concat_blocks : forall bs (f : file), 0 < bs ->
  concat (blocks_from (N.to_nat (count_blocks (lenN f) bs)) bs f 0) = f.
Proof. exact Chunk.concat_blocks. Qed.
Print Assumptions concat_blocks.

Theorem length_block : forall bs (f : file) bo, 0 < bs -> bo <= blockoffset_last (lenN f) bs ->
  blocksz_at_blockoffset bo (lenN f) bs = Some (lenN (block bs f bo)).
Proof. exact Chunk.blocksz_at_blockoffset_spec. Qed.
Print Assumptions length_block.

Theorem offset_block_index : forall fo bs, 0 < bs ->
  fo = block_offset_at_file_offset fo bs * bs + block_index_at_file_offset fo bs /\
  block_index_at_file_offset fo bs < bs.
Proof. exact Chunk.div_mod_bs. Qed.
Print Assumptions offset_block_index.

Theorem helpers_bounded : forall fo filesz bs, 0 < bs -> fo <= filesz ->
  block_offset_at_file_offset fo bs * bs <= filesz /\
  block_index_at_file_offset fo bs < bs /\
  count_blocks filesz bs * bs < filesz + bs.
Proof. exact Chunk.helpers_bounded. Qed.
Print Assumptions helpers_bounded.

(* The acceptance gate of the CURRENT code (Model/Gate.v, thresholds regenerated from the
   source) is NOT independent of the block size: refuted for permitted sizes *)
Theorem gate_refuted : exists (dated : list N -> option Z) (f : file) (bs : N),
  64 <= bs /\ bs <= blocksz_max /\ gate dated bs f <> gate dated blocksz_def f.
Proof. exact GateRefuted.gate_refuted. Qed.
Print Assumptions gate_refuted.

(* F3a: five 121-byte lines dated at column 0 — rejected at 64, accepted at 128 and at the default *)
Theorem gate_refuted_F3a :
  64 <= 64 /\ gate dated_w 64 file_f3a = FileErrNoSyslinesFound /\ gate dated_w 128 file_f3a = FileOk /\
  gate dated_w blocksz_def file_f3a = FileOk.
Proof. exact GateRefuted.gate_refuted_F3a. Qed.
Print Assumptions gate_refuted_F3a.

(* F3b: a 100-byte undated first line *)
Theorem gate_refuted_F3b :
  gate dated_w 64 file_f3b = FileErrNoSyslinesFound /\ gate dated_w 128 file_f3b = FileOk /\
  gate dated_w blocksz_def file_f3b = FileOk.
Proof. exact GateRefuted.gate_refuted_F3b. Qed.
Print Assumptions gate_refuted_F3b.

(* F3c: two 4050-byte dated lines — accepted at 4096, rejected at the default *)
Theorem gate_refuted_F3c :
  gate dated_w 4096 file_f3c = FileOk /\ gate dated_w blocksz_def file_f3c = FileErrNoLinesFound.
Proof. exact GateRefuted.gate_refuted_F3c. Qed.
Print Assumptions gate_refuted_F3c.

(* ====================================================================================== *)
(* WP-G: the block-zero acceptance analysis as a COMPLETE model (Model/Gate.v gate2: per-row pattern counts, try
   order, parse LRU cache, dt_patterns_analysis with its tie rule, second pass; EZCHECK pre-filters in Section Ez)
   against the bs-free decision Model/GateSpec.v spec_accept.
   Oracle: rows / dated_by_row (plain) or the per-slice match_slice + the regenerated row table (as coded). *)
From S4.Model Require Import GateSpec.
From S4.Proofs Require Import GateLemmas GateProofs EzcheckProofs GateTheorems GateTablesOk.
From S4.Corr Require C12.

(* gate_accept_spec: for EVERY oracle, file and permitted block size outside the four decidable classes
   (first dated line not complete inside block zero = F3a+F3b; count minimum = F3c; mixed notation = F3d) the
   analysis accepts exactly the files spec_accept accepts, and parses them with the row spec_accept names *)
Theorem gate_accept_spec : forall dbr rows, NoDup rows -> forall bs (f : file),
  sp_blocksz_min <= bs -> bs <= blocksz_max -> in_classes dbr rows bs f = false ->
  accepted (gate_rows dbr rows bs f) = spec_accept dbr rows f.
Proof. exact GateProofs.gate_accept_spec. Qed.
Print Assumptions gate_accept_spec.

(* gate_independent: acceptance and chosen row are equal at any two permitted block sizes outside the classes *)
Theorem gate_independent : forall dbr rows bs1 bs2 (f : file), NoDup rows ->
  sp_blocksz_min <= bs1 -> bs1 <= blocksz_max -> sp_blocksz_min <= bs2 -> bs2 <= blocksz_max ->
  in_classes dbr rows bs1 f = false -> in_classes dbr rows bs2 f = false ->
  accepted (gate_rows dbr rows bs1 f) = accepted (gate_rows dbr rows bs2 f).
Proof. exact GateTheorems.gate_independent. Qed.
Print Assumptions gate_independent.

Theorem gate_independent_def : forall dbr rows bs (f : file), NoDup rows ->
  sp_blocksz_min <= bs -> bs <= blocksz_max ->
  in_classes dbr rows bs f = false -> in_classes dbr rows blocksz_def f = false ->
  accepted (gate_rows dbr rows bs f) = accepted (gate_rows dbr rows blocksz_def f).
Proof. exact GateTheorems.gate_independent_def. Qed.
Print Assumptions gate_independent_def.

(* a file without any dated line is rejected at every block size (no class hypothesis) *)
Theorem gate_rejects_undated : forall dbr rows bs (f : file), 0 < bs ->
  first_dated dbr rows f = None -> accepted (gate_rows dbr rows bs f) = None.
Proof. exact GateProofs.gate_rejects_undated. Qed.
Print Assumptions gate_rejects_undated.

(* the hypotheses are satisfiable by a non-trivial file (multi-line first message, four messages) *)
Theorem gate_independent_example :
  in_classes dbr_w rows_w 64 file_uniform = false /\ in_classes dbr_w rows_w blocksz_def file_uniform = false /\
  accepted (gate_rows dbr_w rows_w 64 file_uniform) = Some 79 /\
  accepted (gate_rows dbr_w rows_w blocksz_def file_uniform) = Some 79 /\
  spec_accept dbr_w rows_w file_uniform = Some 79.
Proof. exact GateTheorems.gate_independent_example. Qed.
Print Assumptions gate_independent_example.

(* EZCHECK soundness: for every line and every counts map, find_datetime_in_line with the pre-filters finds what
   the plain first-matching-row search finds *)
Theorem ezcheck_sound : forall match_slice info,
  (forall r, ri_start (info r) = 0) ->
  (forall r s dt, ri_year4 (info r) = true -> match_slice r s = Some dt -> contains_12 s = true) ->
  (forall r s dt, ri_d2 (info r) = true -> match_slice r s = Some dt -> contains_d2 s = true) ->
  forall c line, parse_ez match_slice info c line = parse_plain (dated_by_row_of match_slice info) c line.
Proof. exact EzcheckProofs.parse_ez_plain. Qed.
Print Assumptions ezcheck_sound.

(* table obligation of ezcheck_sound on the REGENERATED rows: every slice starts at byte 0 *)
Theorem ezcheck_table_starts_zero : forall r, ri_start (C12.info_tab r) = 0.
Proof. exact GateTablesOk.info_tab_start. Qed.
Print Assumptions ezcheck_table_starts_zero.

(* the analysis AS CODED (EZCHECK on, regenerated row table) decides spec_accept outside the classes *)
Theorem gate_as_coded_accept_spec : forall match_slice bs (f : file),
  (forall r s dt, ri_year4 (C12.info_tab r) = true -> match_slice r s = Some dt -> contains_12 s = true) ->
  (forall r s dt, ri_d2 (C12.info_tab r) = true -> match_slice r s = Some dt -> contains_d2 s = true) ->
  sp_blocksz_min <= bs -> bs <= blocksz_max ->
  in_classes (dated_by_row_of match_slice C12.info_tab) C12.rows_tab bs f = false ->
  accepted (gate_ez match_slice C12.info_tab C12.rows_tab bs f) =
  spec_accept (dated_by_row_of match_slice C12.info_tab) C12.rows_tab f.
Proof. exact GateTablesOk.gate_as_coded_accept_spec. Qed.
Print Assumptions gate_as_coded_accept_spec.

Theorem gate_as_coded_independent : forall match_slice bs (f : file),
  (forall r s dt, ri_year4 (C12.info_tab r) = true -> match_slice r s = Some dt -> contains_12 s = true) ->
  (forall r s dt, ri_d2 (C12.info_tab r) = true -> match_slice r s = Some dt -> contains_d2 s = true) ->
  sp_blocksz_min <= bs -> bs <= blocksz_max ->
  in_classes (dated_by_row_of match_slice C12.info_tab) C12.rows_tab bs f = false ->
  in_classes (dated_by_row_of match_slice C12.info_tab) C12.rows_tab blocksz_def f = false ->
  accepted (gate_ez match_slice C12.info_tab C12.rows_tab bs f) =
  accepted (gate_ez match_slice C12.info_tab C12.rows_tab blocksz_def f).
Proof. exact GateTablesOk.gate_as_coded_independent. Qed.
Print Assumptions gate_as_coded_independent.

Theorem gate_as_coded_example :
  (forall r s dt, ri_year4 (C12.info_tab r) = true -> match_iso r s = Some dt -> contains_12 s = true) /\
  (forall r s dt, ri_d2 (C12.info_tab r) = true -> match_iso r s = Some dt -> contains_d2 s = true) /\
  in_classes (dated_by_row_of match_iso C12.info_tab) C12.rows_tab 64 file_uniform = false /\
  in_classes (dated_by_row_of match_iso C12.info_tab) C12.rows_tab blocksz_def file_uniform = false /\
  accepted (gate_ez match_iso C12.info_tab C12.rows_tab 64 file_uniform) = Some 79.
Proof. exact GateTablesOk.gate_as_coded_example. Qed.
Print Assumptions gate_as_coded_example.

(* F3d (new): outside F3a/F3b/F3c the CHOSEN ROW depends on the block size when block zero shows dated lines
   of two notations: count tie -> lowest index wins, and how many dated lines are counted depends on bs *)
Theorem gate_row_refuted : exists dbr rows (f : file) bs, NoDup rows /\
  sp_blocksz_min <= bs /\ bs <= blocksz_max /\
  cls_first_dated_incomplete dbr rows bs f = false /\ cls_count_minimum dbr rows bs f = false /\
  cls_first_dated_incomplete dbr rows blocksz_def f = false /\ cls_count_minimum dbr rows blocksz_def f = false /\
  accepted (gate_rows dbr rows bs f) <> accepted (gate_rows dbr rows blocksz_def f).
Proof. exact GateTheorems.gate_row_refuted. Qed.
Print Assumptions gate_row_refuted.

Theorem gate_row_refuted_F3d :
  cls_first_dated_incomplete dbr_w rows_w 64 file_f3d = false /\ cls_count_minimum dbr_w rows_w 64 file_f3d = false /\
  cls_first_dated_incomplete dbr_w rows_w blocksz_def file_f3d = false /\ cls_count_minimum dbr_w rows_w blocksz_def file_f3d = false /\
  cls_mixed_notation dbr_w rows_w file_f3d = true /\
  gate_rows dbr_w rows_w 64 file_f3d = (FileOk, Some 79) /\
  gate_rows dbr_w rows_w 128 file_f3d = (FileOk, Some 0) /\
  gate_rows dbr_w rows_w blocksz_def file_f3d = (FileOk, Some 0).
Proof. exact GateTheorems.gate_row_refuted_F3d. Qed.
Print Assumptions gate_row_refuted_F3d.

(* the recorded witnesses under the complete model: each lies in its class, outside the classes at the other size *)
Theorem gate_rows_F3a :
  cls_first_dated_incomplete dbr_w rows_w 64 file_f3a = true /\ in_classes dbr_w rows_w blocksz_def file_f3a = false /\
  accepted (gate_rows dbr_w rows_w 64 file_f3a) = None /\ accepted (gate_rows dbr_w rows_w blocksz_def file_f3a) = Some 79.
Proof. exact GateTheorems.gate_rows_F3a. Qed.
Print Assumptions gate_rows_F3a.

Theorem gate_rows_F3b :
  cls_first_dated_incomplete dbr_w rows_w 64 file_f3b = true /\ in_classes dbr_w rows_w blocksz_def file_f3b = false /\
  accepted (gate_rows dbr_w rows_w 64 file_f3b) = None /\ accepted (gate_rows dbr_w rows_w blocksz_def file_f3b) = Some 79.
Proof. exact GateTheorems.gate_rows_F3b. Qed.
Print Assumptions gate_rows_F3b.

Theorem gate_rows_F3c :
  cls_count_minimum dbr_w rows_w blocksz_def file_f3c = true /\ in_classes dbr_w rows_w 4096 file_f3c = false /\
  accepted (gate_rows dbr_w rows_w 4096 file_f3c) = Some 79 /\ accepted (gate_rows dbr_w rows_w blocksz_def file_f3c) = None.
Proof. exact GateTheorems.gate_rows_F3c. Qed.
Print Assumptions gate_rows_F3c.

(* the classes are not NECESSARY conditions (no iff): a member of the first class that is analysed alike *)
Theorem gate_classes_not_exact :
  cls_first_dated_incomplete dbr_w rows_w 64 file_edge = true /\
  accepted (gate_rows dbr_w rows_w 64 file_edge) = Some 79 /\
  accepted (gate_rows dbr_w rows_w blocksz_def file_edge) = Some 79.
Proof. exact GateTheorems.classes_not_exact. Qed.
Print Assumptions gate_classes_not_exact.
(* ---- end of WP-G block ---- *)

(* ---- WP-A block (reader caches): the block size does not change what the CACHED readers answer ---- *)
From S4.Model Require Import Caches.
From S4.Proofs Require Import CachesRunProofs.

(* for any two block sizes and any operation sequence without drops (find_line, find_sysline at
   arbitrary offsets in any order, LRU caches off/on, find_line_in_block interleaved, the driver)
   the observations of the answers of the cached machines are equal, answer by answer *)
Theorem cached_bs_independent : forall dated bs1 bs2 (f : file) ops, 0 < bs1 -> 0 < bs2 -> Forall op_nodrop ops ->
  map (obs_cres bs1 f) (snd (c_run dated bs1 f cinit ops)) =
  map (obs_cres bs2 f) (snd (c_run dated bs2 f cinit ops)).
Proof. exact CachesRunProofs.cached_bs_independent. Qed.
Print Assumptions cached_bs_independent.

(* the stage driver over the cached reader, after any (different) histories of reads and with any
   (different) drop plans, hands the same messages to the printer at both block sizes *)
Theorem cached_driver_bs_independent : forall dated bs1 bs2 (f : file) ops1 ops2 plan1 plan2, 0 < bs1 -> 0 < bs2 ->
  Forall op_nodrop ops1 -> Forall op_nodrop ops2 ->
  obs_stream bs1 f (rmap (snd (c_stream dated bs1 f plan1 (snd (fst (c_run dated bs1 f cinit ops1)))))) =
  obs_stream bs2 f (rmap (snd (c_stream dated bs2 f plan2 (snd (fst (c_run dated bs2 f cinit ops2)))))).
Proof. exact CachesRunProofs.cached_driver_bs_independent. Qed.
Print Assumptions cached_driver_bs_independent.
(* ---- end of WP-A block ---- *)

(* ====================================================================================== *)
(* WP-G (2): the `--blocksz` argument — "every permitted block size" is the property's quantifier.
   cli_process_blocksz (Model/BlockszArg.v; prefix table, bounds and code shape regenerated from the source)
   accepts exactly the arguments that denote a value in [max(BLOCKSZ_MIN, SyslogProcessor::BLOCKSZ_MIN), BLOCKSZ_MAX]
   and returns the denoted value; malformed and out-of-range arguments are rejected. *)
From S4.Model Require Import BlockszArg.
From S4.Proofs Require Import BlockszArgProofs.

Theorem blocksz_parse_correct : forall s v,
  process_blocksz s = Some v <-> denotes s v /\ blocksz_lo <= v /\ v <= blocksz_max.
Proof. exact BlockszArgProofs.blocksz_parse_correct. Qed.
Print Assumptions blocksz_parse_correct.

Theorem blocksz_malformed_rejected : forall s, (forall v, ~ denotes s v) -> process_blocksz s = None.
Proof. exact BlockszArgProofs.blocksz_malformed_rejected. Qed.
Print Assumptions blocksz_malformed_rejected.

Theorem blocksz_out_of_range_rejected : forall s,
  (forall v, denotes s v -> v < blocksz_lo \/ blocksz_max < v) -> process_blocksz s = None.
Proof. exact BlockszArgProofs.blocksz_out_of_range_rejected. Qed.
Print Assumptions blocksz_out_of_range_rejected.

(* u64::from_str_radix: Some v iff the string is an optional '+' and >= 1 digits of the radix whose value fits u64 *)
Theorem blocksz_from_str_radix_spec : forall radix s v, 0 < radix ->
  (from_str_radix radix s = Some v <-> numeral radix s v /\ v <= u64_max).
Proof. exact BlockszArgProofs.from_str_radix_spec. Qed.
Print Assumptions blocksz_from_str_radix_spec.
(* ---- end of WP-G block (2) ---- *)

(* ====================================================================================== *)
(* WP-G (3): the two oracle hypotheses of ezcheck_sound DISCHARGED from the regenerated regex ASTs
   (Gen/RegexTables.v + Model/Regex.v + Proofs/RegexProofs.v of C04, read-only here) *)
From S4.Model Require Import Regex.
From S4.Gen Require Import RegexTables.
From S4.Proofs Require Import RegexProofs EzcheckRegex EzcheckRegexDt.

(* the syntactic predicates are sound for EVERY regex of the AST: whatever the declarative relation M relates
   consumed a word with the stated content *)
Theorem ezcheck_regex_predicates_sound : forall r s s', M r s s' ->
  exists w, c_rem s = w ++ c_rem s' /\
    (must12 r = true -> D12 w) /\ (mustd2 r = true -> D2 w) /\ (firstd r = true -> Fd w) /\ (lastd r = true -> Ld w).
Proof. exact EzcheckRegex.sem. Qed.
Print Assumptions ezcheck_regex_predicates_sound.

(* table obligation on the regenerated rows: ALL rows with a four-digit year have must12, ALL rows with has_d2 have
   mustd2, rows are indexed in order (no row is left to per-match validation) *)
Theorem ezcheck_rows_discharged : rows_discharged_b = true.
Proof. exact EzcheckRegex.rows_discharged_ok. Qed.
Print Assumptions ezcheck_rows_discharged.

(* EZCHECK soundness with the regex model as the matcher and ANY conversion of the match: no oracle hypothesis *)
Theorem ezcheck_sound_regex : forall post c line,
  parse_ez (match_slice_rx post) C12.info_tab c line =
  parse_plain (dated_by_row_of (match_slice_rx post) C12.info_tab) c line.
Proof. exact EzcheckRegex.ezcheck_sound_regex. Qed.
Print Assumptions ezcheck_sound_regex.

Theorem gate_as_coded_regex_accept_spec : forall post bs (f : file),
  sp_blocksz_min <= bs -> bs <= blocksz_max ->
  in_classes (dated_by_row_of (match_slice_rx post) C12.info_tab) C12.rows_tab bs f = false ->
  accepted (gate_ez (match_slice_rx post) C12.info_tab C12.rows_tab bs f) =
  spec_accept (dated_by_row_of (match_slice_rx post) C12.info_tab) C12.rows_tab f.
Proof. exact EzcheckRegex.gate_as_coded_regex_accept_spec. Qed.
Print Assumptions gate_as_coded_regex_accept_spec.

(* dated_model of Model/RegexDt.v is that oracle (conversion step = normalise + chrono parse on the slice) *)
Theorem ezcheck_dated_model_is_oracle : forall mt tzt yo off r row drow (line : Bytes.bytes),
  nth_error rx_table (N.to_nat r) = Some row -> nth_error DatetimeTables.dt_table (N.to_nat r) = Some drow ->
  option_map (fun x => fst (fst x)) (RegexDt.dated_model mt tzt row (Normalise.r_dtfs drow) line yo off) =
  dated_by_row_of (match_slice_rx (post_dm mt tzt yo off)) C12.info_tab r line.
Proof. exact EzcheckRegexDt.dated_model_is_oracle. Qed.
Print Assumptions ezcheck_dated_model_is_oracle.

Theorem ezcheck_sound_dated_model : forall mt tzt yo off c line,
  parse_ez (match_slice_rx (post_dm mt tzt yo off)) C12.info_tab c line =
  parse_plain (dated_by_row_of (match_slice_rx (post_dm mt tzt yo off)) C12.info_tab) c line.
Proof. exact EzcheckRegexDt.ezcheck_sound_dated_model. Qed.
Print Assumptions ezcheck_sound_dated_model.
(* ---- end of WP-G block (3) ---- *)
