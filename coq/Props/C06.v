(* Props/C06.v — property C06 "Output is independent of thread scheduling and the run
   always ends".  Statements only; every proof is `exact <lemma>`.

   The transition system is Model/Coord.v: N workers each sending
   FileInfo, NewMessage*, FileSummary over a bounded FIFO channel of capacity cap,
   and the coordinator loop of `processing_loop`.  All theorems hold for every N,
   every list of messages per source (chronological or not, empty or not), every
   capacity >= 1 and every interleaving (no fairness assumption). *)
From Coq Require Import List ZArith NArith Bool Arith.
From S4.Model Require Import Merge Coord.
From S4.Gen Require Import CoordTables.
From S4.Proofs Require Import MergeProofs CoordProofs CoordReplayProofs CoordTablesOk CoordExamples.
Import ListNotations.

(* the regenerated CHANNEL_CAPACITY is within the range the theorems cover *)
Theorem C06_capacity_pos : (1 <= channel_capacity)%N.
Proof. exact capacity_pos. Qed.
Print Assumptions C06_capacity_pos.

(* invariant of every reachable state: protocol phase per source (src_ok), the
   FileInfo map is non-empty exactly while some FileInfo is outstanding, and what
   was printed followed by the merge of what remains is the merge of the inputs *)
Theorem C06_inv_reachable : forall cap Ss s,
  reachable cap Ss s ->
  Forall src_ok (srcs s) /\
  fi_open s = negb (forallb got_fi (srcs s)) /\
  printed s ++ merge (map remaining (srcs s)) = merge Ss.
Proof. exact inv_reachable. Qed.
Print Assumptions C06_inv_reachable.

(* no deadlock: a reachable state in which some channel is still live has an enabled event *)
Theorem C06_no_deadlock : forall cap Ss s,
  1 <= cap -> reachable cap Ss s -> final s = false -> exists e s', step cap s e = Some s'.
Proof. exact no_deadlock. Qed.
Print Assumptions C06_no_deadlock.

(* every step strictly decreases
   mu = sum_i 3|unsent_i| + 2|queue_i| + [pending_i] + [live_i] ... *)
Theorem C06_measure_decreases : forall cap s e s', step cap s e = Some s' -> mu s' < mu s.
Proof. exact measure_decreases. Qed.
Print Assumptions C06_measure_decreases.

(* ... so EVERY execution, fair or not, is finite, with an explicit bound *)
Theorem C06_executions_bounded : forall cap es s s',
  run cap s es = Some s' -> length es + mu s' <= mu s.
Proof. exact executions_bounded. Qed.
Print Assumptions C06_executions_bounded.

Theorem C06_mu_init : forall Ss, mu (init Ss) = 3 * total Ss + 7 * length Ss.
Proof. exact mu_init. Qed.
Print Assumptions C06_mu_init.

(* when the loop ends, stdout is the merge of the inputs and every source is drained *)
Theorem C06_final_output_unique : forall cap Ss s,
  reachable cap Ss s -> final s = true ->
  printed s = merge Ss /\ Forall drained (srcs s).
Proof. exact final_output_unique. Qed.
Print Assumptions C06_final_output_unique.

(* hence: every maximal execution under any schedule ends, having printed merge Ss *)
Theorem C06_schedule_independence : forall cap Ss es s',
  1 <= cap -> run cap (init Ss) es = Some s' -> (forall e, step cap s' e = None) ->
  final s' = true /\ printed s' = merge Ss /\ Forall drained (srcs s').
Proof. exact schedule_independence. Qed.
Print Assumptions C06_schedule_independence.

(* complete executions exist (the statements above are not vacuous) *)
Theorem C06_complete_run_exists : forall cap Ss,
  1 <= cap ->
  exists es s', run cap (init Ss) es = Some s' /\ final s' = true /\ printed s' = merge Ss.
Proof. exact complete_run_exists. Qed.
Print Assumptions C06_complete_run_exists.

(* instance at the shipped capacity *)
Theorem C06_shipped_capacity : 1 <= N.to_nat channel_capacity.
Proof. exact capacity_pos_nat. Qed.
Print Assumptions C06_shipped_capacity.

(* the replay used by the correspondence run never runs out of fuel, and a
   successful replay is a complete execution of the transition system *)
Theorem C06_replay_fuel_enough : forall cap Ss recvs, coord_replay cap Ss recvs <> ROutOfFuel.
Proof. exact coord_replay_never_out_of_fuel. Qed.
Print Assumptions C06_replay_fuel_enough.

Theorem C06_replay_output : forall cap Ss recvs t s',
  coord_replay cap Ss recvs = RDone t s' ->
  final s' = true /\ printed s' = merge Ss /\ Forall drained (srcs s').
Proof. exact coord_replay_output. Qed.
Print Assumptions C06_replay_output.

(* ... and its print events name the sources of [merge Ss], in order *)
Theorem C06_replay_prints : forall cap Ss recvs t s',
  well_tagged Ss -> coord_replay cap Ss recvs = RDone t s' ->
  tprints t = map m_src (merge Ss).
Proof. exact replay_prints. Qed.
Print Assumptions C06_replay_prints.

(* isolation (used by C07): a source that fails after k messages (k = 0:
   FileInfo(err), FileSummary) does not disturb the others, under any schedule *)
Theorem C06_failing_source_isolated : forall cap A x B k s,
  well_tagged (A ++ x :: B) ->
  reachable cap (A ++ firstn k x :: B) s -> final s = true ->
  filter (fun m => negb (from_src (length A) m)) (printed s) = merge (A ++ B) /\
  filter (from_src (length A)) (printed s) = firstn k x.
Proof. exact failing_source_isolated. Qed.
Print Assumptions C06_failing_source_isolated.

(* any set of sources emptied (P recognises the messages of the surviving sources) *)
Theorem C06_merge_isolation : forall (P : msg -> bool) X X',
  Forall2 (emptied P) X X' -> filter P (merge X) = merge X'.
Proof. exact merge_isolation. Qed.
Print Assumptions C06_merge_isolation.

(* ---- examples: two schedules of the same input (one with a worker blocked on a
   full channel), a blocked send, no early print, a replay ---- *)
Example C06_ex_sched_a : final_of (run 1 (init ex2) sched_a) = true /\
                         out_of (run 1 (init ex2) sched_a) = [(0, 0); (0, 1); (1, 0)].
Proof. exact ex_sched_a. Qed.
Print Assumptions C06_ex_sched_a.

Example C06_ex_sched_b : final_of (run 1 (init ex2) sched_b) = true /\
                         out_of (run 1 (init ex2) sched_b) = [(0, 0); (0, 1); (1, 0)].
Proof. exact ex_sched_b. Qed.
Print Assumptions C06_ex_sched_b.

Example C06_ex_send_blocks : run 1 (init ex2) [Send 1; Send 1] = None.
Proof. exact ex_send_blocks. Qed.
Print Assumptions C06_ex_send_blocks.

Example C06_ex_no_early_print :
  run 1 (init ex2) [Send 1; Recv 1; Send 1; Recv 1; Send 0; Recv 0; Print] = None.
Proof. exact ex_no_early_print. Qed.
Print Assumptions C06_ex_no_early_print.

(* ==========================================================================================
   WHOLE-PROGRAM COMPOSITION (work package H, schedule part; the order part, the composition
   theorem C01_program_correct and the adapter lemmas are in Props/C01.v).
   [program_m cap bs rps sched o files] (Model/Program.v; rps: the reader parameters of the text workers) runs the coordinator transition system above
   under the event list [sched] on the datums the block-wise readers and the search loop produce
   for the files, and prints through the printer / summary models.
   ========================================================================================== *)
From S4.Model Require Print Summary Gate.
From S4.Model Require Import Program.
From S4.Proofs Require Import ProgramProofs ProgramExamples.

(* schedule independence of the WHOLE output: stdout items and summary totals *)
Theorem C06_program_schedule_independent : forall O cap bs rps sched1 sched2 o files,
  (0 < bs)%N -> domain O o files -> gate_passed O bs o files ->
  complete O cap o files sched1 -> complete O cap o files sched2 ->
  program_m O cap bs rps sched1 o files = program_m O cap bs rps sched2 o files.
Proof. exact program_schedule_independent. Qed.
Print Assumptions C06_program_schedule_independent.

(* under EVERY maximal execution (any interleaving, no fairness assumption, any capacity >= 1) the
   whole program prints the specification *)
Theorem C06_program_correct_maximal : forall O cap bs rps sched s' o files,
  1 <= cap -> (0 < bs)%N -> domain O o files -> gate_passed O bs o files ->
  run cap (init (tags_of (spec_sources O o files))) sched = Some s' ->
  (forall e, step cap s' e = None) ->
  program_m O cap bs rps sched o files = POk (program_spec O o files).
Proof. exact program_correct_maximal. Qed.
Print Assumptions C06_program_correct_maximal.

(* complete schedules exist for every input; every maximal execution is complete *)
Theorem C06_complete_schedule_exists : forall O cap o files, 1 <= cap ->
  exists sched, complete O cap o files sched.
Proof. exact complete_schedule_exists. Qed.
Print Assumptions C06_complete_schedule_exists.

Theorem C06_maximal_schedule_complete : forall O cap o files sched s', 1 <= cap ->
  run cap (init (tags_of (spec_sources O o files))) sched = Some s' ->
  (forall e, step cap s' e = None) ->
  complete O cap o files sched.
Proof. exact maximal_schedule_complete. Qed.
Print Assumptions C06_maximal_schedule_complete.

(* an event list that is not an execution, or stops early, is reported — not accepted *)
Example C06_program_example_incomplete :
  program_m O_ex 1 3 rps_ex (firstn 10 sched_lazy) opts_ex files_ex = PNotFinal /\
  program_m O_ex 1 3 rps_ex [Print] opts_ex files_ex = PSchedule.
Proof. exact ex_incomplete. Qed.
Print Assumptions C06_program_example_incomplete.

Example C06_program_example_two_schedules :
  program_m O_ex 1 3 rps_ex sched_lazy opts_ex files_ex = POk (program_spec O_ex opts_ex files_ex) /\
  program_m O_ex 5 64 rps_ex sched_eager opts_ex files_ex = POk (program_spec O_ex opts_ex files_ex).
Proof. exact ex_program_by_theorem. Qed.
Print Assumptions C06_program_example_two_schedules.
