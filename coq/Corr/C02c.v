(* Corr/C02c.v — correspondence of the CACHE model (Model/Caches.v) with the in-process readers.

   A case is one file at one block size with the `dated` table and a sequence of operations on
   ONE LineReader and ONE SyslineReader, each with the implementation's answer AND the counters
   its summary() reported after the operation:
     lc = [lines; stored_highest; hits; miss; lru_hit; lru_miss; lru_put; drop_ok; drop_errors]
     sc = [syslines; stored_highest; hit; miss; range_hit; range_miss; range_put; lru_hit; lru_miss;
           lru_put; parse_hit; parse_miss; parse_put; drop_ok; drop_errors; syslines stored;
           lines processed by the inner LineReader] ++ lc of the INNER LineReader (hook
           SyslineReader::verif_linereader_summary)
   `cache_bad` replays the sequence on the model (c_step) and returns, per disagreeing operation,
   (1000 * case index + op index, code): 1 = different answer, 2 = the model ended in
   OutOfFuel / an unexpected Panic, 3 = same answer but different counters, 4 = the
   implementation panicked and the model did not (or vice versa); after an agreed panic the
   sequence ends.  Entries (10^9 + path code, 1) report which path answered (coverage). *)
From Coq Require Import String.
From S4.Base Require Import Bytes Chunk.
From S4.Model Require Import Lines Syslines Caches.
From S4.Corr Require Import C02.
Open Scope N_scope.

Definition lans := option (N * N * N * N * N * N * string).
Definition sans := option (N * N * N * N * Z * string).

Inductive iop : Type :=
| IL (fo : N) (r : lans) (c : list N)
| ILB (fo : N) (r : lans) (part : option (N * N * string)) (c : list N)
| ILE (on : bool) (c : list N)
| IS (fo : N) (r : sans) (c : list N)
| ISB (fo : N) (r : sans) (pf : bool) (c : list N)
| ISE (on : bool) (c : list N)
| IDD (bo : N) (c : list N)
| IDS (fo : N) (c : list N)
| IRD (plan : list bool) (r : list (N * N * N * Z * string)) (c : list N)
| IXD (c : list N)
| IRW (fa fb : option Z) (plan : list bool) (r : option (list (N * N * N * Z * string))) (c : list N)
      (* the stage driver with the datetime window (streamed files: linear search); r = None: it panicked *)
| IRY (tabs : list (Z * list (string * Z))) (year : Z) (fa fb : option Z) (plan : list bool)
      (r : option (list (N * N * N * Z * string)))
      (* a log without years through SyslogProcessor (stages 1-3, process_missing_year) on a FRESH reader: tabs =
         the oracle per candidate year, year = year of the modification time; instants in seconds (tol 25 h) *)
| IPANIC (o : cop).

(* block size, container (0 plain file, 1 gz / bz2 / lz4, 2 xz, 3 tar member), the bytes, the oracle table, the
   operations *)
Definition ccase : Type := (N * N * string * list (string * Z) * list iop)%type.

(* the BlockReader right after BlockReader::new *)
Definition open_kind (k bs filesz : N) : bstate :=
  match k with
  | 0 => b_init false
  | 1 => b_open KSeq bs filesz
  | 2 => b_open KXz bs filesz
  | _ => b_open KTar bs filesz
  end.

Definition iop_cop (o : iop) : cop :=
  match o with
  | IL fo _ _ => OL fo | ILB fo _ _ _ => OLB fo | ILE on _ => OLE on
  | IS fo _ _ => OS fo | ISB fo _ _ _ => OSB fo | ISE on _ => OSE on
  | IDD bo _ => ODD bo | IDS fo _ => ODS fo | IRD plan _ _ => ORD plan | IXD _ => OXD
  | IRW _ _ plan _ _ => ORD plan          (* not used: step_iop runs c_stream_win *)
  | IRY _ _ _ _ plan _ => ORD plan        (* not used: step_iop runs c_stream_year *)
  | IPANIC o => o
  end.

Fixpoint eqlist (a b : list N) : bool :=
  match a, b with
  | [], [] => true
  | x :: a', y :: b' => (x =? y) && eqlist a' b'
  | _, _ => false
  end.

Definition bc_list (b : bstate) : list N :=
  let c := b_cnt b in
  [bc_lru_hit c; bc_lru_miss c; bc_lru_put c; bc_hit c; bc_miss c; bc_put c; bc_reread c; bc_highest c;
   bc_drop_ok c; bc_drop_err c; lenN (b_read b)].

Definition lc_list0 (st : lr_state) : list N :=
  let c := l_cnt st in
  [lc_processed c; lc_highest c; lc_hits c; lc_miss c; lc_lru_hit c; lc_lru_miss c; lc_lru_put c;
   lc_drop_ok c; lc_drop_err c].
Definition lc_list (st : lr_state) : list N := lc_list0 st ++ bc_list (l_blk st).

Definition sc_list (st : sr_state) : list N :=
  let c := s_cnt st in
  [sc_count c; sc_highest c; sc_hit c; sc_miss c; sc_range_hit c; sc_range_miss c; sc_range_put c;
   sc_lru_hit c; sc_lru_miss c; sc_lru_put c; sc_parse_hit c; sc_parse_miss c; 0;
   sc_drop_ok c; sc_drop_err c; lenN (s_syslines st); lc_processed (l_cnt (s_lr st))]
  ++ lc_list0 (s_lr st) ++ bc_list (l_blk (s_lr st)).

Definition line_agrees (bs : N) (f : file) (fo_next : N) (ln : line) (r : N * N * N * N * N * N * string) : bool :=
  let '(ifo, ib, ie, inp, ibf, ibl, ih) := r in
  match line_fo_begin bs ln, line_fo_end bs ln with
  | Some b, Some e =>
      (fo_next =? ifo) && (b =? ib) && (e =? ie) && (lenN ln =? inp)
      && (part_bo_first ln =? ibf) && (part_bo_last ln =? ibl) && beqb (bytes_of bs f ln) (unhex ih)
  | _, _ => false
  end.

(* 0 agree, 1 differ, 2 model failure, 4 model panic *)
Definition cmp_line (bs : N) (f : file) (m : res (N * sline)) (r : lans) : N :=
  match m, r with
  | Done, None => 0
  | Found (n, s), Some x => if line_agrees bs f n (sl_parts s) x then 0 else 1
  | OutOfFuel, _ => 2
  | Panic, _ => 4
  | _, _ => 1
  end.

Definition cmp_part (bs : N) (f : file) (m : option sline) (r : option (N * N * string)) : bool :=
  match m, r with
  | None, None => true
  | Some s, Some (ib, ie, ih) =>
      match line_fo_begin bs (sl_parts s), line_fo_end bs (sl_parts s) with
      | Some b, Some e => (b =? ib) && (e =? ie) && beqb (bytes_of bs f (sl_parts s)) (unhex ih)
      | _, _ => false
      end
  | _, _ => false
  end.

Definition cmp_sysline (bs : N) (f : file) (m : res (N * ssl)) (r : sans) : N :=
  match m, r with
  | Done, None => 0
  | Found (n, s), Some (ifo, ib, ie, inln, idt, ih) =>
      if (n =? ifo) && sysline_agrees bs f (ss_sysline s) ib ie inln idt ih then 0 else 1
  | OutOfFuel, _ => 2
  | Panic, _ => 4
  | _, _ => 1
  end.

Definition lpath_code (p : lpath) : N :=
  match p with
  | PLru => 0 | PEof => 1 | PLines => 2 | PByEnd => 3 | PA0 => 4 | PA1a => 5 | PA1b => 6
  | PSearch => 7 | PInBlockDone => 8 | PFail => 9 | PGone => 50
  end.
Definition spath_code (p : spath) : N :=
  match p with
  | QLru => 20 | QRange => 21 | QSyslines => 22 | QSearch => 23 | QDoneLine => 24
  | QInBlockDone => 25 | QPanicDropped => 26 | QFail => 27
  end.

Definition cres_path (r : cres) : N :=
  match r with
  | RL _ p => lpath_code p | RLB _ _ p => 10 + lpath_code p
  | RS _ p => spath_code p | RSB _ _ p => 10 + spath_code p
  | RR _ => 40 | RU => 41
  end.

(* result code and counter agreement of one step *)
Definition cmp_step (bs : N) (f : file) (st : cstate) (o : iop) (x : cres) : N :=
  let '(l, s) := st in
  let cnt (code : N) (ok : bool) := if negb (code =? 0) then code else if ok then 0 else 3 in
  match o, x with
  | IL _ r c, RL m _ => cnt (cmp_line bs f m r) (eqlist (lc_list l) c)
  | ILB _ r part c, RLB m mp _ =>
      cnt (let k := cmp_line bs f m r in if negb (k =? 0) then k else if cmp_part bs f mp part then 0 else 1)
          (eqlist (lc_list l) c)
  | ILE _ c, RU => cnt 0 (eqlist (lc_list l) c)
  | IS _ r c, RS m _ => cnt (cmp_sysline bs f m r) (eqlist (sc_list s) c)
  | ISB _ r pf c, RSB m mpf _ =>
      cnt (let k := cmp_sysline bs f m r in if negb (k =? 0) then k else if Bool.eqb pf mpf then 0 else 1)
          (eqlist (sc_list s) c)
  | ISE _ c, RU => cnt 0 (eqlist (sc_list s) c)
  | IDD _ c, RU => cnt 0 (eqlist (sc_list s) c)
  | IDS _ c, RU => cnt 0 (eqlist (sc_list s) c)
  | IXD c, RU => cnt 0 (eqlist (sc_list s) c)
  | IRD _ r c, RR m =>
      cnt (match m with
           | Found sls => if stream_agrees bs f (map ss_sysline sls) r then 0 else 1
           | Done => 1 | OutOfFuel => 2 | Panic => 4
           end) (eqlist (sc_list s) c)
  | IRW _ _ _ (Some r) c, RR m =>
      cnt (match m with
           | Found sls => if stream_agrees bs f (map ss_sysline sls) r then 0 else 1
           | Done => 1 | OutOfFuel => 2 | Panic => 4
           end) (eqlist (sc_list s) c)
  | IRW _ _ _ None _, _ => if cres_panicked x then 0 else 4
  | IRY _ _ _ _ _ (Some r), RR m =>
      match m with
      | Found sls => if stream_agrees bs f (map ss_sysline sls) r then 0 else 1
      | Done => 1 | OutOfFuel => 2 | Panic => 4
      end
  | IRY _ _ _ _ _ None, _ => if cres_panicked x then 0 else 4
  | IPANIC _, _ => if cres_panicked x then 0 else 4
  | _, _ => 2
  end.

Fixpoint zassoc {A} (k : Z) (l : list (Z * A)) : option A :=
  match l with [] => None | (k', v) :: r => if (k =? k')%Z then Some v else zassoc k r end.

(* the oracle with the year: the case's table for the filler year, the tables of the operation for the others *)
Definition dated_years (dated : list N -> option Z) (tabs : list (Z * list (string * Z))) (y : option Z) (l : list N)
  : option Z :=
  match y with
  | None => dated l
  | Some y => match zassoc y tabs with Some t => dated_tab t l | None => None end
  end.

(* one operation on the model: c_step, or the window driver on the SyslineReader *)
Definition step_iop (dated : list N -> option Z) (bs : N) (f : file) (st : cstate) (o : iop) : cstate * cres :=
  match o with
  | IRY tabs year fa fb plan _ =>
      let dy := dated_years dated tabs in
      (* a fresh SyslineReader: the case consists of this one operation, the block state is the one of open_kind *)
      let s0 := c_gate (dy None) 2 2 bs f (sr_init_b (l_blk (fst st))) in
      let '(s, r) := c_stream_year dy bs f 90000%Z year fa fb plan s0 in ((fst st, snd st), RR r)
  | IRW fa fb plan _ _ =>
      let '(s, r) := c_stream_win dated bs f fa fb plan (snd st) in ((fst st, s), RR r)
  | _ => c_step dated bs f st (iop_cop o)
  end.

Fixpoint replay (dated : list N -> option Z) (bs : N) (f : file) (st : cstate) (j : N) (ops : list iop)
  : list (N * N) :=
  match ops with
  | [] => []
  | o :: r =>
      let '(st', x) := step_iop dated bs f st o in
      let code := cmp_step bs f st' o x in
      (if code =? 0 then [] else [(j, code)]) ++ [(1000000000 + cres_path x, 1)] ++
      (if cres_panicked x then [] else replay dated bs f st' (j + 1) r)
  end.

Definition cache_bad (cs : list ccase) : list (N * N) :=
  flat_map (fun ic =>
    let '(i, (bs, stream, fh, tab, ops)) := ic in
    map (fun jc => if fst jc <? 1000000000 then (1000 * i + fst jc, snd jc) else jc)
        (replay (dated_tab tab) bs (unhex fh) (cinit_b (open_kind stream bs (lenN (unhex fh)))) 0 ops))
    (index_from 0 cs).
