(* Corr/C17a.v — cross-model evaluation for C17: the cache state machine of Model/Caches.v (WP-A,
   byte level, all summary() counters) and the retained-set model of Model/Retain.v run on the same
   layout; checks/c17.py compares the rows on every run (the theorems are Proofs/RetainCachesAgree.v, Proofs/RetainCachesLayout.v). *)
From Coq Require Import List NArith ZArith Bool.
Import ListNotations.
From S4.Base Require Import Bytes Chunk.
From S4.Model Require Import Lines Syslines Caches Retain RetainCaches.
Open Scope N_scope.

(* layout_file, dD, drop_plan: Model/RetainCaches.v *)
Definition cur_plain_cfg : cfg := {| pol := P_cur; streamed := false |}.

(* (blocks high, lines high, syslines high, drop_sysline ok, err, blocks / lines / syslines stored at the end) *)
Definition caches_row (bs : N) (layout : list (N * bool)) :=
  let ms := layout_msgs bs layout in
  let st := fst (c_stream dD bs (layout_file layout) (drop_plan ms) sr_init) in
  let l := s_lr st in
  (bc_highest (b_cnt (l_blk l)), lc_highest (l_cnt l), sc_highest (s_cnt st),
   sc_drop_ok (s_cnt st), sc_drop_err (s_cnt st),
   Chunk.lenN (b_blocks (l_blk l)), Chunk.lenN (l_lines l), Chunk.lenN (s_syslines st)).

Definition retain_row (bs : N) (layout : list (N * bool)) :=
  let ms := layout_msgs bs layout in
  let s := run cur_plain_cfg (init ms) (sched_lag 1 (length ms)) in
  (hb s, hl s, hs s, dok s, derr s, Retain.lenN (blocks s), Retain.lenN (lines s), Retain.lenN (syslines s)).

Fixpoint index_from' {A} (i : N) (l : list A) : list (N * A) :=
  match l with [] => [] | x :: r => (i, x) :: index_from' (i + 1) r end.

(* case = (prefix, base, repetitions, bs); row = (index, 8 figures of Caches, 8 figures of Retain), flat *)
Definition acase := (list (N * bool) * list (N * bool) * nat * N)%type.
Definition row_agree (ic : N * acase) :=
  let '(i, c) := ic in
  let '(pre, base, rep, bs) := c in
  let lay := pre ++ repeat_list base rep in
  let '(a1, a2, a3, a4, a5, a6, a7, a8) := caches_row bs lay in
  let '(b1, b2, b3, b4, b5, b6, b7, b8) := retain_row bs lay in
  (i, a1, a2, a3, a4, a5, a6, a7, a8, b1, b2, b3, b4, b5, b6, b7, b8).
Definition rows_agree (cs : list acase) := map row_agree (index_from' 0 cs).
