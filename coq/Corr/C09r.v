(* Corr/C09r.v — functions evaluated by the correspondence run of C09 for the ten renderings
   (Model/JournalRender.v with the configuration regenerated from the source, Gen/JournalTables.v).

   Byte strings in the generated case files are PACKED into primitive 63-bit integers (seven bytes
   per word, least significant first, below a marker bit; the last word holds the remaining 0..6
   bytes): Coq reads such literals about a hundred times faster than string or N literals, which is
   what lets the run compare every byte of megabytes of output.  Primitive integers are used here
   only, for decoding the inputs of the evaluation — never in Model/, Spec/, Proofs/ or Props/. *)
From Coq Require Import String Uint63.
From S4.Base Require Import Bytes.
From S4.Model Require Import Journal JournalRender.
From S4.Spec Require Import JournalSpec.
From S4.Gen Require Import JournalTables.
From S4.Corr Require Import C09.
Open Scope N_scope.

Definition bitN (w : int) (k : int) (v acc : N) : N :=
  if Uint63.is_zero (Uint63.land w (Uint63.lsl 1%uint63 k)) then acc else acc + v.
Definition byteN (w : int) : N :=
  bitN w 0%uint63 1 (bitN w 1%uint63 2 (bitN w 2%uint63 4 (bitN w 3%uint63 8 (bitN w 4%uint63 16
  (bitN w 5%uint63 32 (bitN w 6%uint63 64 (bitN w 7%uint63 128 0))))))).
Fixpoint wbytes (fuel : nat) (w : int) : bytes :=
  match fuel with
  | O => []
  | S f => if Uint63.leb w 1%uint63 then [] else byteN w :: wbytes f (Uint63.lsr w 8%uint63)
  end.
Definition unpack (ws : list int) : bytes := flat_map (wbytes 8) ws.

Definition output_of_N (n : N) : output :=
  match n with
  | 0 => OShort | 1 => OShortPrecise | 2 => OShortIso | 3 => OShortIsoPrecise | 4 => OShortFull
  | 5 => OShortMonotonic | 6 => OShortUnix | 7 => OVerbose | 8 => OExport | _ => OCat
  end.

(* one entry: (receive time, cursor, monotonic, data objects as key/value) *)
Definition pentry := (Z * list int * option N * list (list int * list int))%type.
Definition mk_entry (x : pentry) : entry :=
  let '(t, cur, mono, fs) := x in
  mkEntry t (unpack cur) mono (map (fun kv => (unpack (fst kv), unpack (snd kv))) fs).

Definition dummy_entry : entry := mkEntry 0%Z [] None [].

Fixpoint first_diff (i : N) (a b : bytes) : N :=
  match a, b with
  | [], [] => 0
  | x :: a', y :: b' => if x =? y then first_diff (i + 1) a' b' else i + 1
  | _, _ => i + 1
  end.

(* case = (rendering, zone offset in seconds, sd_id128_get_boot succeeded on the host,
           positions (in the chunk) of the entries the run selected, as runs, stdout of the binary)
   result: (case index, 1 + offset of the first byte at which model and binary differ) *)
Definition rcase := (N * Z * bool * list (N * N) * list int)%type.
Definition render_bad (es : list pentry) (cs : list rcase) : list (N * N) :=
  let ents := map mk_entry es in
  flat_map (fun ic => let '(i, (o, off, bok, runs, impl)) := ic in
                      let sel := map (fun k => nth (N.to_nat k) ents dummy_entry) (expand runs) in
                      let m := emit (map (next_entry src_cfg (mkEnv off bok) (output_of_N o)) sel) in
                      match first_diff 0 m (unpack impl) with
                      | 0 => []
                      | d => [(i, d)]
                      end) (index_from 0 cs).

(* the whole run inside the model: journal_stdout10 with the reference oracle on the chunk taken as a
   journal, for window A B.  case = (rendering, offset, boot ok, A, B, stdout) *)
Definition wcase := (N * Z * bool * option Z * option Z * list int)%type.
Definition render_run_bad (es : list pentry) (cs : list wcase) : list (N * N) :=
  let ents := map mk_entry es in
  flat_map (fun ic => let '(i, (o, off, bok, A, B, impl)) := ic in
                      let m := journal_stdout10 ref_seek_head ref_seek_realtime stop_after src_cfg (mkEnv off bok)
                                                (output_of_N o) A B ents in
                      match first_diff 0 m (unpack impl) with
                      | 0 => []
                      | d => [(i, d)]
                      end) (index_from 0 cs).

(* the model's bytes for one case, printed when a disagreement has to be shown *)
Definition render_show (es : list pentry) (c : rcase) : bytes :=
  let '(o, off, bok, runs, _) := c in
  let ents := map mk_entry es in
  emit (map (next_entry src_cfg (mkEnv off bok) (output_of_N o))
            (map (fun k => nth (N.to_nat k) ents dummy_entry) (expand runs))).

(* the monotonic field alone (f64 arithmetic): case = (microseconds, text printed between the brackets) *)
Definition mono_bad (cs : list (N * list int)) : list (N * N) :=
  flat_map (fun ic => let '(i, (mu, impl)) := ic in
                      if beqb (fmt_mono src_cfg mu) (unpack impl) then [] else [(i, 1)]) (index_from 0 cs).

(* datetime text alone: case = (rendering 0..6 | 7 = verbose header, microseconds, offset seconds, text) *)
Definition dt_text_bad (cs : list (N * Z * Z * list int)) : list (N * N) :=
  flat_map (fun ic => let '(i, (o, us, off, impl)) := ic in
                      let fmt := match cfg_dispatch src_cfg (output_of_N o) with
                                 | DShort f _ => f
                                 | _ => cfg_fmt_verbose src_cfg
                                 end in
                      match jstrftime fmt (us * 1000)%Z off with
                      | Some s => if beqb s (unpack impl) then [] else [(i, 1)]
                      | None => [(i, 2)]
                      end) (index_from 0 cs).

(* ---- packed variants of the export / cat / parser ties of Corr/C09.v (same result codes) *)
Definition unpack_fields (fs : list (list int * list int)) : list field :=
  map (fun kv => (unpack (fst kv), unpack (snd kv))) fs.

Definition export_bad_p (cs : list (pentry * list int)) : list (N * N) :=
  flat_map (fun ic => let '(i, (pe, impl)) := ic in
                      let e := mk_entry pe in
                      let b := unpack impl in
                      let m := if beqb (render_export e) b then 0 else 1 in
                      let p := match parse_export b with
                               | POk es => if beq_entries es [export_fields e] then 0 else 2
                               | _ => 2
                               end in
                      let o := if beqb (render_export_textonly e) b then 0 else 4 in
                      if m + p + o =? 0 then [] else [(i, m + p + o)]) (index_from 0 cs).

Definition cat_bad_p (cs : list (list (list int * list int) * list int)) : list (N * N) :=
  flat_map (fun ic => let '(i, (fs, impl)) := ic in
                      let e := mkEntry 0%Z [] None (unpack_fields fs) in
                      if beqb (render_cat e) (unpack impl) then [] else [(i, 1)]) (index_from 0 cs).

Definition parse_bad_p (cs : list (list int * option (list (list (list int * list int))))) : list (N * N) :=
  flat_map (fun ic => let '(i, (s, exp)) := ic in
                      let ok := match parse_export (unpack s), exp with
                                | POk es, Some xs => beq_entries es (map unpack_fields xs)
                                | PMalformed, None => true
                                | _, _ => false
                                end in
                      if ok then [] else [(i, 1)]) (index_from 0 cs).

(* packed variant of Corr/C09.cat_run_bad: a journal given by (receive time, MESSAGE value | none) *)
Definition mk_cat_journal_p (es : list (Z * option (list int))) : journal :=
  map (fun tm => mkEntry (fst tm) [] None
                   (match snd tm with
                    | Some m => [(s2b "PRIORITY", [54]); (k_message, unpack m)]
                    | None => [(s2b "PRIORITY", [54]); (s2b "MESSAGX", [120])]
                    end)) es.
Definition cat_run_bad_p (es : list (Z * option (list int))) (cs : list (option Z * option Z * list int)) : list (N * N) :=
  let j := mk_cat_journal_p es in
  flat_map (fun ic => let '(i, (A, B, impl)) := ic in
                      if beqb (journal_stdout ref_seek_head ref_seek_realtime stop_after RCat A B j) (unpack impl)
                      then [] else [(i, 1)]) (index_from 0 cs).
