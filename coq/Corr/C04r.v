(* Corr/C04r.v — functions evaluated by the C04 regex correspondence run (generated cases.v files):
   the `regex` crate's captures (harness c04r) vs Model/Regex.v on the REGENERATED pattern table. *)
From Coq Require Import String.
From Coq.Strings Require Import Byte.
From S4.Base Require Import Bytes.
From S4.Model Require Import Calendar Normalise Regex RegexPlan RegexDt.
From S4.Gen Require Import DatetimeTables RegexTables.
Close Scope string_scope.
Open Scope list_scope.
Open Scope N_scope.

Definition nth_rx (i : N) : option rx_row := find (fun r => rx_index r =? i) rx_table.

Definition span_eqb (a b : option (N * N)) : bool :=
  match a, b with
  | Some (x, y), Some (x', y') => (x =? x') && (y =? y')
  | None, None => true
  | _, _ => false
  end.
Fixpoint spans_eqb (a b : list (option (N * N))) : bool :=
  match a, b with
  | [], [] => true
  | x :: a', y :: b' => span_eqb x y && spans_eqb a' b'
  | _, _ => false
  end.
Definition result_eqb (a b : option (list (option (N * N)))) : bool :=
  match a, b with
  | Some x, Some y => spans_eqb x y
  | None, None => true
  | _, _ => false
  end.

(* what the model says, as one number (for the disagreement report):
   0 = no match; 1 + start*65536 + end = match; 2^40.. = OutOfFuel / Unknown / no such row *)
Definition code (r : res (option (list (option (N * N))))) : N :=
  match r with
  | Match None => 0
  | Match (Some (Some (a, b) :: _)) => 1 + a * 65536 + b
  | Match (Some _) => 1
  | NoMatch => 1099511627776
  | OutOfFuel => 1099511627777
  | Unknown => 1099511627778
  end.

Definition row_case (line : bytes) (idx : N) : res (option (list (option (N * N)))) :=
  match nth_rx idx with
  | Some r => row_spans r line
  | None => Unknown
  end.

Definition agree (m : res (option (list (option (N * N))))) (exp : option (list (option (N * N)))) : bool :=
  match m with Match x => result_eqb x exp | _ => false end.

(* ---- compact case encoding (Coq's parser is the bottleneck for structured case terms): every case is a
   pair of hex strings.  Expectation bytes per (row, line) pair:
     row index (1 byte), n (1 byte: 255 = no match, else the number of groups incl. group 0),
     then n spans of 4 bytes: start+1 (big endian, 2 bytes; 0 = group did not participate), end+1 (2 bytes). *)
Fixpoint dec_spans (n : nat) (b : bytes) : list (option (N * N)) * bytes :=
  match n with
  | O => ([], b)
  | S n' =>
      match b with
      | a1 :: a0 :: e1 :: e0 :: r =>
          let st := a1 * 256 + a0 in
          let en := e1 * 256 + e0 in
          let '(l, r') := dec_spans n' r in
          ((if st =? 0 then None else Some (st - 1, en - 1)) :: l, r')
      | _ => ([], [])
      end
  end.
Fixpoint dec_pairs (fuel : nat) (b : bytes) : list (N * option (list (option (N * N)))) :=
  match fuel with
  | O => []
  | S f =>
      match b with
      | row :: n :: r =>
          if n =? 255 then (row, None) :: dec_pairs f r
          else let '(l, r') := dec_spans (N.to_nat n) r in (row, Some l) :: dec_pairs f r'
      | _ => []
      end
  end.
(* first expectation byte = mode: 1 = every row of the table that is NOT listed is expected not to match *)
Definition dec_exp (h : hexs) : N * list (N * option (list (option (N * N)))) :=
  match unhexs h with
  | mode :: b => (mode, dec_pairs (length b) b)
  | [] => (0, [])
  end.

(* one line against its listed rows: disagreements as (ordinal of the pair within the line, model code) *)
Fixpoint line_bad (line : bytes) (l : list (N * option (list (option (N * N))))) (k : N) : list (N * N) :=
  match l with
  | [] => []
  | (idx, exp) :: r =>
      let mres := row_case line idx in
      if agree mres exp then line_bad line r (k + 1) else (k, code mres) :: line_bad line r (k + 1)
  end.
(* the unlisted rows (mode 1): ordinal 500 + row index *)
Definition unlisted_bad (line : bytes) (l : list (N * option (list (option (N * N))))) : list (N * N) :=
  flat_map (fun r => if existsb (fun p => fst p =? rx_index r) l then []
                     else let mres := row_spans r line in
                          if agree mres None then [] else [(500 + rx_index r, code mres)]) rx_table.
(* cases: (hex line, hex expectations) -> (line number * 1000 + pair ordinal, model code) *)
Fixpoint rx_bad_from (n : N) (cases : list (hexs * hexs)) : list (N * N) :=
  match cases with
  | [] => []
  | (lh, eh) :: r =>
      let line := unhexs lh in
      let '(mode, l) := dec_exp eh in
      map (fun kc => (n * 1000 + fst kc, snd kc))
          (line_bad line l 0 ++ (if mode =? 1 then unlisted_bad line l else []))
      ++ rx_bad_from (n + 1) r
  end.
Definition rx_bad (cases : list (hexs * hexs)) : list (N * N) := rx_bad_from 0 cases.

(* engine conformance cases on ad-hoc patterns: (pattern AST, group count, [(hex text, hex expectation)]);
   the expectation uses the same encoding with a dummy row byte *)
Definition pat_spans (r : re) (ncap : N) (text : bytes) : res (option (list (option (N * N)))) :=
  match search r text with
  | Match mt => Match (Some (spans_of ncap mt))
  | NoMatch => Match None
  | OutOfFuel => OutOfFuel
  | Unknown => Unknown
  end.
Fixpoint pat_bad_from (n : N) (r : re) (ncap : N) (l : list (hexs * hexs)) : list (N * N) :=
  match l with
  | [] => []
  | (th, eh) :: rest =>
      let mres := pat_spans r ncap (unhexs th) in
      match snd (dec_exp eh) with
      | [(_, exp)] => if agree mres exp then pat_bad_from (n + 1) r ncap rest
                      else (n, code mres) :: pat_bad_from (n + 1) r ncap rest
      | _ => (n, 1099511627779) :: pat_bad_from (n + 1) r ncap rest
      end
  end.
(* (pattern number * 100000 + text ordinal, model code) *)
Fixpoint pat_bad_all (k : N) (cases : list (re * N * list (hexs * hexs))) : list (N * N) :=
  match cases with
  | [] => []
  | (r, ncap, l) :: rest => pat_bad_from (k * 100000) r ncap l ++ pat_bad_all (k + 1) rest
  end.
Definition pat_bad (cases : list (re * N * list (hexs * hexs))) : list (N * N) := pat_bad_all 0 cases.

(* ------------------------------------------------------------------ the whole of bytes_to_regex_to_datetime,
   and the table-order pipeline around it (harness c04 "parse": first row whose call returns Some) *)
Definition nth_dt (i : N) : option dt_row := find (fun r => r_index r =? i) dt_table.
Definition dated_row (i : N) (line : bytes) (yo : option Z) (off : Z) : option (Z * N * N) :=
  match nth_rx i, nth_dt i with
  | Some row, Some dr => dated_model month_table tz_table row (r_dtfs dr) line yo off
  | _, _ => None
  end.
Fixpoint first_dated (rows : list rx_row) (line : bytes) (yo : option Z) (off : Z) : option (N * (Z * N * N)) :=
  match rows with
  | [] => None
  | row :: r => match dated_row (rx_index row) line yo off with
                | Some x => Some (rx_index row, x)
                | None => first_dated r line yo off
                end
  end.
Definition res_eqb (a b : option (N * (Z * N * N))) : bool :=
  match a, b with
  | Some (i, (t, x, y)), Some (i', (t', x', y')) => (i =? i') && (t =? t')%Z && (x =? x') && (y =? y')
  | None, None => true
  | _, _ => false
  end.
(* case: hex line, year_opt, fallback offset, implementation's (row, instant ns, dt_beg, dt_end) or None,
   full = compare the whole table-order pipeline (else only the claimed row).
   disagreements: (case number, 0 = model None / 1 + row = model claims that row) *)
Fixpoint dt_bad_from (n : N) (cases : list (hexs * option Z * Z * option (N * (Z * N * N)) * bool)) : list (N * N) :=
  match cases with
  | [] => []
  | (lh, yo, off, impl, full) :: r =>
      let line := unhexs lh in
      let m := if full then first_dated rx_table line yo off
               else match impl with
                    | Some (i, _) => option_map (fun x => (i, x)) (dated_row i line yo off)
                    | None => None
                    end in
      (if res_eqb m impl then [] else [(n, match m with Some (i, _) => 1 + i | None => 0 end)])
      ++ dt_bad_from (n + 1) r
  end.
Definition dt_bad cases := dt_bad_from 0 cases.

(* ------------------------------------------------------------------ how many generated lines lie in the domain
   of the universal theorem of their row (Props/C04.v C04_regex_dated_denotes_partial): (row, count) *)
Definition domain_count (cases : list (N * list hexs)) : list (N * N) :=
  map (fun rl =>
         match nth_rx (fst rl) with
         | Some row =>
             let p := row_plan row in
             let pnz := row_plan_nz row in
             (fst rl, N.of_nat (length (filter (fun h => match slice_of row (unhexs h) with
                                                         | Some sl => match in_domain p sl with
                                                                      | Some _ => true
                                                                      | None => match in_domain_pre (rx_re row) pnz sl with
                                                                                | Some _ => true | None => false end
                                                                      end
                                                         | None => false end) (snd rl))))
         | None => (fst rl, 0)
         end) cases.
