(* Corr/C15.v — functions evaluated by the C15 correspondence run.
   B:  process_path(path, unparseable_are_text) on real temporary trees vs process_path_m on the
       description of the same tree (absolute root string + components).
   Bs: process_path(typed string, ...) with the working directory at the tree's root vs
       process_path_s (lookup_str / rjoin / walk_base / norm_root) on the typed string.
   Bi: the path list of the s4 binary (argv with "-", bytes on stdin) vs args_of.
   Tree descriptions use hex strings for names. *)
From Coq Require Import String.
From S4.Base Require Import Bytes.
From S4.Model Require Import Classify Walk.
From S4.Gen Require Import ClassifyTables.
Open Scope N_scope.

Inductive stree :=
| SF (members : list (string * N * bool))
| SD (children : list (string * stree))
| SL (cpath : list string) (target : stree)
| SO
| SS.

Fixpoint to_tree (s : stree) : tree :=
  match s with
  | SF ms => File (map (fun m => let '(h, sz, isf) := m in (unhex h, sz, isf)) ms)
  | SD cs => Dir (map (fun nc => let '(h, c) := nc in (unhex h, to_tree c)) cs)
  | SL c x => Link (map unhex c) (to_tree x)
  | SO => Other
  | SS => Special
  end.

(* canonical result record: (kind, path bytes, type code)
   kind 1 Valid 2 Empty 3 NotSupported 4 NotAFile 5 NotExist 6 Err 7 outside the model 9 fuel *)
Definition ppr_code (r : ppr) : N * bytes * N :=
  match r with
  | PValid p t => (1, p, result_code (RFile t))
  | PEmpty p => (2, p, 0)
  | PNotSupported p => (3, p, 0)
  | PNotAFile p => (4, p, 0)
  | PNotExist p => (5, p, 0)
  | PFuel => (9, [], 0)
  | PErr p => (6, p, 0)
  | PEscape => (7, [], 0)
  end.

Definition model_results (root_str : string) (t : stree) (uat : bool) (req : list string) : list (N * bytes * N) :=
  map ppr_code (process_path_m sfx_table name_table junk junk_lead (unhex root_str) (to_tree t) uat (map unhex req)).

Fixpoint same (a : list (N * bytes * N)) (b : list (N * string * N)) : bool :=
  match a, b with
  | [], [] => true
  | (k, p, c) :: a', (k', h, c') :: b' => (k =? k') && beqb p (unhex h) && (c =? c') && same a' b'
  | _, _ => false
  end.

Fixpoint index_from {A} (i : N) (l : list A) : list (N * A) :=
  match l with [] => [] | x :: r => (i, x) :: index_from (i + 1) r end.

(* case = (root string, tree, unparseable_are_text, request components, implementation results) *)
Definition case_t := (string * stree * bool * list string * list (N * string * N))%type.

Definition model_bad (cs : list case_t) : list (N * N) :=
  flat_map (fun ic => let '(i, (rs, t, uat, req, impl)) := ic in
                      let m := model_results rs t uat req in
                      if same m impl then [] else [(i, N.of_nat (length m))]) (index_from 0 cs).

(* ---- Bs: typed strings, cwd = the tree's root ---- *)
Definition model_results_s (t : stree) (uat : bool) (typed : string) : list (N * bytes * N) :=
  map ppr_code (process_path_s sfx_table name_table junk junk_lead (to_tree t) uat (unhex typed)).

(* case = (tree, unparseable_are_text, typed string, implementation results) *)
Definition case_s := (stree * bool * string * list (N * string * N))%type.

(* 999999: the model says the string leaves the modelled tree (not a disagreement; counted) *)
Definition is_escape (m : list (N * bytes * N)) : bool :=
  match m with [(7, _, _)] => true | _ => false end.

Definition model_bad_s (cs : list case_s) : list (N * N) :=
  flat_map (fun ic => let '(i, (t, uat, typed, impl)) := ic in
                      let m := model_results_s t uat typed in
                      if is_escape m then [(i, 999999)]
                      else if same m impl then [] else [(i, N.of_nat (length m))]) (index_from 0 cs).

(* ---- Bi: argv and the bytes of stdin ---- *)
Fixpoint same_paths (a : list bytes) (b : list string) : bool :=
  match a, b with
  | [], [] => true
  | p :: a', h :: b' => beqb p (unhex h) && same_paths a' b'
  | _, _ => false
  end.

(* case = (argv, stdin bytes, the path list the implementation iterated over) *)
Definition case_i := (list string * string * list string)%type.

Definition model_bad_i (cs : list case_i) : list (N * N) :=
  flat_map (fun ic => let '(i, (argv, inp, impl)) := ic in
                      let m := args_of (map unhex argv) (unhex inp) in
                      if same_paths m impl then [] else [(i, N.of_nat (length m))]) (index_from 0 cs).
