(* Corr/C15.v — functions evaluated by the C15 correspondence run.
   B: process_path(path, unparseable_are_text) on real temporary trees vs process_path_m on the
   description of the same tree.  Tree descriptions use hex strings for names. *)
From Coq Require Import String.
From S4.Base Require Import Bytes.
From S4.Model Require Import Classify Walk.
From S4.Gen Require Import ClassifyTables.
Open Scope N_scope.

Inductive stree :=
| SF (members : list (string * N * bool))
| SD (children : list (string * stree))
| SL (cname : string) (target : stree)
| SO.

Fixpoint to_tree (s : stree) : tree :=
  match s with
  | SF ms => File (map (fun m => let '(h, sz, isf) := m in (unhex h, sz, isf)) ms)
  | SD cs => Dir (map (fun nc => let '(h, c) := nc in (unhex h, to_tree c)) cs)
  | SL c x => Link (unhex c) (to_tree x)
  | SO => Other
  end.

(* canonical result record: (kind, path bytes, type code)
   kind 1 Valid 2 Empty 3 NotSupported 4 NotAFile 5 NotExist 9 fuel *)
Definition ppr_code (r : ppr) : N * bytes * N :=
  match r with
  | PValid p t => (1, p, result_code (RFile t))
  | PEmpty p => (2, p, 0)
  | PNotSupported p => (3, p, 0)
  | PNotAFile p => (4, p, 0)
  | PNotExist p => (5, p, 0)
  | PFuel => (9, [], 0)
  end.

Definition model_results (root_str : string) (t : stree) (uat : bool) (req : list string) : list (N * bytes * N) :=
  map ppr_code (process_path_m sfx_table name_table junk junk_lead (unhex root_str) (to_tree t) uat (map unhex req)).

Fixpoint same (a : list (N * bytes * N)) (b : list (N * string * N)) : bool :=
  match a, b with
  | [], [] => true
  | (k, p, c) :: a', (k', h, c') :: b' => (k =? k') && beqb p (unhex h) && (c =? c') && same a' b'
  | _, _ => false
  end.

Fixpoint index_from {A} (i : N) (l : list A) : list (N * A) :=
  match l with [] => [] | x :: r => (i, x) :: index_from (i + 1) r end.

(* case = (root string, tree, unparseable_are_text, request components, implementation results) *)
Definition case_t := (string * stree * bool * list string * list (N * string * N))%type.

Definition model_bad (cs : list case_t) : list (N * N) :=
  flat_map (fun ic => let '(i, (rs, t, uat, req, impl)) := ic in
                      let m := model_results rs t uat req in
                      if same m impl then [] else [(i, N.of_nat (length m))]) (index_from 0 cs).
