(* Corr/C01.v — functions evaluated by the correspondence runs of C01 and C06
   (generated cases.v files, vm_compute).  No proofs here. *)
From Coq Require Import List ZArith NArith Bool.
From S4.Model Require Import Merge Coord.
Import ListNotations.
Open Scope N_scope.

Fixpoint index_from {A} (i : N) (l : list A) : list (N * A) :=
  match l with [] => [] | x :: r => (i, x) :: index_from (i + 1) r end.

(* ---- C (spec side): the order in which stdout attributes lines to (source, position)
   must be the order of [merge].  case = (instants per source, observed (src,pos) list) *)
Definition spec_order (srcs : list (list Z)) : list (N * N) :=
  map (fun m => (N.of_nat (m_src m), N.of_nat (m_pos m))) (merge (tag_srcs srcs)).

Fixpoint first_diff (k : N) (a b : list (N * N)) : N :=
  match a, b with
  | [], [] => 0
  | (x1, y1) :: a', (x2, y2) :: b' =>
      if (x1 =? x2) && (y1 =? y2) then first_diff (k + 1) a' b' else k
  | _, _ => k
  end.

(* 0 = equal, else 1 + index of the first difference *)
Definition order_code (srcs : list (list Z)) (obs : list (N * N)) : N :=
  first_diff 1 (spec_order srcs) obs.

Definition order_bad (cs : list (list (list Z) * list (N * N))) : list (N * N) :=
  flat_map (fun ic => let '(i, (srcs, obs)) := ic in
                      let c := order_code srcs obs in
                      if c =? 0 then [] else [(i, c)]) (index_from 0 cs).

(* ---- B (model side): coordinator trace conformance.
   trace event = (code, pathid): 0 R-FileInfo, 1 R-NewMessage, 2 R-FileSummary,
   3 R-RecvError, 4 P(rint), 5 D(isconnect) *)
Definition dec_kind (c : N) : kind :=
  match c with 0 => KI | 1 => KM | 2 => KS | _ => KE end.

Definition dec_ev (e : N * N) : tev :=
  let '(c, p) := e in
  if c <? 4 then TR (N.to_nat p) (dec_kind c)
  else if c =? 4 then TP (N.to_nat p) else TD (N.to_nat p).

Definition recvs_of (t : list (N * N)) : list (nat * kind) :=
  flat_map (fun e => let '(c, p) := e in if c <? 4 then [(N.to_nat p, dec_kind c)] else []) t.

Definition prints_of (t : list (N * N)) : list nat :=
  flat_map (fun e => let '(c, p) := e in if c =? 4 then [N.to_nat p] else []) t.

Definition tev_eqb (a b : tev) : bool :=
  match a, b with
  | TR i k, TR j l => Nat.eqb i j && kind_eqb k l
  | TP i, TP j => Nat.eqb i j
  | TD i, TD j => Nat.eqb i j
  | _, _ => false
  end.

Fixpoint list_eqb {A} (eqb : A -> A -> bool) (a b : list A) : bool :=
  match a, b with
  | [], [] => true
  | x :: a', y :: b' => eqb x y && list_eqb eqb a' b'
  | _, _ => false
  end.

(* 0 ok; 1-4 replay refused (see Coord.replay_result); 5 the coordinator's print /
   disconnect events differ from the replay; 6 print order differs from merge;
   7 out of fuel (excluded by CoordProofs.replay_fuel_enough) *)
Definition trace_code (cap : nat) (srcs : list (list Z)) (t : list (N * N)) : N :=
  let Ss := tag_srcs srcs in
  match coord_replay cap Ss (recvs_of t) with
  | RDone t' _ =>
      if list_eqb tev_eqb t' (map dec_ev t)
      then if list_eqb Nat.eqb (prints_of t) (map m_src (merge Ss)) then 0 else 6
      else 5
  | RBad w _ => N.of_nat w
  | ROutOfFuel => 7
  end.

Definition trace_bad (cap : nat) (cs : list (list (list Z) * list (N * N))) : list (N * N) :=
  flat_map (fun ic => let '(i, (srcs, t)) := ic in
                      let c := trace_code cap srcs t in
                      if c =? 0 then [] else [(i, c)]) (index_from 0 cs).
