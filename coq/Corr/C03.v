(* Corr/C03.v — functions evaluated by the correspondence run of C03 (generated cases.v files). *)
From Coq Require Import List NArith ZArith Bool.
Import ListNotations.
From S4.Spec Require Import WindowSpec.
From S4.Model Require Import Search.
Open Scope N_scope.

Fixpoint index_from {A} (i : N) (l : list A) : list (N * A) :=
  match l with [] => [] | x :: r => (i, x) :: index_from (i + 1) r end.

(* canonical observable of a search result: (kind, begin offset, next offset, instant)
   kind 0 Done | 1 Found | 2 Done after an error message | 3 panic | 4 out of fuel *)
Definition obs := (N * N * N * Z)%type.
Definition obs_of (r : sres) : obs :=
  match r with
  | SFound fo s => (1, s_beg s, fo, s_t s)
  | SDone => (0, 0, 0, 0%Z)
  | SDoneErr c => (2, c, 0, 0%Z)
  | SPanic c => (3, 0, 0, 0%Z)
  | SOutOfFuel => (4, 0, 0, 0%Z)
  end.
Definition obs_eqb (a b : obs) : bool :=
  let '(k1, b1, n1, t1) := a in let '(k2, b2, n2, t2) := b in
  (k1 =? k2) && (b1 =? b2) && (n1 =? n2) && (t1 =? t2)%Z.
Definition obs_num (o : obs) : N := let '(k, b, n, _) := o in k * 1000000000 + b.

(* ---- number of find_sysline calls a search makes.  The implementation's count is observable
   (every call increments the LRU cache hit or miss counter of SyslineReader::summary()), so the
   iteration structure of the loops -- what the fuel theorems speak about -- is tied as well. *)
Section Calls.
  Variables (gs : list sl) (filesz : N) (dt : option Z) (fo0 : N).
  (* 1 when the end game looks at the next message (find_sysline(fo_next)), else 0 *)
  Definition endgame_extra (done : bool) (st : bst) : N :=
    if done && (try_fo st =? try_fo_last st) then 0
    else if negb (try_fo st =? try_fo_last st) then 0
    else match last_found st with
         | None => 0
         | Some s => if is_last filesz s && (s_beg s <? try_fo st) then 0
                     else if s_beg s <? try_fo st then 1 else 0
         end.
  Fixpoint bcalls (fuel : nat) (st : bst) : N :=
    match fuel with
    | O => 0
    | S f =>
      match bmatch gs dt fo0 st with
      | inr _ => 1
      | inl (done, st') =>
        1 + endgame_extra done st' +
        match endgame gs filesz dt done st' with Continue st'' => bcalls f st'' | Return _ => 0 end
      end
    end.
  Fixpoint lcalls (fuel : nat) (fo : N) : N :=
    match fuel with
    | O => 0
    | S f =>
      match find gs fo with
      | FDone => 1
      | FFound s => match dt_after_or_before (s_t s) dt with
                    | OccursBefore => 1 + lcalls f (s_next s)
                    | _ => 1
                    end
      end
    end.
End Calls.

(* ---- B: implementation vs model.
   query = (mode, A, B, fo0, observed, observed number of find_sysline calls)
                                         mode 0 find_sysline_at_datetime_filter (binary search)
                                              1 the same on a streamed file (linear search)
                                              2 find_sysline_between_datetime_filters, plain
                                              3 the same, streamed
                                              4 find_sysline *)
Definition query := (N * option Z * option Z * N * obs * N)%type.
Definition model_obs (lead : N) (l : layout) (q : query) : obs :=
  let '(mode, a, b, fo0, _, _) := q in
  match mode with
  | 0 => obs_of (l_bsearch lead l a fo0)
  | 1 => obs_of (l_linear lead l a fo0)
  | 2 => obs_of (l_find_between lead l false a b fo0)
  | 3 => obs_of (l_find_between lead l true a b fo0)
  | _ => match l_find lead l fo0 with FFound s => obs_of (found s) | FDone => obs_of SDone end
  end.
Definition model_calls (lead : N) (l : layout) (q : query) : N :=
  let '(mode, a, b, fo0, _, _) := q in
  let gs := groups lead l in let fsz := fsize lead l in
  match mode with
  | 0 | 2 => bcalls gs fsz a fo0 (bfuel fsz) (bstart fsz fo0)
  | 1 | 3 => lcalls gs a (lfuel gs) fo0
  | _ => 1
  end.

(* what the caller of the Rust function can observe: "Done after an error message" is Done *)
Definition impl_view (o : obs) : obs :=
  let '(k, b, n, t) := o in if k =? 2 then (0, 0, 0, 0%Z) else o.

Definition case := (N * layout * list query)%type.
(* disagreements as (case index * 1000 + query index, numeric digest of the model's answer);
   a disagreement on the number of calls only is reported with digest 5000000000 + model calls;
   a panic of the implementation carries no count *)
Definition model_bad (cs : list case) : list (N * N) :=
  flat_map (fun ic => let '(i, (lead, l, qs)) := ic in
    flat_map (fun jq => let '(j, q) := jq in
                        let m := model_obs lead l q in
                        let '(_, _, _, _, impl, icalls) := q in
                        if obs_eqb (impl_view m) impl
                        then (let '(k, _, _, _) := impl in
                              if (k =? 3) || (model_calls lead l q =? icalls) then []
                              else [(i * 1000 + j, 5000000000 + model_calls lead l q)])
                        else [(i * 1000 + j, obs_num m)])
             (index_from 0 qs))
    (index_from 0 cs).

(* ---- model vs SPEC (a test of the theorem statements, not a proof).
   For every layout and every (A, B, fo0): bsearch and linear return first_at_or_after,
   and text_out (both strategies) returns the window. Result codes: query index * 10 + which *)
Definition opt_obs (o : option sl) : obs :=
  match o with Some s => obs_of (found s) | None => obs_of SDone end.
Definition sl_eqb (a b : sl) : bool := (s_beg a =? s_beg b) && (s_len a =? s_len b) && (s_t a =? s_t b)%Z.
Fixpoint list_eqb (a b : list sl) : bool :=
  match a, b with
  | [], [] => true
  | x :: a', y :: b' => sl_eqb x y && list_eqb a' b'
  | _, _ => false
  end.
Definition out_ok (r : list sl * status) (w : list sl) : bool :=
  match r with (o, Ok) => list_eqb o w | _ => false end.

Definition spec_case := (N * layout * list (option Z * option Z * N))%type.
Definition spec_bad (cs : list spec_case) : list (N * N) :=
  flat_map (fun ic => let '(i, (lead, l, qs)) := ic in
    let gs := groups lead l in
    flat_map (fun jq => let '(j, (a, b, fo0)) := jq in
        let want := opt_obs (first_at_or_after s_t s_next a fo0 gs) in
        let w := window s_t a b gs in
        (if obs_eqb (obs_of (l_bsearch lead l a fo0)) want then [] else [(i * 1000 + j, 1)]) ++
        (if obs_eqb (obs_of (l_linear lead l a fo0)) want then [] else [(i * 1000 + j, 2)]) ++
        (if out_ok (l_text_out lead l false a b) w then [] else [(i * 1000 + j, 3)]) ++
        (if out_ok (l_text_out lead l true a b) w then [] else [(i * 1000 + j, 4)]))
      (index_from 0 qs))
    (index_from 0 cs).

(* domain predicates of the theorems, evaluated on generated layouts *)
Definition layout_sorted (lead : N) (l : layout) : bool := nondecreasing s_t (groups lead l).
Definition layout_len2 (l : layout) : bool := forallb (fun g => 2 <=? fst g) l.
