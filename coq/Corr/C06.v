(* Corr/C06.v — correspondence functions of C06: trace conformance at the
   regenerated channel capacity (the functions themselves are in Corr/C01.v). *)
From Coq Require Import List ZArith NArith.
From S4.Gen Require Import CoordTables.
From S4.Corr Require Export C01.

Definition cap_nat : nat := N.to_nat channel_capacity.

Definition trace_bad_cap (cs : list (list (list Z) * list (N * N))) : list (N * N) :=
  trace_bad cap_nat cs.
