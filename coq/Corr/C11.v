(* Corr/C11.v — functions evaluated by the C11 correspondence run (generated cases.v files). *)
From Coq Require Import ZArith Bool List NArith.
From S4.Model Require Import Calendar Year.
Import ListNotations.
Open Scope Z_scope.

(* messages as (month, day, time-of-day ns); result: the assigned years in file order, [] = None *)
Definition mk (l : list (Z * Z * Z)) : list ymsg := map (fun '(mo, d, t) => mkMsg mo d t) l.
Definition model_years (off mtime_secs : Z) (l : list (Z * Z * Z)) : list Z :=
  match assign_years 2 off (year_of_seconds off mtime_secs) (mk l) with
  | Some ys => map fst ys
  | None => []
  end.
Fixpoint zlist_eqb (a b : list Z) : bool :=
  match a, b with
  | [], [] => true
  | x :: a', y :: b' => (x =? y) && zlist_eqb a' b'
  | _, _ => false
  end.
Fixpoint index_from {A} (i : N) (l : list A) : list (N * A) :=
  match l with [] => [] | x :: r => (i, x) :: index_from (i + 1)%N r end.
(* case = (fallback offset s, mtime s, messages, years the implementation printed (a suffix of the
   file when a window cut it: compared against the same suffix of the model's years)) *)
Definition suffix_of (n : nat) (l : list Z) : list Z := skipn (length l - n) l.
Definition model_bad (cs : list (Z * Z * list (Z * Z * Z) * list Z)) : list (N * list N) :=
  flat_map (fun ic => let '(i, (off, mt, ms, impl)) := ic in
                      let m := model_years off mt ms in
                      if zlist_eqb m impl then [] else [(i, map Z.to_N m)]) (index_from 0%N cs).
