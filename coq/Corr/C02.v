(* Corr/C02.v — functions the C02 / C12 correspondence runs evaluate with vm_compute.

   B (implementation vs MODEL): a case is one file at one block size with the `dated` table
   of the generator and a sequence of operations, each with the implementation's answer:
     OpL fo r : LineReader::find_line(fo)        r = None (Done) | Some (fo_next, beg, end,
                                                  nparts, bo_first, bo_last, hex bytes)
     OpS fo r : SyslineReader::find_sysline(fo)  r = None | Some (fo_next, beg, end, nlines, dt, hex)
     OpR r    : the stage driver                 r = [(beg, end, nlines, dt, hex); ...]
   `model_bad` returns (1000 * case index + op index, code) for every disagreement
   (code 1 = different answer, 2 = the model ran out of fuel or reached Panic).

   C (SPEC evaluation): `spec_printed_bad` compares the stdout bytes a check observed (or the
   python transliteration computed) with `printed dated f` of Spec/LinesSpec.v. *)
From Coq Require Import String.
From S4.Base Require Import Bytes Chunk.
From S4.Spec Require Import LinesSpec.
From S4.Model Require Import Lines Syslines.
Open Scope N_scope.

Definition dated_tab (tab : list (string * Z)) : list N -> option Z :=
  let t := map (fun hz => (unhex (fst hz), snd hz)) tab in
  fun l => assoc l t.

Inductive op : Type :=
| OpL (fo : N) (r : option (N * N * N * N * N * N * string))
| OpS (fo : N) (r : option (N * N * N * N * Z * string))
| OpR (r : list (N * N * N * Z * string)).

Definition case : Type := (N * string * list (string * Z) * list op)%type.

Fixpoint index_from {A} (i : N) (l : list A) : list (N * A) :=
  match l with [] => [] | x :: r => (i, x) :: index_from (i + 1) r end.

Definition part_bo_first (ln : line) : N := match ln with p :: _ => part_bo p | [] => 0 end.
Definition part_bo_last (ln : line) : N := match rev ln with p :: _ => part_bo p | [] => 0 end.

(* 0 = agree *)
Definition check_line (bs : N) (f : file) (fo : N) (r : option (N * N * N * N * N * N * string)) : N :=
  match find_line_m bs f fo, r with
  | Done, None => 0
  | Found (fo_next, ln), Some (ifo, ib, ie, inp, ibf, ibl, ih) =>
      match line_fo_begin bs ln, line_fo_end bs ln with
      | Some b, Some e =>
          if (fo_next =? ifo) && (b =? ib) && (e =? ie) && (lenN ln =? inp)
             && (part_bo_first ln =? ibf) && (part_bo_last ln =? ibl)
             && beqb (bytes_of bs f ln) (unhex ih)
          then 0 else 1
      | _, _ => 1
      end
  | OutOfFuel, _ => 2
  | Panic, _ => 2
  | _, _ => 1
  end.

Definition sysline_agrees (bs : N) (f : file) (sl : sysline) (ib ie inln : N) (idt : Z) (ih : string) : bool :=
  match sysline_fo_begin bs sl, sysline_fo_end bs sl with
  | Some b, Some e =>
      (b =? ib) && (e =? ie) && (lenN (snd sl) =? inln) && (Z.eqb (fst sl) idt)
      && beqb (sysline_bytes bs f sl) (unhex ih)
  | _, _ => false
  end.

Definition check_sysline (dated : list N -> option Z) (bs : N) (f : file) (fo : N)
           (r : option (N * N * N * N * Z * string)) : N :=
  match find_sysline_m dated bs f fo, r with
  | Done, None => 0
  | Found (fo_next, sl), Some (ifo, ib, ie, inln, idt, ih) =>
      if (fo_next =? ifo) && sysline_agrees bs f sl ib ie inln idt ih then 0 else 1
  | OutOfFuel, _ => 2
  | Panic, _ => 2
  | _, _ => 1
  end.

Fixpoint stream_agrees (bs : N) (f : file) (sls : list sysline) (r : list (N * N * N * Z * string)) : bool :=
  match sls, r with
  | [], [] => true
  | sl :: sls', (ib, ie, inln, idt, ih) :: r' =>
      sysline_agrees bs f sl ib ie inln idt ih && stream_agrees bs f sls' r'
  | _, _ => false
  end.

Definition check_stream (dated : list N -> option Z) (bs : N) (f : file)
           (r : list (N * N * N * Z * string)) : N :=
  match stream_m dated bs f with
  | Found sls => if stream_agrees bs f sls r then 0 else 1
  | Done => 1
  | OutOfFuel => 2
  | Panic => 2
  end.

Definition check_op (dated : list N -> option Z) (bs : N) (f : file) (o : op) : N :=
  match o with
  | OpL fo r => check_line bs f fo r
  | OpS fo r => check_sysline dated bs f fo r
  | OpR r => check_stream dated bs f r
  end.

Definition model_bad (cs : list case) : list (N * N) :=
  flat_map (fun ic =>
    let '(i, (bs, fh, tab, ops)) := ic in
    let f := unhex fh in
    let d := dated_tab tab in
    flat_map (fun jo => let '(j, o) := jo in
                        let c := check_op d bs f o in
                        if c =? 0 then [] else [(1000 * i + j, c)])
             (index_from 0 ops))
    (index_from 0 cs).

(* C: (file hex, dated table, stdout hex) *)
Definition spec_printed_bad (cs : list (string * list (string * Z) * string)) : list (N * N) :=
  flat_map (fun ic =>
    let '(i, (fh, tab, oh)) := ic in
    if beqb (printed (dated_tab tab) (unhex fh)) (unhex oh) then [] else [(i, 1)])
    (index_from 0 cs).

(* C, in-process flavour: the stage driver's messages vs the SPEC groups.
   (file hex, table, [(dt, hex bytes of the message)]) *)
Fixpoint groups_agree (gs : list group) (r : list (Z * string)) : bool :=
  match gs, r with
  | [], [] => true
  | g :: gs', (t, h) :: r' => Z.eqb (fst g) t && beqb (group_bytes g) (unhex h) && groups_agree gs' r'
  | _, _ => false
  end.
Definition spec_groups_bad (cs : list (string * list (string * Z) * list (Z * string))) : list (N * N) :=
  flat_map (fun ic =>
    let '(i, (fh, tab, r)) := ic in
    if groups_agree (syslines (dated_tab tab) (unhex fh)) r then [] else [(i, 1)])
    (index_from 0 cs).

(* spec answers of find_line / find_sysline at an offset, for C's in-process search:
   (file hex, table, fo, observed (fo_next, beg, hex) option) *)
Definition spec_find_line_bad (cs : list (string * N * option (N * N * N * string))) : list (N * N) :=
  flat_map (fun ic =>
    let '(i, (fh, fo, r)) := ic in
    match spec_find_line (unhex fh) fo, r with
    | None, None => []
    | Some (n, b, e, l), Some (n', b', e', h) =>
        if (n =? n') && (b =? b') && (e =? e') && beqb l (unhex h) then [] else [(i, 1)]
    | _, _ => [(i, 1)]
    end) (index_from 0 cs).

Definition spec_find_sysline_bad (cs : list (string * list (string * Z) * N * option (N * N * Z * string)))
  : list (N * N) :=
  flat_map (fun ic =>
    let '(i, (fh, tab, fo, r)) := ic in
    match spec_find_sysline (dated_tab tab) (unhex fh) fo, r with
    | None, None => []
    | Some (n, b, g), Some (n', b', t, h) =>
        if (n =? n') && (b =? b') && Z.eqb (fst g) t && beqb (group_bytes g) (unhex h) then [] else [(i, 1)]
    | _, _ => [(i, 1)]
    end) (index_from 0 cs).

(* ---------------------------------------------------------------- the acceptance gate *)
From S4.Model Require Import Gate.

(* B for the gate model: (bs, file hex, table, FileProcessingResult code of
   process_stage1_blockzero_analysis); numbering = Gate.gate_code *)
Definition gate_bad (cs : list (N * string * list (string * Z) * N)) : list (N * N) :=
  flat_map (fun ic =>
    let '(i, (bs, fh, tab, impl)) := ic in
    let m := gate_code (gate (dated_tab tab) bs (unhex fh)) in
    if m =? impl then [] else [(i, m)])
    (index_from 0 cs).
