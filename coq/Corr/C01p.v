(* Corr/C01p.v — functions the WHOLE-INVOCATION stage of checks/c01.py evaluates with vm_compute
   (work package H).  No proofs here.

   A case is one invocation of the real binary:
     options   (prepend file?, align?, prepend separator, date format?, format, offset seconds,
                separator (already unescaped), --summary?, window lower / upper bound in ns)
     files     in PathId order: (prepended name, its character count, its display width,
                streamed container?, bytes as hex chunks, kind) with kind one of
                  CText | CYearless off mtime | CRecords hint layout-name |
                  CEvtx [Some (instant ns, text) | None ...] | CJournal [(receive time us, merge instant ns, text) ...]
     dated     the generator's table: hex of a line -> its instant (ns); every other line is undated
     ydated    for year-less logs: hex of a line -> (month, day, time of day in ns)
     bs        --blocksz
     stdout    what the binary wrote (hex chunks); nums = summary numbers
               [Printed bytes; lines; syslines; fixedstruct; evtx; journal; first printed (s); last printed (s)]
               (empty without --summary)
   C (spec level)  [spec_bad]:  stdout and totals vs Program.program_spec.
   B (model level) [model_bad]: stdout and totals vs Program.program_m at that block size under the
                                schedule recorded by hook H1 (R i k -> Send i, Recv i; P -> Print).
   Codes: 0 agree (not listed); 1000 + k: stdout differs first at byte k; 2..9: summary number
   code-2 differs; 9000000 + i: source i is outside `domain` (generator defect, or layout detection
   picked another layout / a journal whose source times step back: counted, not compared);
   8: stage 1 of the model rejects a text file at this block size (C12 findings: not compared);
   model only: 21 a worker model ended abnormally, 22 schedule rejected, 23 schedule not final. *)
From Coq Require Import String.
From S4.Base Require Import Bytes Chunk.
From S4.Spec Require LinesSpec WindowSpec RecordsSpec JournalSpec.
From S4.Gen Require CoordTables FixedStructTables JournalTables.
From S4.Model Require Coord Print Summary Gate Year Records RecordRender Journal JournalRender Caches.
From S4.Model Require Import Program.
Open Scope N_scope.

Definition unhexs (l : list string) : bytes := flat_map unhex l.

Definition dated_tab (tab : list (string * Z)) : list N -> option Z :=
  let t := map (fun hz => (unhex (fst hz), snd hz)) tab in
  fun l => assoc l t.
Definition ydated_tab (tab : list (string * (Z * Z * Z))) : list N -> option Year.ymsg :=
  let t := map (fun hz => (unhex (fst hz), let '(m, d, tod) := snd hz in Year.mkMsg m d tod)) tab in
  fun l => assoc l t.

(* the highlight span of a text line: the generator's table (hex of the line -> dt_beg, dt_end);
   only used by the --color always invocations (text sources only) *)
Definition dtspan_tab (tab : list (string * (N * N))) : list N -> nat * nat :=
  let t := map (fun hz => (unhex (fst hz), (N.to_nat (fst (snd hz)), N.to_nat (snd (snd hz))))) tab in
  fun l => match assoc l t with Some p => p | None => (0%nat, 0%nat) end.

Definition mk_oracles (tab : list (string * Z)) (ytab : list (string * (Z * Z * Z))) (stab : list (string * (N * N))) : oracles :=
  mkOracles (dated_tab tab) (dtspan_tab stab) (ydated_tab ytab) RecordRender.f32_int_text
            Journal.ref_seek_head Journal.ref_seek_realtime.

(* stdout with SGR groups abstracted as checks/print_util.abstract_sgr does: ESC followed by the class digit *)
Definition enc (os : list Print.out) : bytes :=
  flat_map (fun x => match x with
                     | Print.OB b => [b]
                     | Print.OS Print.CDefault => [27; 48]
                     | Print.OS Print.CText => [27; 49]
                     | Print.OS Print.CDate => [27; 50]
                     end) os.

Definition jout_of (n : N) : JournalRender.output := nth (N.to_nat n) JournalRender.all_outputs JournalRender.OShort.

(* prepend file, align, psep, has fmt, fmt, off, sep, summary, after, before; colour, --journal-output
   (index in JournalRender.all_outputs), fallback zone offset *)
Definition copts := (bool * bool * string * bool * string * Z * string * bool * option Z * option Z * (bool * N * Z))%type.
Definition mk_opts (o : copts) : options :=
  let '(pf, al, ps, hf, fm, off, sep, su, a, b, (col, jo, joff)) := o in
  mkOptions {| Summary.c_colour := col; Summary.c_prepend_file := pf; Summary.c_align := al;
               Summary.c_psep := unhex ps; Summary.c_fmt := if hf then Some (unhex fm) else None;
               Summary.c_off := off; Summary.c_sep := unhex sep; Summary.c_summary := su |} a b
            (jout_of jo) (JournalRender.mkEnv joff true).

Inductive ckind : Type :=
| CText
| CYearless (off mtime : Z)
| CRecords (hint : N) (layout : string)
| CEvtx (recs : list (option (Z * list string)))
| CJournal (ents : list (Z * string * option N * list (string * string))).   (* receive time us, cursor, monotonic, data objects *)

Definition mk_kind (k : ckind) : pkind :=
  match k with
  | CText => KText
  | CYearless off mt => KYearless off mt
  | CRecords h l => KRecords h (s2b l)
  | CEvtx recs => KEvtxFile (map (option_map (fun tt : Z * list string => (fst tt, unhexs (snd tt)))) recs)
  | CJournal ents =>
      KJournalFile (map (fun e : Z * string * option N * list (string * string) =>
                           let '(tus, cur, mono, fs) := e in
                           Journal.mkEntry tus (unhex cur) mono (map (fun kv => (unhex (fst kv), unhex (snd kv))) fs)) ents)
  end.

Definition cfile := (string * N * N * bool * list string * ckind)%type.
Definition mk_file (x : cfile) : pfile :=
  let '(n, ch, w, st, data, k) := x in
  mkPfile {| Summary.s_name := unhex n; Summary.s_nchars := N.to_nat ch; Summary.s_width := N.to_nat w |}
          st (unhexs data) (mk_kind k).

Fixpoint index_from {A} (i : N) (l : list A) : list (N * A) :=
  match l with [] => [] | x :: r => (i, x) :: index_from (i + 1) r end.

Fixpoint first_diff_bytes (k : N) (a b : bytes) : option N :=
  match a, b with
  | [], [] => None
  | x :: a', y :: b' => if x =? y then first_diff_bytes (k + 1) a' b' else Some k
  | _, _ => Some k
  end.

Fixpoint first_diff_nums (i : N) (a b : list Z) : N :=
  match a, b with
  | x :: a', y :: b' => if Z.eqb x y then first_diff_nums (i + 1) a' b' else i
  | [], [] => 0
  | _, _ => i
  end.

Definition secs (o : option Z) : Z := match o with Some t => (t / 1000000000)%Z | None => (-1)%Z end.
Definition nums_of (t : Summary.summ) : list Z :=
  [Z.of_N (Summary.u_bytes t); Z.of_N (Summary.u_lines t); Z.of_N (Summary.u_sys t);
   Z.of_N (Summary.u_fixed t); Z.of_N (Summary.u_evtx t); Z.of_N (Summary.u_journal t);
   secs (Summary.u_first t); secs (Summary.u_last t)].

(* ---- decidable form of Program.src_ok (span_ok holds for dtspan0, the libsystemd contract for
   the reference oracle, the f32 bound for f32_int_text) *)
Definition text_ok_b (dated : list N -> option Z) (f : file) : bool :=
  let gs := LinesSpec.syslines dated f in
  WindowSpec.nondecreasing fst gs && forallb (fun g => 2 <=? lenN (LinesSpec.group_bytes g)) gs.
(* Program.first_byte_ok through its sufficient condition C01_first_byte_ok_undated: no single byte of the
   file is dated (the table oracle dates whole first lines) *)
Definition first_byte_b (dated : list N -> option Z) (f : file) : bool :=
  forallb (fun c => match dated [c] with None => true | Some _ => false end) f.
Definition nl_term_b (t : bytes) : bool := match rev t with [] => true | b :: _ => b =? 10 end.
Fixpoint nondecr_b (l : list Z) : bool :=
  match l with
  | [] => true
  | x :: r => match r with [] => true | y :: _ => (x <=? y)%Z && nondecr_b r end
  end.

Fixpoint nodup_b (l : list bytes) : bool :=
  match l with [] => true | x :: r => negb (existsb (beqb x) r) && nodup_b r end.

Definition src_ok_b (O : oracles) (o : options) (pf : pfile) : bool :=
  match pf_kind pf with
  | KText => text_ok_b (o_dated O) (pf_data pf) && first_byte_b (o_dated O) (pf_data pf)
  | KYearless off mt =>
      let f := pf_data pf in
      match yl_table O off mt f, yl_table_es O (op_after o) off mt f,
            walk_until (op_after o) 2 off (Year.year_of_seconds off mt) None (rev (yl_msgs O f)) with
      | Some tab, Some tes, Some w =>
          text_ok_b (yl_dated O tab) f && text_ok_b (yl_dated O tes) f && nodup_b (yl_heads O f)
          && match op_after o with
             | Some av => forallb (fun m => (filler_inst off m <? av)%Z) (firstn (length (yl_msgs O f) - length w) (yl_msgs O f))
             | None => true
             end
      | _, _, _ => false
      end
  | KRecords hint lname =>
      let f := pf_data pf in
      match p_detect hint f, find_layout lname, assoc lname FixedStructTables.fixedstruct_render with
      | Some (Some n, _), Some L, Some _ =>
          beqb n lname && forallb (fun b => b <? 256) f
          && forallb (fun r => (0 <=? snd (RecordsSpec.r_tv r))%Z && (snd (RecordsSpec.r_tv r) <? 1000000)%Z)
                     (records_kept (op_after o) (op_before o) L f)
      | _, _, _ => false
      end
  | KEvtxFile recs => forallb (fun r : option (Z * bytes) => match r with Some (_, t) => nl_term_b t | None => true end) recs
  | KJournalFile j =>
      nondecr_b (Journal.times j) && forallb (fun t => (0 <? t)%Z) (Journal.times j)
      && forallb (fun e => nl_term_b (JournalRender.entry_bytes
                                        (JournalRender.next_entry JournalTables.src_cfg (op_jenv o) (op_jout o) e))) j
  | KTextRows _ _ => false          (* text files read through the per-row regex model: not generated by this check (Proofs/ProgramRegex.v) *)
  end.

Fixpoint first_bad_src (O : oracles) (o : options) (i : N) (files : list pfile) : option N :=
  match files with
  | [] => None
  | pf :: r => if src_ok_b O o pf then first_bad_src O o (i + 1) r else Some i
  end.

Definition gate_b (O : oracles) (bs : N) (o : options) (files : list pfile) : bool :=
  forallb (fun pf =>
    match pf_kind pf with
    | KText => match Gate.gate (o_dated O) bs (pf_data pf) with Gate.FileOk => true | _ => false end
    | KYearless off mt =>
        match yl_table_es O (op_after o) off mt (pf_data pf) with
        | Some tab => match Gate.gate (yl_dated O tab) bs (pf_data pf) with Gate.FileOk => true | _ => false end
        | None => false
        end
    | _ => true
    end) files.

Definition compare (r : list Print.out * Summary.summ) (summary : bool) (out : bytes) (nums : list Z) : N :=
  match first_diff_bytes 0 (enc (fst r)) out with
  | Some k => 1000 + k
  | None => if summary then first_diff_nums 2 (nums_of (snd r)) nums else 0
  end.

Definition summary_of (o : copts) : bool := let '(_, _, _, _, _, _, _, su, _, _, _) := o in su.

(* ---- C: the specification *)
Definition spec_case := (copts * list cfile * list (string * Z) * list (string * (Z * Z * Z)) * list (string * (N * N)) * N * list string * list Z)%type.

Definition spec_code (c : spec_case) : N :=
  let '(o, fs, tab, ytab, stab, bs, out, nums) := c in
  let O := mk_oracles tab ytab stab in
  let files := map mk_file fs in
  match first_bad_src O (mk_opts o) 0 files with
  | Some i => 9000000 + i
  | None =>
      if negb (gate_b O bs (mk_opts o) files) then 8
      else compare (program_spec O (mk_opts o) files) (summary_of o) (unhexs out) nums
  end.

(* the specification's stdout of a case (for the expected output of a failure report / replay) *)
Definition spec_stdout (c : spec_case) : bytes :=
  let '(o, fs, tab, ytab, stab, bs, out, nums) := c in
  enc (fst (program_spec (mk_oracles tab ytab stab) (mk_opts o) (map mk_file fs))).

Definition spec_nums (c : spec_case) : list Z :=
  let '(o, fs, tab, ytab, stab, bs, out, nums) := c in
  nums_of (snd (program_spec (mk_oracles tab ytab stab) (mk_opts o) (map mk_file fs))).

Definition spec_bad (cs : list spec_case) : list (N * N) :=
  flat_map (fun ic => let c := spec_code (snd ic) in if c =? 0 then [] else [(fst ic, c)]) (index_from 0 cs).

(* ---- B: the composed code-level model under the recorded schedule.
   trace event = (code, pathid) as in Corr/C01.v: 0-2 receive of FileInfo / NewMessage /
   FileSummary, 3 RecvError, 4 Print, 5 Disconnect *)
Definition sched_of (t : list (N * N)) : schedule :=
  flat_map (fun e => let '(c, p) := e in
                     let i := N.to_nat p in
                     if c <? 3 then [Coord.Send i; Coord.Recv i]
                     else if c =? 3 then [Coord.Recv i]
                     else if c =? 4 then [Coord.Print] else []) t.

Definition model_case := (spec_case * list (N * N))%type.     (* case, trace; the capacity is the regenerated one *)
Definition cap : N := CoordTables.channel_capacity.

(* reader parameters of the text workers (C01_program_correct holds for every value; nothing of them is
   observable on stdout / the summary totals): PathId i made 1 + i mod 3 find_line_in_block and 1 + i mod 2
   find_sysline_in_block calls in block-zero analysis; drop_data_try ran at every opportunity (even i) / at two
   of three (odd i); the streamed files of the check are .gz (sequential decoder) *)
Definition rps_run (i : nat) : rparams :=
  mkRp (1 + Nat.modulo i 3) (1 + Nat.modulo i 2) (if Nat.even i then [true] else [true; false; true]) Caches.KSeq.

Definition model_code (mc : model_case) : N :=
  let '(c, t) := mc in
  let '(o, fs, tab, ytab, stab, bs, out, nums) := c in
  let O := mk_oracles tab ytab stab in
  let files := map mk_file fs in
  match first_bad_src O (mk_opts o) 0 files with
  | Some i => 9000000 + i
  | None =>
      if negb (gate_b O bs (mk_opts o) files) then 8
      else match program_m O (N.to_nat cap) bs rps_run (sched_of t) (mk_opts o) files with
           | POk r => compare r (summary_of o) (unhexs out) nums
           | PWorker _ _ => 21
           | PSchedule => 22
           | PNotFinal => 23
           end
  end.

Definition model_bad (cs : list model_case) : list (N * N) :=
  flat_map (fun ic => let c := model_code (snd ic) in if c =? 0 then [] else [(fst ic, c)]) (index_from 0 cs).
