(* Corr/C01p.v — functions the WHOLE-INVOCATION stage of checks/c01.py evaluates with vm_compute
   (work package H).  No proofs here.

   A case is one invocation of the real binary:
     options   (prepend file?, align?, prepend separator, date format?, format, offset seconds,
                separator (already unescaped), --summary?, window lower / upper bound in ns)
     files     in PathId order: (prepended name, its character count, its display width,
                streamed container?, bytes as hex chunks)
     dated     the generator's table: hex of a line -> its instant (ns); every other line is undated
     bs        --blocksz
     stdout    what the binary wrote (hex chunks); nums = summary numbers
               [Printed bytes; Printed lines; Printed syslines; first printed (s); last printed (s)]
               (empty without --summary)
   C (spec level)  [spec_bad]:  stdout and totals vs Program.program_spec.
   B (model level) [model_bad]: stdout and totals vs Program.program_m at that block size under the
                                schedule recorded by hook H1 (R i k -> Send i, Recv i; P -> Print).
   Codes: 0 agree (not listed); 1000 + k: stdout differs first at byte k; 2..6: summary number
   code-2 differs; 7: the case is outside `domain` (generator defect); 8: stage 1 of the model
   rejects a file at this block size (C12 findings F3a-c: not compared); model only: 20 + n:
   program_m ended otherwise (21 worker, 22 schedule rejected, 23 schedule not final). *)
From Coq Require Import String.
From S4.Base Require Import Bytes Chunk.
From S4.Spec Require LinesSpec WindowSpec.
From S4.Gen Require CoordTables.
From S4.Model Require Coord Print Summary Gate.
From S4.Model Require Import Program.
Open Scope N_scope.

Definition unhexs (l : list string) : bytes := flat_map unhex l.

Definition dated_tab (tab : list (string * Z)) : list N -> option Z :=
  let t := map (fun hz => (unhex (fst hz), snd hz)) tab in
  fun l => assoc l t.

(* colour is off in these runs: the highlight span is irrelevant *)
Definition dtspan0 (l : list N) : nat * nat := (0%nat, 0%nat).

(* prepend file, align, psep, has fmt, fmt, off, sep, summary, after, before *)
Definition copts := (bool * bool * string * bool * string * Z * string * bool * option Z * option Z)%type.
Definition mk_opts (o : copts) : options :=
  let '(pf, al, ps, hf, fm, off, sep, su, a, b) := o in
  mkOptions {| Summary.c_colour := false; Summary.c_prepend_file := pf; Summary.c_align := al;
               Summary.c_psep := unhex ps; Summary.c_fmt := if hf then Some (unhex fm) else None;
               Summary.c_off := off; Summary.c_sep := unhex sep; Summary.c_summary := su |} a b.

Definition cfile := (string * N * N * bool * list string)%type.
Definition mk_file (x : cfile) : pfile :=
  let '(n, ch, w, st, data) := x in
  mkPfile {| Summary.s_name := unhex n; Summary.s_nchars := N.to_nat ch; Summary.s_width := N.to_nat w |}
          st (unhexs data).

Fixpoint index_from {A} (i : N) (l : list A) : list (N * A) :=
  match l with [] => [] | x :: r => (i, x) :: index_from (i + 1) r end.

Fixpoint first_diff_bytes (k : N) (a b : bytes) : option N :=
  match a, b with
  | [], [] => None
  | x :: a', y :: b' => if x =? y then first_diff_bytes (k + 1) a' b' else Some k
  | _, _ => Some k
  end.

Fixpoint first_diff_nums (i : N) (a b : list Z) : N :=
  match a, b with
  | x :: a', y :: b' => if Z.eqb x y then first_diff_nums (i + 1) a' b' else i
  | [], [] => 0
  | _, _ => i
  end.

Definition secs (o : option Z) : Z := match o with Some t => (t / 1000000000)%Z | None => (-1)%Z end.
Definition nums_of (t : Summary.summ) : list Z :=
  [Z.of_N (Summary.u_bytes t); Z.of_N (Summary.u_lines t); Z.of_N (Summary.u_sys t);
   secs (Summary.u_first t); secs (Summary.u_last t)].

(* decidable form of Program.domain (span_ok holds for dtspan0) *)
Definition domain_b (dated : list N -> option Z) (files : list pfile) : bool :=
  forallb (fun pf =>
    let gs := LinesSpec.syslines dated (pf_data pf) in
    WindowSpec.nondecreasing fst gs
    && forallb (fun g => 2 <=? lenN (LinesSpec.group_bytes g)) gs) files.

Definition gate_b (dated : list N -> option Z) (bs : N) (files : list pfile) : bool :=
  forallb (fun pf => match Gate.gate dated bs (pf_data pf) with Gate.FileOk => true | _ => false end) files.

Definition compare (r : list Print.out * Summary.summ) (summary : bool) (out : bytes) (nums : list Z) : N :=
  match first_diff_bytes 0 (Print.payload (fst r)) out with
  | Some k => 1000 + k
  | None => if summary then first_diff_nums 2 (nums_of (snd r)) nums else 0
  end.

Definition summary_of (o : copts) : bool := let '(_, _, _, _, _, _, _, su, _, _) := o in su.

(* ---- C: the specification *)
Definition spec_case := (copts * list cfile * list (string * Z) * N * list string * list Z)%type.

Definition spec_code (c : spec_case) : N :=
  let '(o, fs, tab, bs, out, nums) := c in
  let dated := dated_tab tab in
  let files := map mk_file fs in
  if negb (domain_b dated files) then 7
  else if negb (gate_b dated bs files) then 8
  else compare (program_spec dated dtspan0 (mk_opts o) files) (summary_of o) (unhexs out) nums.

Definition spec_bad (cs : list spec_case) : list (N * N) :=
  flat_map (fun ic => let c := spec_code (snd ic) in if c =? 0 then [] else [(fst ic, c)]) (index_from 0 cs).

(* ---- B: the composed code-level model under the recorded schedule.
   trace event = (code, pathid) as in Corr/C01.v: 0-2 receive of FileInfo / NewMessage /
   FileSummary, 3 RecvError, 4 Print, 5 Disconnect *)
Definition sched_of (t : list (N * N)) : schedule :=
  flat_map (fun e => let '(c, p) := e in
                     let i := N.to_nat p in
                     if c <? 3 then [Coord.Send i; Coord.Recv i]
                     else if c =? 3 then [Coord.Recv i]
                     else if c =? 4 then [Coord.Print] else []) t.

Definition model_case := (spec_case * list (N * N))%type.     (* case, trace; the capacity is the regenerated one *)
Definition cap : N := CoordTables.channel_capacity.

Definition model_code (mc : model_case) : N :=
  let '(c, t) := mc in
  let '(o, fs, tab, bs, out, nums) := c in
  let dated := dated_tab tab in
  let files := map mk_file fs in
  if negb (domain_b dated files) then 7
  else if negb (gate_b dated bs files) then 8
  else match program_m dated dtspan0 (N.to_nat cap) bs (sched_of t) (mk_opts o) files with
       | POk r => compare r (summary_of o) (unhexs out) nums
       | PWorker _ _ => 21
       | PSchedule => 22
       | PNotFinal => 23
       end.

Definition model_bad (cs : list model_case) : list (N * N) :=
  flat_map (fun ic => let c := model_code (snd ic) in if c =? 0 then [] else [(fst ic, c)]) (index_from 0 cs).
