(* Corr/C12.v — what the C12 correspondence run evaluates with vm_compute: the COMPLETE block-zero
   analysis as coded (Model/Gate.v gate2 over parse_ez: EZCHECK pre-filters, per-row counts,
   dt_patterns_analysis, second pass) with the row table regenerated from the source
   (Gen/DatetimeTables.v: slice range, has_year4, has_d2 per row) and the per-slice match oracle
   observed in-process (bytes_to_regex_to_datetime of every row on every line of the file).

   A case: (bs, file hex in chunks of <= 4096 characters (long literals overflow coqc's stack), oracle [(row, [(slice hex, instant)])], expected)
   expected = (gate result code, [(row, count)] when the analysis returned,  regex_captures_attempted,
               [ezcheck12 hit; miss; hit_max; ezcheckd2 hit; miss; hit_max; ezcheck12d2 hit; miss; hit_max],
               parse LRU misses, first-pass found, [(row, count)] before dt_patterns_analysis)
   Answer per case: (index, disagreement bits, class bits)
     disagreement bits: 1 result, 2 final counts, 4 attempted, 8 ezcheck counters, 16 LRU misses,
                        32 first-pass found, 64 first-pass counts, 128 plain-oracle analysis differs from as-coded
     class bits (Model/GateSpec.v): 1 first dated line incomplete in block zero, 2 count minimum, 4 mixed notation,
                        8 = spec_accept is Some, and 1000 * row (+1000) of spec_accept in the high part *)
From Coq Require Import String.
From S4.Base Require Import Bytes Chunk.
From S4.Gen Require Import BlockConsts DatetimeTables.
From S4.Model Require Import Normalise Lines Gate GateSpec.
Open Scope N_scope.

(* DATETIME_PARSE_DATAS[r] as far as find_datetime_in_line needs it *)
Definition info_tab (r : N) : rowinfo :=
  match nth_error dt_table (N.to_nat r) with
  | Some row => mkRowinfo (r_start row) (r_end row) (has_year4 (r_dtfs row)) (has_d2 (r_dtfs row))
  | None => mkRowinfo 0 0 false false
  end.
Definition rows_tab : list N := map N.of_nat (seq 0 (N.to_nat dt_rows)).

Definition otab : Type := list (N * list (bytes * Z)).
Fixpoint assocN {A} (k : N) (t : list (N * A)) : option A :=
  match t with [] => None | (k', v) :: r => if k' =? k then Some v else assocN k r end.
Definition match_tab (t : otab) (r : N) (s : list N) : option Z :=
  match assocN r t with Some l => assoc s l | None => None end.
Definition otab_of (t : list (N * list (string * Z))) : otab :=
  map (fun e => (fst e, map (fun hz => (unhex (fst hz), snd hz)) (snd e))) t.

(* the reader's counters, recomputed from the trace of real parse calls (oldest first) *)
Definition replay_counters (t : otab) (f : file) (tr : list (counts * N * N)) : ezcnt :=
  fold_left (fun c e => let '(cs, b, e1) := e in
                        snd (find_datetime_in_line (match_tab t) info_tab (try_order cs) (slice f b e1) c))
            (rev tr) ezcnt0.

Definition used (c : counts) : counts := filter (fun x => 0 <? snd x) c.
Fixpoint counts_eqb (a b : list (N * N)) : bool :=
  match a, b with
  | [], [] => true
  | (k, n) :: a', (k', n') :: b' => (k =? k') && (n =? n') && counts_eqb a' b'
  | _, _ => false
  end.
Fixpoint listN_eqb (a b : list N) : bool :=
  match a, b with [] , [] => true | x :: a', y :: b' => (x =? y) && listN_eqb a' b' | _, _ => false end.

Definition expected : Type := (N * list (N * N) * N * list N * N * N * list (N * N))%type.
Definition case : Type := (N * list string * list (N * list (string * Z)) * expected)%type.

Definition bit (b : bool) (v : N) : N := if b then 0 else v.

Definition class_bits (t : otab) (bs : N) (f : file) : N :=
  let dbr := dated_by_row_of (match_tab t) info_tab in
  (if cls_first_dated_incomplete dbr rows_tab bs f then 1 else 0) +
  (if cls_count_minimum dbr rows_tab bs f then 2 else 0) +
  (if cls_mixed_notation dbr rows_tab f then 4 else 0) +
  match spec_accept dbr rows_tab f with Some r => 8 + 1000 * (r + 1) | None => 0 end.

Definition check_case (c : case) : N * N :=
  let '(bs, fh, th, (eres, ecounts, eatt, eez, emiss, efound1, ecounts1)) := c in
  let f := concat (map unhex fh) in
  let t := otab_of th in
  let o := gate2 (parse_ez (match_tab t) info_tab) rows_tab bs f in
  let cn := replay_counters t f (g_trace o) in
  let returned := match g_res o with FileOk | FileErrNoSyslinesFound => true | _ => false end in
  let plain := gate_rows (dated_by_row_of (match_tab t) info_tab) rows_tab bs f in
  (bit (gate_code (g_res o) =? eres) 1 +
   bit (counts_eqb (used (g_counts o)) ecounts) 2 +
   bit (c_attempted cn =? eatt) 4 +
   bit (listN_eqb [c12_hit cn; c12_miss cn; c12_hit_max cn; cd2_hit cn; cd2_miss cn; cd2_hit_max cn;
                   c12d2_hit cn; c12d2_miss cn; c12d2_hit_max cn] eez) 8 +
   bit (lenN (g_trace o) =? emiss) 16 +
   bit (negb returned || (g_found1 o =? efound1)) 32 +
   bit (negb returned || counts_eqb (used (g_counts1 o)) ecounts1) 64 +
   bit ((gate_code (fst plain) =? gate_code (g_res o)) &&
        match snd plain, g_row o with Some a, Some b => a =? b | None, None => true | _, _ => false end) 128,
   class_bits t bs f).

Fixpoint index_from {A} (i : N) (l : list A) : list (N * A) :=
  match l with [] => [] | x :: r => (i, x) :: index_from (i + 1) r end.

Definition gate2_check (cs : list case) : list (N * N * N) :=
  map (fun ic => let '(a, b) := check_case (snd ic) in (fst ic, a, b)) (index_from 0 cs).

(* ---------------------------------------------------------------- the --blocksz argument *)
From S4.Model Require Import BlockszArg.
(* (argument bytes in hex) -> (index, 0 = rejected | value + 1) *)
Definition blocksz_check (args : list string) : list (N * N) :=
  map (fun ia => (fst ia, match process_blocksz (unhex (snd ia)) with Some v => v + 1 | None => 0 end))
      (index_from 0 args).
