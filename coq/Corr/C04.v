(* Corr/C04.v — functions evaluated by the C04 correspondence run (generated cases.v files). *)
From Coq Require Import String.
From S4.Base Require Import Bytes.
From S4.Model Require Import Calendar Normalise.
From S4.Gen Require Import DatetimeTables.
From S4.Spec Require Import CalendarSpec TzRef NormaliseSpec.
From S4.Proofs Require Import CalendarProofs.   (* spec_days_fast, proved equal to spec_days (spec_days_fast_eq) *)
Close Scope string_scope.
Open Scope list_scope.
Open Scope N_scope.

Definition nth_row (i : N) : option dt_row := find (fun r => r_index r =? i) dt_table.

(* option Z -> (flag, magnitude): 0 = None, 1 = non-negative, 2 = negative *)
Definition enc (o : option Z) : N * N :=
  match o with
  | None => (0, 0)
  | Some z => if (z <? 0)%Z then (2, Z.to_N (- z)) else (1, Z.to_N z)
  end.

Definition oh (o : option string) : option bytes := option_map unhex o.
Definition mk_caps (l : list (option string)) : caps :=
  match l with
  | [a; b; c; d; e; f; g; h; i] => mkCaps (oh a) (oh b) (oh c) (oh d) (oh e) (oh f) (oh g) (oh h) (oh i)
  | _ => mkCaps None None None None None None None None None
  end.

Definition oZ_eqb (a b : option Z) : bool :=
  match a, b with Some x, Some y => (x =? y)%Z | None, None => true | _, _ => false end.

Fixpoint index_from {A} (i : N) (l : list A) : list (N * A) :=
  match l with [] => [] | x :: r => (i, x) :: index_from (i + 1) r end.

(* B: implementation (bytes_to_regex_to_datetime) vs model on the captures the regex produced.
   case = (row index, nine capture groups in hex, year_opt, fallback offset seconds, impl instant ns) *)
Definition model_case (idx : N) (cs : list (option string)) (yo : option Z) (off : Z) : option Z :=
  match nth_row idx with
  | Some r => model_instant month_table tz_table (r_dtfs r) (mk_caps cs) yo off
  | None => None
  end.
Definition model_bad (l : list (N * list (option string) * option Z * Z * option Z)) : list (N * N * N) :=
  flat_map (fun ic => let '(i, (idx, cs, yo, off, impl)) := ic in
                      let m := model_case idx cs yo off in
                      if oZ_eqb m impl then [] else [(i, fst (enc m), snd (enc m))]) (index_from 0 l).

(* the spec reading of the same captures (used to cross-check the python oracle of run C) *)
Definition denoted_case (idx : N) (cs : list (option string)) (yo : option Z) (off : Z) : option Z :=
  match nth_row idx with
  | Some r => denoted_instant (r_dtfs r) (mk_caps cs) yo off
  | None => None
  end.

(* C: the instant denoted by generator-side FIELDS (no captures, no tables but the frozen TzRef).
   zone: inl seconds = numeric offset; inr (Some hexname) = abbreviation; inr None = no zone (fallback).
   epoch = true: [y] carries the Unix time in seconds, other civil fields ignored. *)
Definition zone_off (z : Z + option string) (fallback : Z) : option Z :=
  match z with
  | inl o => Some o
  | inr None => Some fallback
  | inr (Some h) => match zone_of_name (unhex h) with
                    | Some (Some o) => Some o
                    | Some None => Some fallback
                    | None => None end
  end.
Definition spec_fields (epoch : bool) (y mo d h mi s fr : Z) (z : Z + option string) (fallback : Z) : option Z :=
  if epoch then Some (y * 1000000000 + fr)%Z
  else match zone_off z fallback with
       | Some o => if (1 <=? mo)%Z && (mo <=? 12)%Z && (1 <=? d)%Z && (d <=? month_len y mo)%Z
                   then Some ((spec_days_fast y mo d * 86400 + h * 3600 + mi * 60 + s - o) * 1000000000 + fr)%Z else None
       | None => None end.
Definition spec_bad (l : list (bool * (Z * Z * Z * Z * Z * Z * Z) * (Z + option string) * Z * option Z)) : list (N * N * N) :=
  flat_map (fun ic => let '(i, (ep, (y, mo, d, h, mi, s, fr), z, fb, impl)) := ic in
                      let m := spec_fields ep y mo d h mi s fr z fb in
                      if oZ_eqb m impl then [] else [(i, fst (enc m), snd (enc m))]) (index_from 0 l).
