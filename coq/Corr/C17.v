(* Corr/C17.v — functions evaluated by the correspondence run of C17 (generated cases.v files). *)
From Coq Require Import List NArith Bool.
Import ListNotations.
From S4.Model Require Import Retain.
Open Scope N_scope.

Fixpoint index_from {A} (i : N) (l : list A) : list (N * A) :=
  match l with [] => [] | x :: r => (i, x) :: index_from (i + 1) r end.

(* case = (prefix layout, base layout, repetitions, bs, streamed, maximal lag H)
   the file layout is prefix ++ base repeated.
   row  = (index, number of messages,
           blocks/lines/syslines high of the CURRENT policy when the consumer keeps up,
           the same with the consumer H messages behind,
           drop_sysline errors of the model in the two runs) *)
Definition case := (list (N * bool) * list (N * bool) * nat * N * bool * N)%type.

Definition case_layout (c : case) : list (N * bool) :=
  let '(pre, base, rep, _, _, _) := c in pre ++ repeat_list base rep.

Definition row (ic : N * case) :=
  let '(i, c) := ic in
  let '(_, _, _, bs, str, H) := c in
  let lay := case_layout c in
  let cf := {| pol := P_cur; streamed := str |} in
  let a := run_layout cf bs lay 1 in
  let b := run_layout cf bs lay H in
  (i, lenN (layout_msgs bs lay), hb a, hl a, hs a, hb b, hl b, hs b, derr a, derr b).

Definition rows (cs : list case) := map row (index_from 0 cs).

(* the repaired policy on the same case: marks with the consumer keeping up / H behind *)
Definition row_retry (ic : N * case) :=
  let '(i, c) := ic in
  let '(_, _, _, bs, str, H) := c in
  let lay := case_layout c in
  let cf := {| pol := P_retry; streamed := str |} in
  let a := run_layout cf bs lay 1 in
  let b := run_layout cf bs lay H in
  (i, hb a, hl a, hs a, hb b, hl b, hs b).

Definition rows_retry (cs : list case) := map row_retry (index_from 0 cs).

(* rows + the decidable well-formedness of the message sequence (hypothesis of
   C17_retry_bounded_partial; 1 = well-formed) + its parameters span and ml *)
Definition row_wf (ic : N * case) :=
  let '(i, c) := ic in
  let '(_, _, _, bs, str, H) := c in
  let lay := case_layout c in
  let ms := layout_msgs bs lay in
  let cf := {| pol := P_cur; streamed := str |} in
  let a := run cf (init ms) (sched_lag 1 (length ms)) in
  let b := run cf (init ms) (sched_lag H (length ms)) in
  (i, lenN ms, hb a, hl a, hs a, hb b, hl b, hs b, derr a, derr b,
   (if wfb bs (max_span ms) (max_lines ms) ms then 1 else 0), max_span ms, max_lines ms).

Definition rows_wf (cs : list case) := map row_wf (index_from 0 cs).

(* ---- windowed runs (plain file, -a = the instant of message t): case = (prefix, base,
   repetitions, bs, maximal lag H, t).  row = (index, number of messages,
   blocks/lines/syslines high of the CURRENT policy when the consumer keeps up, the same with the
   consumer H behind, drop_sysline errors of the two runs, drop_line errors of the two runs,
   drop_sysline Ok of the lag-free run) *)
From Coq Require Import ZArith.
From S4.Model Require Import RetainSearch.
Definition wcase := (list (N * bool) * list (N * bool) * nat * N * N * N)%type.

Definition row_w (ic : N * wcase) :=
  let '(i, c) := ic in
  let '(pre, base, rep, bs, H, t) := c in
  let lay := pre ++ repeat_list base rep in
  let ms := layout_msgs bs lay in
  let cf := {| pol := P_cur; streamed := false |} in
  let n := (length ms - N.to_nat t - 1)%nat in
  let a := w_run cf bs ms (Z.of_N t) (w_sched_lag 1 t n) in
  let b := w_run cf bs ms (Z.of_N t) (w_sched_lag H t n) in
  (i, lenN ms, hb (wb a), hl (wb a), hs (wb a), hb (wb b), hl (wb b), hs (wb b),
   derr (wb a), derr (wb b), dlerr a, dlerr b, dok (wb a)).

Definition rows_w (cs : list wcase) := map row_w (index_from 0 cs).

(* the repaired policy on the same windowed case (lag-free / H behind) and the logarithmic term *)
Definition row_w_retry (ic : N * wcase) :=
  let '(i, c) := ic in
  let '(pre, base, rep, bs, H, t) := c in
  let lay := pre ++ repeat_list base rep in
  let ms := layout_msgs bs lay in
  let cf := {| pol := P_retry; streamed := false |} in
  let n := (length ms - N.to_nat t - 1)%nat in
  let a := w_run cf bs ms (Z.of_N t) (w_sched_lag 1 t n) in
  let b := w_run cf bs ms (Z.of_N t) (w_sched_lag H t n) in
  (i, hb (wb a), hl (wb a), hs (wb a), hb (wb b), hl (wb b), hs (wb b)).

Definition rows_w_retry (cs : list wcase) := map row_w_retry (index_from 0 cs).

(* ---- any window: case = (prefix, base, repetitions, bs, streamed, H, a, b) with a / b = 0 for
   "no -a" / "no -b" and k + 1 for the instant k.  Plain files run through Model/RetainSearch.v
   (w_run2), streamed files through the linear-search driver (sw_run).
   row = (index, messages, marks lag-free, marks H behind, derr x2, dlerr x2, dok lag-free) *)
Definition w2case := (list (N * bool) * list (N * bool) * nat * N * bool * N * N * N)%type.
Definition optZ (x : N) : option Z := if x =? 0 then None else Some (Z.of_N (x - 1)).

Definition row_w2 (ic : N * w2case) :=
  let '(i, c) := ic in
  let '(pre, base, rep, bs, str, H, a, b) := c in
  let lay := pre ++ repeat_list base rep in
  let ms := layout_msgs bs lay in
  let kw := a - 1 in
  let n := (length ms - N.to_nat kw - 1)%nat in
  if str then
    let cf := {| pol := P_cur; streamed := true |} in
    let x := sw_run cf ms (optZ a) (optZ b) (w_sched_lag 1 kw n) in
    let y := sw_run cf ms (optZ a) (optZ b) (w_sched_lag H kw n) in
    (i, lenN ms, hb x, hl x, hs x, hb y, hl y, hs y, derr x, derr y, 0, 0, dok x)
  else
    let cf := {| pol := P_cur; streamed := false |} in
    let x := w_run2 cf bs ms (optZ a) (optZ b) (w_sched_lag 1 kw n) in
    let y := w_run2 cf bs ms (optZ a) (optZ b) (w_sched_lag H kw n) in
    (i, lenN ms, hb (wb x), hl (wb x), hs (wb x), hb (wb y), hl (wb y), hs (wb y),
     derr (wb x), derr (wb y), dlerr x, dlerr y, dok (wb x)).

Definition rows_w2 (cs : list w2case) := map row_w2 (index_from 0 cs).

(* a plain file read from its start (no -a) through BOTH drivers: they must agree *)
Definition row_w2_both (ic : N * w2case) :=
  let '(i, c) := ic in
  let '(pre, base, rep, bs, _, H, _, b) := c in
  let lay := pre ++ repeat_list base rep in
  let ms := layout_msgs bs lay in
  let n := (length ms - 1)%nat in
  let cf := {| pol := P_cur; streamed := false |} in
  let x := w_run2 cf bs ms None (optZ b) (w_sched_lag H 0 n) in
  let y := sw_run cf ms None (optZ b) (w_sched_lag H 0 n) in
  (i, hb (wb x), hl (wb x), hs (wb x), hb y, hl y, hs y).
Definition rows_w2_both (cs : list w2case) := map row_w2_both (index_from 0 cs).
