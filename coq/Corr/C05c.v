(* Corr/C05c.v — functions evaluated by the WP-J part of the C05 correspondence run (container glue).
   B: BlockReader::new / filesz() / blockoffset_last() / count_blocks / mtime() / read_block,
      process_path_tar, decompress_to_ntf and the tar crate's own entry listing (in-process, harness
      c05: open / pptar / ntf / tarls) vs Model/Containers.v on the SAME file bytes.
   Every function returns the list of disagreements (case index, code). *)
From Coq Require Import String.
From S4.Base Require Import Bytes.
From S4.Spec Require Import AssembleSpec ContainersSpec.
From S4.Model Require Import Assemble Containers.
From S4.Corr Require C05.
Open Scope N_scope.

Definition hexcat (l : list string) : bytes := flat_map unhex l.
(* run-length form for files with long constant stretches (fields at flate2's 65535-byte limit):
   each item is a hex chunk and how many times it is repeated *)
Definition hexcatr (l : list (string * N)) : bytes :=
  flat_map (fun p => concat (repeat (unhex (fst p)) (N.to_nat (snd p)))) l.
Fixpoint index_from {A} (i : N) (l : list A) : list (N * A) :=
  match l with [] => [] | x :: r => (i, x) :: index_from (i + 1) r end.

(* observed BlockReader: (new failed?, filesz, blockoffset_last, count_blocks, mtime code, mtime secs,
   count_blocks_processed, [(block index, kind 0 Found 1 Done 2 Err, hex)]) ;
   mtime code: 0 = the container file's own mtime, 1 = <secs>.0, 2 = mtime() panicked *)
Definition obs_t := (bool * N * N * N * N * N * N * list (N * N * list string))%type.

Definition mt_code (m : mtime_v) : N * N :=
  match m with MFile => (0, 0) | MSecs s => (1, s) | MPanic => (2, 0) end.
Definition bres_agrees (r : bres) (kind : N) (h : list string) : bool :=
  match r with
  | BFound b => (kind =? 0) && beqb b (hexcat h)
  | BDone => kind =? 1
  | BErr => kind =? 2
  | BFuel => false
  end.
Definition chk (b : bool) (code : N) : list N := if b then [] else [code].

(* the numbers every reader derives from filesz_actual *)
Definition derived_bad (n bs : N) (m : mtime_v) (o : obs_t) : list N :=
  let '(_, filesz, last, cnt, mc, ms, _, _) := o in
  chk (filesz =? n) 2 ++ chk (last =? blockoffset_last n bs) 3 ++ chk (cnt =? count_blocks n bs) 4
  ++ chk (let '(c, s) := mt_code m in (mc =? c) && (ms =? s)) 5.
Definition blocks_bad (f : N -> bres) (o : obs_t) : list N :=
  let '(_, _, _, _, _, _, _, results) := o in
  flat_map (fun r => let '(i, kind, h) := r in chk (bres_agrees (f i) kind h) (100 + i)) results.
Definition new_failed (o : obs_t) : bool := let '(e, _, _, _, _, _, _, _) := o in e.
Definition nread (o : obs_t) : N := let '(_, _, _, _, _, _, k, _) := o in k.

(* ---- gz: (bs, file, plain of the FIRST member = what the decoder yields, read schedule, observed) *)
Definition gz_case_t := (N * list (string * N) * list string * list N * obs_t)%type.
Definition gz_case_bad (c : gz_case_t) : list N :=
  let '(bs, fh, ph, sched, o) := c in
  let f := hexcatr fh in
  let plain := hexcat ph in
  match gz_new f with
  | CErr _ => chk (new_failed o) 1
  | CFuel => [9]
  | COk d =>
      if new_failed o then [1]
      else derived_bad (gd_filesz d) bs (mtime_of_header (gd_mtime d)) o
           ++ blocks_bad (fun i => match gz_read_block sched_state sched_read (fun _ => (plain, sched)) bs f i with
                                   | COk r => r | _ => BFuel end) o
  end.

(* ---- bz2 / lz4 pre-pass: (codec 2 bz2 3 lz4, bs, file, plain, schedule, observed) *)
Definition pre_case_t := (N * N * list string * list string * list N * obs_t)%type.
Definition pre_case_bad (c : pre_case_t) : list N :=
  let '(codec, bs, fh, ph, sched, o) := c in
  let f := hexcat fh in
  let plain := hexcat ph in
  let fuel := S (length plain) in
  let r := if codec =? 2 then bz2_new sched_state sched_read (fun _ => (plain, sched)) fuel f
           else lz4_new sched_state sched_read (fun _ => (plain, sched)) fuel f in
  match r with
  | CErr _ => chk (new_failed o) 1
  | CFuel => [9]
  | COk n => if new_failed o then [1] else derived_bad n bs MFile o
  end.

(* ---- xz: (bs, file, decoder outcomes: 0 one stream then end of input / 1 decoder error, plain, observed) *)
Definition xz_case_t := (N * list string * N * list string * obs_t)%type.
Definition xz_case_bad (c : xz_case_t) : list N :=
  let '(bs, fh, oc, ph, o) := c in
  let f := hexcat fh in
  let plain := hexcat ph in
  let outs := if oc =? 0 then [XzOk plain; XzEofErr] else [XzOtherErr] in
  match xz_new bs f outs with
  | CErr _ => chk (new_failed o) 1
  | CFuel => [9]
  | COk (blocks, n) =>
      if new_failed o then [1]
      else derived_bad n bs MFile o ++ chk (nread o =? N.of_nat (length blocks)) 6
           ++ blocks_bad (fun i => if blockoffset_last n bs <? i then BDone
                                   else if n =? 0 then BDone       (* read_block_FileXz: filesz_actual == 0 *)
                                   else match store_get i blocks with Some b => BFound b | None => BErr end) o
  end.

(* ---- tar: the crate's entry list as the harness printed it (tarls) ----
   item: (ok?, path (None: error), type byte, entry.size(), header size (None: error), mtime (None), data) *)
Definition titem_t := (bool * option (list string) * N * N * option N * option N * list string)%type.
Definition to_item (t : titem_t) : tar_item :=
  let '(ok, p, ty, esz, hsz, mt, d) := t in
  if ok then TItem (mk_toe (match p with Some h => Some (hexcat h) | None => None end) ty esz hsz mt (hexcat d))
  else TItemErr.
(* (bs, items, path|subpath, read schedule, observed) *)
Definition tar_case_t := (N * list titem_t * list string * list N * obs_t)%type.
Definition tar_case_bad (c : tar_case_t) : list N :=
  let '(bs, items, ph, sched, o) := c in
  let es := map to_item items in
  match tar_new (hexcat ph) es with
  | CErr _ => chk (new_failed o) 1
  | CFuel => [9]
  | COk d =>
      if new_failed o then [1]
      else derived_bad (td_filesz d) bs (tar_mtime_of_header (td_mtime d)) o
           ++ blocks_bad (tar_read_block sched_state sched_read (fun data => (data, sched)) bs es d) o
  end.

(* process_path_tar: (archive path, items, observed [(kind 0 listed 1 empty 2 file error, fullpath)]) *)
Definition pp_case_t := (list string * list titem_t * list (N * list string))%type.
Definition ppr_agrees (m : ppr) (o : N * list string) : bool :=
  match m with
  | PListed p => (fst o =? 0) && beqb p (hexcat (snd o))
  | PEmpty p => (fst o =? 1) && beqb p (hexcat (snd o))
  | PFileErr => fst o =? 2
  end.
Fixpoint all2 {A B} (f : A -> B -> bool) (a : list A) (b : list B) : bool :=
  match a, b with
  | [], [] => true
  | x :: a', y :: b' => f x y && all2 f a' b'
  | _, _ => false
  end.
Definition pp_case_bad (c : pp_case_t) : list N :=
  let '(ah, items, obs) := c in
  chk (all2 ppr_agrees (process_path_tar_m (hexcat ah) (map to_item items)) obs) 1.

(* the reference entry parser vs the crate's listing of the same archive bytes:
   (file, [(path, type, size, mtime (None), raw_file_position, data)] as the crate reports) *)
Definition ref_case_t := (list string * list (option (list string * N * N * option N * N * list string)))%type.
Definition ritem_agrees (r : tar_ritem) (o : option (list string * N * N * option N * N * list string)) : bool :=
  match r, o with
  | RItem p t sz m fp d, Some (ph, t', sz', m', fp', dh) =>
      beqb p (hexcat ph) && (t =? t') && (sz =? sz') && (fp =? fp') && beqb d (hexcat dh)
      && match m, m' with Some a, Some b => a =? b | None, None => true | _, _ => false end
  | RErr, None => true
  | _, _ => false
  end.
Definition ref_case_bad (c : ref_case_t) : list N :=
  let '(fh, obs) := c in
  let rs := tar_ref_list (hexcat fh) in
  if existsb (fun r => match r with RUnsupported => true | _ => false end) rs then [7]
  else chk (all2 ritem_agrees rs obs) 1.

(* ---- decompress_to_ntf: (kind 1 gz 2 other compressed 3 tar, file (gz: bytes; else unused), tar items,
        path|subpath, decoder output, schedule,
        observed (status 0 Some 1 Err 2 None, size, mtime code 0 file 1 secs 2 panic 3 none, secs, content)) *)
Definition ntf_obs_t := (N * N * N * N * list string)%type.
Definition ntf_case_t := (N * list string * list titem_t * list string * list string * list N * ntf_obs_t)%type.
Definition ntf_res_bad (content : bytes) (m : option mtime_v) (o : ntf_obs_t) : list N :=
  let '(st, sz, mc, ms, ch) := o in
  (* mc = 2: the call panicked (while converting the mtime), nothing was returned *)
  if mc =? 2 then chk (match m with Some MPanic => true | _ => false end) 5 else
  chk (st =? 0) 1 ++ chk (sz =? lenN content) 2 ++ chk (beqb content (hexcat ch)) 3
  ++ chk (match m with
          | None => mc =? 3
          | Some v => let '(c, s) := mt_code v in (mc =? c) && (ms =? s)
          end) 5.
Definition ntf_case_bad (c : ntf_case_t) : list N :=
  let '(kind, fh, items, ph, plainh, sched, o) := c in
  let '(st, _, _, _, _) := o in
  let plain := hexcat plainh in
  let fuel := S (length plain) in
  let mk := fun (_ : bytes) => (plain, sched) in
  match kind with
  | 1 => match ntf_gz sched_state sched_read mk fuel (hexcat fh) with
         | COk (l, m) => ntf_res_bad l (Some m) o
         | CErr _ => chk (st =? 1) 1
         | CFuel => [9]
         end
  | 2 => match ntf_plain sched_state sched_read mk fuel (hexcat fh) with
         | COk (l, m) => ntf_res_bad l (Some m) o
         | CErr _ => chk (st =? 1) 1
         | CFuel => [9]
         end
  | _ => match ntf_tar sched_state sched_read (fun data => (data, sched))
                 (S (fold_right (fun t acc => let '(_, _, _, _, _, _, d) := t in (length (hexcat d) + acc)%nat) 0%nat items))
                 (hexcat ph) (map to_item items) with
         | COk (Some (l, m)) => ntf_res_bad l m o
         | COk None => chk (st =? 2) 1
         | CErr _ => chk (st =? 1) 1
         | CFuel => [9]
         end
  end.

Definition run_cases {A} (f : A -> list N) (cs : list A) : list (N * N) :=
  flat_map (fun ic => map (fun code => (fst ic, code)) (f (snd ic))) (index_from 0 cs).


(* ---- read blocks LARGER than the compressor's internal block (bzip2 level x 100 kB, lz4 frame blocks,
   the gz reader's 2056-byte buffer, xz): text logs of 250-700 kB.  Such a log is not written into the
   case file (coqc spends most of its time parsing long literals): it is GENERATED here, and by the same
   rule in checks/c05_glue.py:
     line i = "2024-03-05 HH:MM:SS host app[D]: big block line NNNNNN abcdefghijklmnopqrstuvwxyz0123456789 ABCDEFGHIJ\n"
     HH:MM:SS = 00:00:00 + i seconds, D = i mod 7, NNNNNN = i. *)
Definition dec2 (k : N) : bytes := [48 + (k / 10) mod 10; 48 + k mod 10].
Definition dec6 (k : N) : bytes :=
  [48 + (k / 100000) mod 10; 48 + (k / 10000) mod 10; 48 + (k / 1000) mod 10; 48 + (k / 100) mod 10; 48 + (k / 10) mod 10; 48 + k mod 10].
Definition gen_line (i : N) : bytes :=
  s2b "2024-03-05 " ++ dec2 ((i / 3600) mod 24) ++ [58] ++ dec2 ((i / 60) mod 60) ++ [58] ++ dec2 (i mod 60)
  ++ s2b " host app[" ++ [48 + i mod 7] ++ s2b "]: big block line " ++ dec6 i
  ++ s2b " abcdefghijklmnopqrstuvwxyz0123456789 ABCDEFGHIJ" ++ [10].
Fixpoint gen_log_from (k : nat) (i : N) : bytes :=
  match k with O => [] | S k' => gen_line i ++ gen_log_from k' (i + 1) end.
Definition gen_log (nlines : N) : bytes := gen_log_from (N.to_nat nlines) 0.

(* digest of a block, the same in harness c05 `openh` (blocks of 128 KiB .. 700 kB are compared
   by length and digest instead of by their hex text) *)
(* Fletcher-style, no reduction: a = sum of (byte + 1), c = sum of the running a; position sensitive
   (a zero-filled or shifted tail changes it); digest = c * 2^32 + a  (a < 2^32 for blocks under 16 MiB) *)
Definition digest (l : bytes) : N :=
  let '(a, c) := fold_left (fun ac b => let a' := fst ac + b + 1 in (a', snd ac + a')) l (0, 0) in
  c * 4294967296 + a.

(* (codec 1 gz 2 bz2 3 lz4 4 xz, number of lines, schedule / lz4 internal block sizes,
    [(bs, [(block index, kind, length, digest)])]) *)
Definition big_case_t := (N * N * list N * list (N * list (N * N * N * N)))%type.
Definition big_case_bad (c : big_case_t) : list N :=
  let '(codec, nlines, sched, per_bs) := c in
  let plain := gen_log nlines in
  flat_map (fun pb =>
    let '(bs, results) := pb in
    flat_map (fun r =>
      let '(i, kind, ln, dg) := r in
      match C05.model_block codec bs plain sched i with
      | AOk b => chk ((kind =? 0) && (ln =? lenN b) && (dg =? digest b)) (1000 * (bs / 65536) + i)
      | ADone => chk (kind =? 1) (1000 * (bs / 65536) + i)
      | AErr _ => chk (kind =? 2) (1000 * (bs / 65536) + i)
      | AOutOfFuel => [9]
      end) results) per_bs.
