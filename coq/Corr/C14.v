(* Corr/C14.v — functions evaluated by the correspondence run (generated cases.v files). *)
From Coq Require Import String.
From S4.Base Require Import Bytes.
From S4.Model Require Import Calendar CliDt.
From S4.Gen Require Import CliDtTables.
From S4.Spec Require Import CalendarSpec CliDtRef CliDtSpec.
From S4.Proofs Require Import CalendarProofs CliDtSpecProofs.
Open Scope Z_scope.

(* the model instantiated with the regenerated tables *)
Definition m_resolve := resolve cli_rows append_value append_pattern tz_table
                                dur_at dur_plus dur_minus dur_units dur_anchor_start dur_anchor_end epoch_utc.
Definition m_bounds := cli_bounds cli_rows append_value append_pattern tz_table
                                  dur_at dur_plus dur_minus dur_units dur_anchor_start dur_anchor_end epoch_utc.
Definition m_tz := cli_tz tz_table.

Fixpoint index_from {A} (i : N) (l : list A) : list (N * A) :=
  match l with [] => [] | x :: r => (i, x) :: index_from (i + 1) r end.

(* outcome code: 0 rejected; 1 + 2*[a present] + 4*[b present]; seconds (floor) or 0 *)
Definition outcome := (Z * Z * Z)%type.
Definition secs (o : option Z) : Z := match o with Some v => v / 1000000000 | None => 0 end.
Definition pres (o : option Z) (w : Z) : Z := match o with Some _ => w | None => 0 end.
Definition encode (r : option (option Z * option Z)) : outcome :=
  match r with
  | None => (0, 0, 0)
  | Some (a, b) => (1 + pres a 2 + pres b 4, secs a, secs b)
  end.
Definition outcome_eqb (x y : outcome) : bool :=
  let '(c1, a1, b1) := x in let '(c2, a2, b2) := y in (c1 =? c2) && (a1 =? a2) && (b1 =? b2).

Definition arg_of (h : option string) : option (list sym) :=
  match h with Some s => Some (classify (unhex s)) | None => None end.

(* B: model.  case = (hex -a | none, hex -b | none, hex --tz-offset value, now seconds, impl outcome) *)
Definition model_bounds (a b : option string) (tzs : string) (now : Z) : option (option Z * option Z) :=
  match m_tz (unhex tzs) with
  | None => None
  | Some tz => m_bounds (arg_of a) (arg_of b) tz now
  end.
Definition model_bad (cs : list (option string * option string * string * Z * outcome)) : list (N * outcome) :=
  flat_map (fun ic => let '(i, (a, b, tzs, now, impl)) := ic in
                      let m := encode (model_bounds a b tzs now) in
                      if outcome_eqb m impl then [] else [(i, m)]) (index_from 0 cs).
(* exact nanoseconds of both bounds (0 when absent / rejected) *)
Definition ns_of (r : option (option Z * option Z)) : Z * Z :=
  match r with
  | Some (a, b) => (match a with Some v => v | None => 0 end, match b with Some v => v | None => 0 end)
  | None => (0, 0)
  end.
Definition model_ns (cs : list (option string * option string * string * Z)) : list (N * (Z * Z)) :=
  map (fun ic => let '(i, (a, b, tzs, now)) := ic in (i, ns_of (model_bounds a b tzs now))) (index_from 0 cs).

(* C: spec.  case = (form -a, form -b, hex -a, hex -b, check well-formedness, tz seconds, now, impl outcome)
   code 8: the text python rendered differs from [render]; code 9: form outside the documented grammar *)
Definition render_matches (f : option form) (h : option string) : bool :=
  match f, h with
  | None, None => true
  | Some f, Some h => beqb (render f) (unhex h)
  | _, _ => false
  end.
Definition wf_opt (f : option form) : bool := match f with Some f => form_ok f | None => true end.
Definition spec_outcome (fa fb : option form) (ha hb : option string) (wf : bool) (tz now : Z) : outcome :=
  if negb (render_matches fa ha && render_matches fb hb) then (8, 0, 0)
  else if wf && negb (wf_opt fa && wf_opt fb) then (9, 0, 0)
  else encode (spec_bounds_fast fa fb tz now).
Definition spec_bad (cs : list (option form * option form * option string * option string * bool * Z * Z * outcome))
  : list (N * outcome) :=
  flat_map (fun ic => let '(i, (fa, fb, ha, hb, wf, tz, now, impl)) := ic in
                      let s := spec_outcome fa fb ha hb wf tz now in
                      if outcome_eqb s impl then [] else [(i, s)]) (index_from 0 cs).
Definition spec_ns (cs : list (option form * option form * Z * Z)) : list (N * (Z * Z)) :=
  map (fun ic => let '(i, (fa, fb, tz, now)) := ic in (i, ns_of (spec_bounds_fast fa fb tz now))) (index_from 0 cs).
