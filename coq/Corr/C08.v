(* Corr/C08.v — functions the C08 correspondence run evaluates with vm_compute. *)
From Coq Require Import String List NArith ZArith Bool.
Import ListNotations.
From S4.Base Require Import Bytes.
From S4.Spec Require Import RecordsSpec.
From S4.Model Require Import Records.
From S4.Gen Require Import FixedStructTables.
Open Scope N_scope.

Fixpoint index_from {A} (i : N) (l : list A) : list (N * A) :=
  match l with [] => [] | x :: r => (i, x) :: index_from (i + 1) r end.

Fixpoint listN_eqb (a b : list N) : bool :=
  match a, b with
  | [], [] => true
  | x :: a', y :: b' => (x =? y) && listN_eqb a' b'
  | _, _ => false
  end.

(* (entry size, lo, hi, time values of the entries, offsets of invalid (all-0xFF) entries, impl) *)
Definition case08 : Type := (N * option tv * option tv * list tv * list N * list N)%type.

Fixpoint memN (x : N) (l : list N) : bool :=
  match l with [] => false | y :: r => (x =? y) || memN x r end.

Definition model_fos (sz : N) (lo hi : option tv) (tvs : list tv) (bad : list N) : option (list N) :=
  match records_sent (fun fo => memN fo bad) (records_out_K2 lo hi sz tvs) with
  | WDone l => Some l | WOutOfFuel _ => None end.

(* B: implementation (in-process reader) vs model.  Reports (case index, model's count + 1;
   0 = the model ran out of fuel) for disagreeing cases. *)
Definition model_bad (cs : list case08) : list (N * N) :=
  flat_map (fun ic => let '(i, (sz, lo, hi, tvs, bad, impl)) := ic in
                      match model_fos sz lo hi tvs bad with
                      | Some l => if listN_eqb l impl then [] else [(i, N.of_nat (length l) + 1)]
                      | None => [(i, 0)]
                      end) (index_from 0 cs).

(* C: implementation (the s4 binary) vs spec; needs neither the model nor the tables.
   An invalid entry is not a record: the spec is taken over the valid entries. *)
Definition spec_fos (sz : N) (lo hi : option tv) (tvs : list tv) (bad : list N) : list N :=
  map r_fo (stable_sort_by_time (filter (fun r => negb (memN (r_fo r) bad))
                                        (filter (rec_keep lo hi) (index_recs sz 0 tvs)))).
Definition spec_bad (cs : list case08) : list (N * N) :=
  flat_map (fun ic => let '(i, (sz, lo, hi, tvs, bad, impl)) := ic in
                      let l := spec_fos sz lo hi tvs bad in
                      if listN_eqb l impl then [] else [(i, N.of_nat (length l) + 1)])
           (index_from 0 cs).

(* B, byte level: the file bytes go through the regenerated layout row (decode_tv) and the
   model.  case = (layout name, file bytes in hex, lo, hi, impl offsets).
   Codes: 0 = layout not in the table / out of fuel. *)
Fixpoint find_layout (n : bytes) (t : list layout) : option layout :=
  match t with
  | [] => None
  | l :: r => if beqb n (l_name l) then Some l else find_layout n r
  end.
Definition bytes_bad (cs : list (string * string * option tv * option tv * list N * list N)) : list (N * N) :=
  flat_map (fun ic => let '(i, (name, hexfile, lo, hi, bad, impl)) := ic in
                      match find_layout (s2b name) fixedstruct_layouts with
                      | None => [(i, 0)]
                      | Some l =>
                          match model_fos (l_size l) lo hi (file_tvs l (unhex hexfile)) bad with
                          | Some o => if listN_eqb o impl then [] else [(i, N.of_nat (length o) + 1)]
                          | None => [(i, 0)]
                          end
                      end) (index_from 0 cs).
