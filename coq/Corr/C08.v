(* Corr/C08.v — functions the C08 correspondence run evaluates with vm_compute. *)
From Coq Require Import String List NArith ZArith Bool.
Import ListNotations.
From S4.Base Require Import Bytes.
From S4.Spec Require Import RecordsSpec.
From S4.Model Require Import Records.
From S4.Gen Require Import FixedStructTables.
Open Scope N_scope.

Fixpoint index_from {A} (i : N) (l : list A) : list (N * A) :=
  match l with [] => [] | x :: r => (i, x) :: index_from (i + 1) r end.

Fixpoint listN_eqb (a b : list N) : bool :=
  match a, b with
  | [], [] => true
  | x :: a', y :: b' => (x =? y) && listN_eqb a' b'
  | _, _ => false
  end.

(* (entry size, lo, hi, time values of the entries, offsets of invalid (all-0xFF) entries, impl) *)
Definition case08 : Type := (N * option tv * option tv * list tv * list N * list N)%type.

Fixpoint memN (x : N) (l : list N) : bool :=
  match l with [] => false | y :: r => (x =? y) || memN x r end.

Definition model_fos (sz : N) (lo hi : option tv) (tvs : list tv) (bad : list N) : option (list N) :=
  match records_sent (fun fo => memN fo bad) (records_out_K2 lo hi sz tvs) with
  | WDone l => Some l | WOutOfFuel _ => None end.

(* B: implementation (in-process reader) vs model.  Reports (case index, model's count + 1;
   0 = the model ran out of fuel) for disagreeing cases. *)
Definition model_bad (cs : list case08) : list (N * N) :=
  flat_map (fun ic => let '(i, (sz, lo, hi, tvs, bad, impl)) := ic in
                      match model_fos sz lo hi tvs bad with
                      | Some l => if listN_eqb l impl then [] else [(i, N.of_nat (length l) + 1)]
                      | None => [(i, 0)]
                      end) (index_from 0 cs).

(* C: implementation (the s4 binary) vs spec; needs neither the model nor the tables.
   An invalid entry is not a record: the spec is taken over the valid entries. *)
Definition spec_fos (sz : N) (lo hi : option tv) (tvs : list tv) (bad : list N) : list N :=
  map r_fo (stable_sort_by_time (filter (fun r => negb (memN (r_fo r) bad))
                                        (filter (rec_keep lo hi) (index_recs sz 0 tvs)))).
Definition spec_bad (cs : list case08) : list (N * N) :=
  flat_map (fun ic => let '(i, (sz, lo, hi, tvs, bad, impl)) := ic in
                      let l := spec_fos sz lo hi tvs bad in
                      if listN_eqb l impl then [] else [(i, N.of_nat (length l) + 1)])
           (index_from 0 cs).

(* B, byte level: the file bytes go through the regenerated layout row (decode_tv) and the
   model.  case = (layout name, file bytes in hex, lo, hi, impl offsets).
   Codes: 0 = layout not in the table / out of fuel. *)
Fixpoint find_layout (n : bytes) (t : list layout) : option layout :=
  match t with
  | [] => None
  | l :: r => if beqb n (l_name l) then Some l else find_layout n r
  end.
Definition bytes_bad (cs : list (string * string * option tv * option tv * list N * list N)) : list (N * N) :=
  flat_map (fun ic => let '(i, (name, hexfile, lo, hi, bad, impl)) := ic in
                      match find_layout (s2b name) fixedstruct_layouts with
                      | None => [(i, 0)]
                      | Some l =>
                          match model_fos (l_size l) lo hi (file_tvs l (unhex hexfile)) bad with
                          | Some o => if listN_eqb o impl then [] else [(i, N.of_nat (length o) + 1)]
                          | None => [(i, 0)]
                          end
                      end) (index_from 0 cs).

(* ------------------------------------------------------------------ rendering and layout detection *)
From S4.Model Require Import RecordRender LayoutDetect.

Fixpoint listB_eqb (a b : list bytes) : bool :=
  match a, b with
  | [], [] => true
  | x :: a', y :: b' => beqb x y && listB_eqb a' b'
  | _, _ => false
  end.

(* B, FixedStruct::as_bytes (in-process, buffer of print_buffer_cap bytes) vs the model on the same
   entry bytes: case = (layout name, entry bytes in hex, text written by the implementation in hex).
   Codes: 0 = no render program for the name; 1 = the sequential model (writes through the cursor)
   differs from the implementation; 2 = the model fails (buffer full); 3 = the declarative text
   (concatenation of the items' texts) differs; 4 = the entry's values are clean but reading the
   line back does not return the items' texts. *)
Definition render_bad (cs : list (string * string * string)) : list (N * N) :=
  flat_map (fun ic => let '(i, (name, hexe, hext)) := ic in
     match assoc (s2b name) fixedstruct_render with
     | None => [(i, 0)]
     | Some items =>
         let e := unhex hexe in
         match as_bytes f32_int_text print_buffer_cap items as_bytes_tail e with
         | RFail _ => [(i, 2)]
         | ROk t =>
             if negb (beqb t (unhex hext)) then [(i, 1)]
             else if negb (beqb t (render f32_int_text items as_bytes_tail e)) then [(i, 3)]
             else if items_clean f32_int_text items as_bytes_tail e then
                    match parse_items items as_bytes_tail t with
                    | Some l => if listB_eqb l (var_texts f32_int_text items e) then [] else [(i, 4)]
                    | None => [(i, 4)]
                    end
                  else []
         end
     end) (index_from 0 cs).

(* how many of the cases have clean values (evidence: the parse theorem's hypothesis is exercised) *)
Definition render_clean_count (cs : list (string * string * string)) : N :=
  N.of_nat (length (filter (fun c => let '(name, hexe, _) := c in
     match assoc (s2b name) fixedstruct_render with
     | Some items => items_clean f32_int_text items as_bytes_tail (unhex hexe)
     | None => false end) cs)).

(* B, FixedStruct::score_fixedstruct after buffer_to_fixedstructptr vs the model: case = (layout
   name, bonus, entry hex, implementation: Some score | None = buffer_to_fixedstructptr refused).
   Codes: 0 = no program; 1 = scores differ; 2 = convertibility differs; 5 = the model's CStr read
   leaves the struct (not compared: the implementation's value depends on the heap). *)
Definition score_bad (cs : list (string * Z * string * option Z)) : list (N * N) :=
  flat_map (fun ic => let '(i, (name, bonus, hexe, impl)) := ic in
     match assoc (s2b name) fixedstruct_score with
     | None => [(i, 0)]
     | Some items =>
         let e := unhex hexe in
         if convertible e then
           match impl with
           | None => [(i, 2)]
           | Some s => match score_entry [] items bonus e with
                       | None => [(i, 5)]
                       | Some m => if (m =? s)%Z then [] else [(i, 1)]
                       end
           end
         else match impl with None => [] | Some _ => [(i, 2)] end
     end) (index_from 0 cs).

(* B, layout detection: case = (file kind 0..5, file bytes as hex chunks, per-candidate high scores
   of the implementation in the model's candidate order (None = FileErrNoHighScore), the layout
   FixedStructReader::new chose ("" = none) and its high score).
   Codes: 1 = candidate sets differ in length; 2 = the high score of a candidate whose reads all
   stay inside the struct differs; 3 = another layout (or none) chosen / a different high score
   than the model's first maximum in iteration order; 4 = (only when the code does not fix the
   order) tie: the chosen layout is not one of the tied maxima;
   0 = some candidate's read leaves the struct, the choice is not compared (the per-candidate
   scores of the other candidates are); 10 + k = no disagreement, and k >= 2 candidates tie at the
   maximal score (the chosen layout is one of them). *)
Definition file_of (chunks : list string) : bytes := flat_map unhex chunks.

Definition model_cands (kind : N) (file : bytes) : list cand :=
  filesz_candidates fixedstruct_layouts filesz_bonus filesz_try_all fixedstruct_score score_bonus
                    kind (N.of_nat (length file)).

Fixpoint scores_agree (m : list (bytes * option Z)) (impl : list (option Z)) : bool :=
  match m, impl with
  | [], [] => true
  | (_, None) :: m', _ :: i' => scores_agree m' i'
  | (_, Some h) :: m', Some s :: i' => (h =? s)%Z && (0 <? h)%Z && scores_agree m' i'
  | (_, Some h) :: m', None :: i' => (h =? 0)%Z && scores_agree m' i'
  | _, _ => false
  end.

Definition maxima (m : list (bytes * Z)) : list bytes :=
  let mx := fold_left Z.max (map snd m) 0%Z in
  if (0 <? mx)%Z then map fst (filter (fun x => (snd x =? mx)%Z) m) else [].

(* the candidate sequence score_file walks: the set of filesz_to_types in ascending discriminant
   order when the code sorts it (score_file_order_fixed), else in table order (then the order is
   not determined by the code and a tie is not compared) *)
Definition model_cands_ordered (kind : N) (file : bytes) : list cand :=
  if score_file_order_fixed then order_cands candidate_order (model_cands kind file) else model_cands kind file.

Definition detect_code (kind : N) (chunks : list string) (impl_scores : list (option Z))
           (chosen : string) (chosen_score : Z) : option N :=
  let file := file_of chunks in
  let cands := model_cands kind file in
  let mo := cand_scores_opt no_mem count_found_entries_max cands file in
  if negb (Nat.eqb (length mo) (length impl_scores)) then Some 1
  else if negb (scores_agree mo impl_scores) then Some 2
  else match cand_scores no_mem count_found_entries_max (model_cands_ordered kind file) file with
       | None => Some 0
       | Some m =>
           let '(b, hs) := best_of m None 0%Z in
           let tied := maxima m in
           let agree := match b with
                        | Some n' => beqb (s2b chosen) n' && (hs =? chosen_score)%Z
                        | None => beqb (s2b chosen) []
                        end in
           match tied with
           | _ :: _ :: _ =>
               if score_file_order_fixed
               then (if agree then Some (10 + N.of_nat (length tied)) else Some 3)
               else (if existsb (beqb (s2b chosen)) tied then Some (10 + N.of_nat (length tied)) else Some 4)
           | _ => if agree then None else Some 3
           end
       end.

Definition detect_bad (cs : list (N * list string * list (option Z) * string * Z)) : list (N * N) :=
  flat_map (fun ic => let '(i, (kind, chunks, impl_scores, chosen, chosen_score)) := ic in
     match detect_code kind chunks impl_scores chosen chosen_score with
     | Some c => [(i, c)] | None => [] end) (index_from 0 cs).

