(* Corr/C09.v — functions evaluated by the correspondence run of C09
   (generated cases_NNN.v files, vm_compute). *)
From Coq Require Import String.
From S4.Base Require Import Bytes.
From S4.Model Require Import Journal.
From S4.Spec Require Import JournalSpec.
Open Scope N_scope.

Fixpoint index_from {A} (i : N) (l : list A) : list (N * A) :=
  match l with [] => [] | x :: r => (i, x) :: index_from (i + 1) r end.

Fixpoint eq_listN (a b : list N) : bool :=
  match a, b with
  | [], [] => true
  | x :: a', y :: b' => (x =? y) && eq_listN a' b'
  | _, _ => false
  end.

(* ---- window tie: the journal is given by its receive times; entry i carries
   its position in e_mono *)
Definition mk_journal (ts : list Z) : journal :=
  map (fun it => mkEntry (snd it) [] (Some (fst it)) []) (index_from 0 ts).
Definition idx_of (e : entry) : N := match e_mono e with Some i => i | None => 0 end.

(* model with the repaired stop test, reference oracle *)
Definition model_idx (A B : option Z) (ts : list Z) : list N :=
  map idx_of (journal_run ref_seek_head ref_seek_realtime stop_after A B (mk_journal ts)).
(* model with the stop test before the repair (regression: must NOT equal the binary
   on a window whose upper bound is an entry time) *)
Definition model_idx_old (A B : option Z) (ts : list Z) : list N :=
  map idx_of (journal_run ref_seek_head ref_seek_realtime stop_at_or_after A B (mk_journal ts)).

(* the binary's index list is written as runs (first index, length) *)
Fixpoint run_from (i : N) (n : nat) : list N :=
  match n with O => [] | S n' => i :: run_from (i + 1) n' end.
Definition expand (rs : list (N * N)) : list N :=
  flat_map (fun r => run_from (fst r) (N.to_nat (snd r))) rs.

(* case = (A, B, indices the binary printed, as runs)
   code bit 1: model <> impl, bit 2: spec <> impl, bit 4: the model with the OLD stop test <> impl
   (bit 4 alone is expected on sharp windows: evidence that they separate old from repaired) *)
Definition window_bad (ts : list Z) (cs : list (option Z * option Z * list (N * N))) : list (N * N) :=
  flat_map (fun ic => let '(i, (A, B, runs)) := ic in
                      let impl := expand runs in
                      let m := if eq_listN (model_idx A B ts) impl then 0 else 1 in
                      let s := if eq_listN (window_idx A B ts) impl then 0 else 2 in
                      let o := if eq_listN (model_idx_old A B ts) impl then 0 else 4 in
                      if m + s + o =? 0 then [] else [(i, m + s + o)]) (index_from 0 cs).
Definition times_sorted (ts : list Z) : bool := nondecreasingb ts.

(* ---- export tie *)
Definition unhex_fields (fs : list (string * string)) : list field :=
  map (fun kv => (unhex (fst kv), unhex (snd kv))) fs.

Fixpoint beq_fields (a b : list field) : bool :=
  match a, b with
  | [], [] => true
  | (k, v) :: a', (k', v') :: b' => beqb k k' && beqb v v' && beq_fields a' b'
  | _, _ => false
  end.
Fixpoint beq_entries (a b : list (list field)) : bool :=
  match a, b with
  | [], [] => true
  | x :: a', y :: b' => beq_fields x y && beq_entries a' b'
  | _, _ => false
  end.

(* case = (time, cursor, mono, fields, bytes the binary printed for that entry)
   code bit 1: render_export e <> impl; bit 2: parse_export impl <> [export_fields e];
   bit 4: the printer before the repair (text only) <> impl (expected on entries with a non-text value) *)
Definition export_bad (cs : list (Z * string * option N * list (string * string) * string)) : list (N * N) :=
  flat_map (fun ic => let '(i, (t, cur, mono, fs, impl)) := ic in
                      let e := mkEntry t (unhex cur) mono (unhex_fields fs) in
                      let b := unhex impl in
                      let m := if beqb (render_export e) b then 0 else 1 in
                      let p := match parse_export b with
                               | POk es => if beq_entries es [export_fields e] then 0 else 2
                               | _ => 2
                               end in
                      let o := if beqb (render_export_textonly e) b then 0 else 4 in
                      if m + p + o =? 0 then [] else [(i, m + p + o)]) (index_from 0 cs).

(* cat: case = (fields, bytes printed) *)
Definition cat_bad (cs : list (list (string * string) * string)) : list (N * N) :=
  flat_map (fun ic => let '(i, (fs, impl)) := ic in
                      let e := mkEntry 0%Z [] None (unhex_fields fs) in
                      if beqb (render_cat e) (unhex impl) then [] else [(i, 1)]) (index_from 0 cs).

(* whole cat run over a journal given by (receive time, MESSAGE value | none): entries
   without MESSAGE print nothing and the enumeration continues (cat_without_message).
   case = (A, B, stdout of the binary) *)
Definition mk_cat_journal (es : list (Z * option string)) : journal :=
  map (fun tm => mkEntry (fst tm) [] None
                   (match snd tm with
                    | Some m => [(s2b "PRIORITY", [54]); (k_message, unhex m)]
                    | None => [(s2b "PRIORITY", [54]); (s2b "MESSAGX", [120])]
                    end)) es.
Definition cat_run_bad (es : list (Z * option string)) (cs : list (option Z * option Z * string)) : list (N * N) :=
  let j := mk_cat_journal es in
  flat_map (fun ic => let '(i, (A, B, impl)) := ic in
                      if beqb (journal_stdout ref_seek_head ref_seek_realtime stop_after RCat A B j) (unhex impl)
                      then [] else [(i, 1)]) (index_from 0 cs).

(* ---- parser twin: case = (stream, result of the python twin: Some entries | None = malformed) *)
Definition parse_bad (cs : list (string * option (list (list (string * string))))) : list (N * N) :=
  flat_map (fun ic => let '(i, (s, exp)) := ic in
                      let ok := match parse_export (unhex s), exp with
                                | POk es, Some xs => beq_entries es (map unhex_fields xs)
                                | PMalformed, None => true
                                | _, _ => false
                                end in
                      if ok then [] else [(i, 1)]) (index_from 0 cs).

(* ---- text/binary form choice: case = (data object, export_data_is_text result) *)
Definition textsafe_bad (cs : list (string * bool)) : list (N * N) :=
  flat_map (fun ic => let '(i, (d, impl)) := ic in
                      if Bool.eqb (text_safe (unhex d)) impl then [] else [(i, 1)]) (index_from 0 cs).
