(* Corr/C13.v — functions evaluated by the correspondence runs of C13 and C19. *)
From Coq Require Import String.
From S4.Base Require Import Bytes.
From S4.Model Require Import PrintCal Strftime Print Summary.
Open Scope N_scope.

(* stdout with SGR groups abstracted: ESC followed by the class code *)
Definition enc (os : list out) : bytes :=
  flat_map (fun x => match x with
                     | OB b => [b]
                     | OS CDefault => [27; 48]
                     | OS CText => [27; 49]
                     | OS CDate => [27; 50]
                     end) os.

Definition kind_of (n : N) : kind :=
  if n =? 0 then KSys else if n =? 1 then KFixed else if n =? 2 then KEvtx else KJournal.

(* options: colour, prepend file, align, psep, has_fmt, fmt, off, sep *)
Definition copts := (bool * bool * bool * string * bool * string * Z * string)%type.
Definition mk_cli (o : copts) : cli :=
  let '(col, pf, al, ps, hf, fm, off, sep) := o in
  {| c_colour := col; c_prepend_file := pf; c_align := al; c_psep := unhex ps;
     c_fmt := if hf then Some (unhex fm) else None; c_off := off; c_sep := unhex sep; c_summary := true |}.

Definition csrc := (string * N * N)%type.
Definition mk_src (s : csrc) : source :=
  let '(n, ch, w) := s in {| s_name := unhex n; s_nchars := N.to_nat ch; s_width := N.to_nat w |}.

(* event: src, kind, instant, lines (each a list of hex parts), dt_beg, dt_end, is_last *)
Definition cev := (N * N * Z * list (list string) * N * N * bool)%type.
Definition mk_ev (e : cev) : event :=
  let '(src, k, t, ls, b, en, il) := e in
  {| e_src := N.to_nat src; e_is_last := il;
     e_msg := {| m_kind := kind_of k; m_t := t; m_lines := map (map unhex) ls;
                 m_beg := N.to_nat b; m_end := N.to_nat en |} |}.

Definition model_run (o : copts) (ss : list csrc) (es : list cev) : cstate :=
  run (mk_cli o) (map mk_src ss) (map mk_ev es).

Definition model_stdout (o : copts) (ss : list csrc) (es : list cev) : bytes :=
  enc (k_stdout (model_run o ss es)).

Fixpoint index_from {A} (i : N) (l : list A) : list (N * A) :=
  match l with [] => [] | x :: r => (i, x) :: index_from (i + 1) r end.

(* B: case = (opts, sources, events, impl stdout (SGR abstracted, hex), impl summary numbers
   [bytes; lines; syslines; fixedstruct; evtx; journal]).  Result: (index, code) of disagreeing cases:
   code 1 = stdout differs, 2.. = the summary number at position code-2 differs *)
Definition nums_of (s : summ) : list N := [u_bytes s; u_lines s; u_sys s; u_fixed s; u_evtx s; u_journal s].

Fixpoint first_diff (i : N) (a b : list N) : N :=
  match a, b with
  | x :: a', y :: b' => if x =? y then first_diff (i + 1) a' b' else i
  | [], [] => 0
  | _, _ => i
  end.

Definition case := (copts * list csrc * list cev * list string * list N)%type.

Definition model_bad (cs : list case) : list (N * N) :=
  flat_map (fun ic => let '(i, (o, ss, es, out, nums)) := ic in
                      let st := model_run o ss es in
                      if negb (beqb (enc (k_stdout st)) (flat_map unhex out)) then [(i, 1)]
                      else match first_diff 2 (nums_of (k_total st)) nums with
                           | 0 => []
                           | c => [(i, c)]
                           end) (index_from 0 cs).

(* strftime alone: (fmt hex, t, off, impl hex) *)
Definition strf_bad (cs : list (string * Z * Z * string)) : list (N * N) :=
  flat_map (fun ic => let '(i, (f, t, off, impl)) := ic in
                      match strftime (unhex f) t off with
                      | Some s => if beqb s (unhex impl) then [] else [(i, 1)]
                      | None => [(i, 2)]
                      end) (index_from 0 cs).
