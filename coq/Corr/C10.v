(* Corr/C10.v — functions the C10 correspondence run evaluates with vm_compute. *)
From Coq Require Import List NArith ZArith Bool.
Import ListNotations.
From S4.Spec Require Import RecordsSpec.
From S4.Model Require Import Records Evtx.
Open Scope N_scope.

Fixpoint index_from {A} (i : N) (l : list A) : list (N * A) :=
  match l with [] => [] | x :: r => (i, x) :: index_from (i + 1) r end.

Fixpoint listN_eqb (a b : list N) : bool :=
  match a, b with
  | [], [] => true
  | x :: a', y :: b' => (x =? y) && listN_eqb a' b'
  | _, _ => false
  end.

(* B: the map logic of EvtxReader (in-process) vs the model.
   case = (lo, hi, enumeration as option timestamps, impl: enumeration indexes in pop order) *)
Definition model_bad (cs : list (option Z * option Z * list (option Z) * list N)) : list (N * N) :=
  flat_map (fun ic => let '(i, (lo, hi, rs, impl)) := ic in
                      match evtx_out lo hi rs with
                      | DDone l => if listN_eqb l impl then [] else [(i, N.of_nat (length l) + 1)]
                      | DOutOfFuel _ => [(i, 0)]
                      end) (index_from 0 cs).

(* C: the binary vs the spec.  evs = the independent dump (enumeration index, creation time),
   impl = enumeration indexes in the order the binary printed them *)
Definition spec_bad (cs : list (option Z * option Z * list (N * Z) * list N)) : list (N * N) :=
  flat_map (fun ic => let '(i, (lo, hi, evs, impl)) := ic in
                      let l := map e_idx (spec_events lo hi (map (fun p => mkev (fst p) (snd p)) evs)) in
                      if listN_eqb l impl then [] else [(i, N.of_nat (length l) + 1)])
           (index_from 0 cs).
