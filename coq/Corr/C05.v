(* Corr/C05.v — functions evaluated by the C05 correspondence run (generated cases.v files).
   B: BlockReader::read_block on real .gz/.bz2/.lz4/.xz/.tar files vs the model.
   case = (codec, bs, plain hex, schedule, aux, results)
     codec   1 gz  2 bz2  3 lz4  4 xz  5 tar member
     schedule: gz/bz2/tar: read sizes the model decoder uses (the model's answer must not depend on
               them: theorem assemble_chunk_independent); lz4: the frame's internal block sizes
     aux     xz: count_blocks_processed() right after BlockReader::new (blocks pre-sliced)
     results (block index, kind, hex): kind 0 Found(hex) 1 Done 2 Err *)
From Coq Require Import String.
From S4.Base Require Import Bytes.
From S4.Spec Require Import AssembleSpec.
From S4.Model Require Import Assemble.
Open Scope N_scope.

Fixpoint split_sizes (l : list N) (sizes : list N) : list (list N) :=
  match sizes with
  | [] => match l with [] => [] | _ => [l] end
  | s :: r => match l with
              | [] => []
              | _ => firstn (N.to_nat s) l :: split_sizes (skipn (N.to_nat s) l) r
              end
  end.

Definition xz_block (bs : N) (plain : list N) (i : N) : ares (list N) :=
  let n := lenN plain in
  if blockoffset_last n bs <? i then ADone
  else if n =? 0 then ADone
  else match xz_slices bs plain with
       | Some sl => match nth_error sl (N.to_nat i) with
                    | Some (_, b) => AOk b
                    | None => AErr ENoBlock
                    end
       | None => AOutOfFuel
       end.

Definition model_block (codec bs : N) (plain : list N) (sched : list N) (i : N) : ares (list N) :=
  let n := lenN plain in
  match codec with
  | 1 => assemble_gz sched_state sched_read bs n (plain, sched) i
  | 2 => assemble_bz2 sched_state sched_read bs n (plain, sched) i
  | 3 => assemble_lz4 iblk_state iblk_read bs n (split_sizes plain sched) i
  | 4 => xz_block bs plain i
  | 5 => assemble_tar_member sched_state sched_read bs n (plain, sched) i
  | _ => AOutOfFuel
  end.

Definition kind_of (r : ares (list N)) : N :=
  match r with AOk _ => 0 | ADone => 1 | AErr _ => 2 | AOutOfFuel => 9 end.

(* long byte strings are written as lists of short hex literals (a single huge string literal
   overflows coqc's stack) *)
Definition hexcat (l : list string) : bytes := flat_map unhex l.

Definition agrees (r : ares (list N)) (kind : N) (h : list string) : bool :=
  match r with
  | AOk b => (kind =? 0) && beqb b (hexcat h)
  | ADone => kind =? 1
  | AErr _ => kind =? 2
  | AOutOfFuel => false
  end.

Definition aux_ok (codec bs : N) (plain : list N) (aux : N) : bool :=
  match codec with
  | 4 => match xz_slices bs plain with
         | Some sl => N.of_nat (length sl) =? aux
         | None => false
         end
  | _ => true
  end.

Fixpoint index_from {A} (i : N) (l : list A) : list (N * A) :=
  match l with [] => [] | x :: r => (i, x) :: index_from (i + 1) r end.

Definition case_t := (N * N * list string * list N * N * list (N * N * list string))%type.

(* disagreements: (case index, 100 * block index + 10 * impl kind + model kind); aux: (case, 7) *)
Definition model_bad (cs : list case_t) : list (N * N) :=
  flat_map (fun ic =>
    let '(ci, (codec, bs, ph, sched, aux, results)) := ic in
    let plain := hexcat ph in
    (if aux_ok codec bs plain aux then [] else [(ci, 7)]) ++
    flat_map (fun r => let '(i, kind, h) := r in
                       let m := model_block codec bs plain sched i in
                       if agrees m kind h then [] else [(ci, 100 * i + 10 * kind + kind_of m)])
             results)
    (index_from 0 cs).

(* the spec side (block level): result for block i must be block i of chunk bs plain *)
Definition spec_bad (cs : list case_t) : list (N * N) :=
  flat_map (fun ic =>
    let '(ci, (codec, bs, ph, sched, aux, results)) := ic in
    let plain := hexcat ph in
    let ch := chunk bs plain in
    flat_map (fun r => let '(i, kind, h) := r in
                       let ok := match nth_error ch (N.to_nat i) with
                                 | Some b => (kind =? 0) && beqb b (hexcat h)
                                 | None => kind =? 1
                                 end in
                       if ok then [] else [(ci, 100 * i + 10 * kind)])
             results)
    (index_from 0 cs).

(* requests served by ONE reader in the given order, look-behind drop on (codec 1 gz, 2 bz2, 3 lz4) *)
Definition model_seq (codec bs : N) (plain : list N) (sched : list N) (reqs : list N) : list (ares (list N)) :=
  let n := lenN plain in
  match codec with
  | 1 => read_blocks_m sched_state (fill_block sched_state sched_read (Some GZ_BUF_SZ)) true bs n
           (mk_rstate 0 (plain, sched) []) reqs
  | 2 => read_blocks_m sched_state (fill_block sched_state sched_read None) true bs n
           (mk_rstate 0 (plain, sched) []) reqs
  | 3 => read_blocks_m iblk_state (fill_once iblk_state iblk_read) true bs n
           (mk_rstate 0 (split_sizes plain sched) []) reqs
  | _ => []
  end.

Fixpoint seq_agrees (ms : list (ares (list N))) (rs : list (N * N * list string)) : bool :=
  match ms, rs with
  | [], [] => true
  | m :: ms', (_, kind, h) :: rs' => agrees m kind h && seq_agrees ms' rs'
  | _, _ => false
  end.

Definition seq_bad (cs : list case_t) : list (N * N) :=
  flat_map (fun ic =>
    let '(ci, (codec, bs, ph, sched, aux, results)) := ic in
    let plain := hexcat ph in
    if seq_agrees (model_seq codec bs plain sched (map (fun r => fst (fst r)) results)) results
    then [] else [(ci, 1)])
    (index_from 0 cs).
