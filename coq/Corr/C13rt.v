(* Corr/C13rt.v — functions evaluated by the strftime print / parse tie of C13
   (harness/src/bin/c13.rs: chrono format and s4lib datetime_parse_from_str in process). *)
From Coq Require Import String.
From S4.Base Require Import Bytes.
From S4.Model Require Import PrintCal Strftime CliDt StrftimeParse StrftimeRt.
Open Scope Z_scope.

Fixpoint index_from {A} (i : N) (l : list A) : list (N * A) :=
  match l with [] => [] | x :: r => (i, x) :: index_from (i + 1) r end.

(* B1, print: case = (format hex, instant ns, offset s, implementation text hex).
   code 1 = text differs, 2 = the model does not know a specifier of the format *)
Definition strf_bad (cs : list (string * Z * Z * string)) : list (N * N) :=
  flat_map (fun ic => let '(i, (f, t, off, impl)) := ic in
                      match strftime (unhex f) t off with
                      | Some s => if beqb s (unhex impl) then [] else [(i, 1%N)]
                      | None => [(i, 2%N)]
                      end) (index_from 0 cs).

(* B2, parse: case = (pattern hex, text hex, has_tz, zone s, implementation code 0 none | 1 value, value).
   Result: disagreeing cases with the model's (code, value); PUnmodelled (code 2) is not compared. *)
Definition pres_code (p : pres) : Z * Z :=
  match p with POk v => (1, v) | PErr => (0, 0) | PUnmodelled => (2, 0) end.

Definition parse_bad (cs : list (string * string * bool * Z * Z * Z)) : list (N * (Z * Z)) :=
  flat_map (fun ic => let '(i, (pat, txt, ht, tz, icode, ival)) := ic in
                      let '(mc, mv) := pres_code (chrono_parse (unhex pat) ht tz (classify (unhex txt))) in
                      if mc =? 2 then []
                      else if (mc =? icode) && (mv =? ival) then [] else [(i, (mc, mv))]) (index_from 0 cs).

Definition parse_unmodelled (cs : list (string * string * bool * Z * Z * Z)) : list (N * (Z * Z)) :=
  flat_map (fun ic => let '(i, (pat, txt, ht, tz, icode, ival)) := ic in
                      match chrono_parse (unhex pat) ht tz (classify (unhex txt)) with
                      | PUnmodelled => [(i, (2, 0))]
                      | _ => []
                      end) (index_from 0 cs).

(* generator validity for run C: (format hex, precision) ->
   (1 if the format is complete and unambiguous (rt_ok) else 0,
    has %z/%:z, has %s, ns per printed unit) ; code 9 when the format does not parse *)
Definition rt_info (cs : list (string * N)) : list (N * (Z * Z * Z * Z)) :=
  map (fun ic => let '(i, (f, p)) := ic in
                 match parse_fmt (unhex f) with
                 | Some its =>
                   let e := expand its in
                   (i, (if rt_ok e (N.to_nat p) then 1 else 0, if has_z e then 1 else 0,
                        if has NTimestamp e then 1 else 0, result_unit (N.to_nat p) e))
                 | None => (i, (9, 0, 0, 0))
                 end) (index_from 0 cs).
