(* Corr/C16.v — functions evaluated by the correspondence run (generated cases.v files). *)
From Coq Require Import String.
From S4.Base Require Import Bytes.
From S4.Model Require Import Classify.
From S4.Gen Require Import ClassifyTables.
From S4.Spec Require Import ClassifyRef ClassifySpec.
Open Scope N_scope.

Definition model_code (uat : bool) (name : bytes) : N :=
  result_code (classify_top sfx_table name_table junk junk_lead uat name).

Fixpoint index_from {A} (i : N) (l : list A) : list (N * A) :=
  match l with [] => [] | x :: r => (i, x) :: index_from (i + 1) r end.

(* B: implementation vs model.  case = (hex name, unparseable_are_text, impl code) *)
Definition model_bad (cs : list (string * bool * N)) : list (N * N) :=
  flat_map (fun ic => let '(i, (h, u, impl)) := ic in
                      let m := model_code u (unhex h) in
                      if m =? impl then [] else [(i, m)]) (index_from 0 cs).

(* C: implementation vs spec (frozen reference tables) on structured names.
   case = (pre, c0, comps, post, uat, impl code); ill-formed cases are reported with code 0 *)
(* domain 1: components are any valid UTF-8 (wf_sname_u; leading junk may contain dots).
   domain 2 ("raw"): the first component is an arbitrary dot-free non-empty byte string (possibly not
   UTF-8), no junk at either end, and the scan from the right is decided before the first component
   is reached (the result is the same for two different first components). *)
Definition no_dot_nonempty (c : bytes) : bool := negb (is_empty c) && negb (memb dot c).
Definition spec_code (pre c0 : string) (comps : list string) (post : string) (uat : bool) : N :=
  let cs := map unhex comps in
  if wf_sname_u ref_junk ref_junk_lead (unhex pre) (unhex c0) cs (unhex post)
  then result_code (spec_classify ref_sfx_table ref_name_table uat (unhex c0) cs)
  else if is_empty (unhex pre) && is_empty (unhex post) && no_dot_nonempty (unhex c0)
          && forallb (clean_comp_u ref_junk ref_junk_lead) cs
          && (result_code (spec_classify ref_sfx_table ref_name_table uat [120] cs)
              =? result_code (spec_classify ref_sfx_table ref_name_table uat [117; 116; 109; 112] cs))
  then result_code (spec_classify ref_sfx_table ref_name_table uat [120] cs)
  else 0.
Definition spec_bad (cs : list (string * string * list string * string * bool * N)) : list (N * N) :=
  flat_map (fun ic => let '(i, (pre, c0, comps, post, u, impl)) := ic in
                      let s := spec_code pre c0 comps post u in
                      if s =? impl then [] else [(i, s)]) (index_from 0 cs).
