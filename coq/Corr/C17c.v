(* Corr/C17c.v — evaluated by the slow-consumer stage of C17 (C-slow): the geometric class predicate
   `far` of Proofs/RetainFar.v (the negation of the recorded class of finding F9a at a given lag) and
   the model's failed releases on the same layouts.
   case = Corr.C17.case with the last component d = the drop distance the harness computed.
   row = (index, farb Hrec; farb d; farb (d + 1); derr at lag Hrec; derr at lag d; derr at lag d + 1;
   reached_heldb d; reached_heldb (d + 1); no_edgeb)
   with Hrec given per case in place of the streamed flag's neighbour: see row_far. *)
From Coq Require Import List NArith Bool.
Import ListNotations.
From S4.Model Require Import Retain.
From S4.Proofs Require Import RetainFar RetainFarConv RetainNoEdge.
From S4.Corr Require Import C17.
Open Scope N_scope.

Definition b2n (b : bool) : N := if b then 1 else 0.

(* fcase = (prefix, base, repetitions, bs, streamed, Hrec, d) *)
Definition fcase := (list (N * bool) * list (N * bool) * nat * N * bool * N * N)%type.

Definition row_far (ic : N * fcase) :=
  let '(i, c) := ic in
  let '(pre, base, rep, bs, str, Hrec, d) := c in
  let lay := pre ++ repeat_list base rep in
  let ms := layout_msgs bs lay in
  let cf := {| pol := P_cur; streamed := str |} in
  (i, b2n (farb Hrec ms), b2n (farb d ms), b2n (farb (d + 1) ms),
   derr (run_layout cf bs lay Hrec), derr (run_layout cf bs lay d), derr (run_layout cf bs lay (d + 1)),
   b2n (reached_heldb d ms), b2n (reached_heldb (d + 1) ms), b2n (no_edgeb ms)).

Definition rows_far (cs : list fcase) := map row_far (index_from 0 cs).
