(* Spec/CliDtSpec.v — the documented grammar of --dt-after/--dt-before values (the
   `--help` afterword of s4) as a datatype, its rendering to text, and the instant each
   form is documented to denote.  Property-level: no model, no regenerated table.
   Zone names are read through the frozen reference table Spec/CliDtRef.v.

   Documented forms:
     "%Y%m%dT%H%M%S*" "%Y-%m-%d %H:%M:%S*" "%Y-%m-%dT%H:%M:%S*" "%Y/%m/%d %H:%M:%S*"
     "%Y%m%d" "%Y-%m-%d" "%Y/%m/%d" "+%s"
     * = optional 3- or 6-digit fraction, and/or zone: numeric "+09:00" "+0900" "+09" or a name
     "+DwDdDhDmDs" "-..." (from program start)   "@+..." "@-..." (from the other bound)
   Documented meaning: a bare date is 00:00:00; a value without zone is read in the
   --tz-offset zone; "+%s" is seconds since the Unix epoch, GMT; a relative value is
   now (whole seconds) or the other bound, plus/minus the sum of the units. *)
From Coq Require Import String Ascii.
From S4.Base Require Import Bytes.
From S4.Spec Require Import CalendarSpec CliDtRef.
Open Scope Z_scope.
Open Scope list_scope.

Inductive dlayout := DCompact | DDash | DSlash.
Inductive layout := LCompact | LDashSpace | LDashT | LSlash.
Inductive fraction := FNone | FMilli (v : Z) | FMicro (v : Z).
Inductive zstyle := ZPlain | ZColon | ZHour.       (* +HHMM  +HH:MM  +HH *)
Inductive zone :=
| ZoneNone
| ZoneNum (space : bool) (st : zstyle) (neg : bool) (hh mm : Z)
| ZoneName (space : bool) (name : string).
Inductive unit_ := US | UM | UH | UD | UW.

Inductive form :=
| FDate (l : dlayout) (y m d : Z)
| FDateTime (l : layout) (y m d h mi s : Z) (f : fraction) (z : zone)
| FEpoch (ds : list N)                                    (* decimal digits of the count *)
| FRel (at_ neg : bool) (items : list (list N * unit_)).  (* (decimal digits, unit) *)

(* ---------------------------------------------------------------- rendering *)
Definition dg (v : Z) : N := (48 + Z.to_N (v mod 10))%N.
Definition pad2 (v : Z) : bytes := [dg (v / 10); dg v].
Definition pad3 (v : Z) : bytes := [dg (v / 100); dg (v / 10); dg v].
Definition pad4 (v : Z) : bytes := [dg (v / 1000); dg (v / 100); dg (v / 10); dg v].
Definition pad6 (v : Z) : bytes :=
  [dg (v / 100000); dg (v / 10000); dg (v / 1000); dg (v / 100); dg (v / 10); dg v].
Definition digs (ds : list N) : bytes := map (fun d => (48 + d)%N) ds.

Definition render_date (l : dlayout) (y m d : Z) : bytes :=
  match l with
  | DCompact => pad4 y ++ pad2 m ++ pad2 d
  | DDash => pad4 y ++ [45%N] ++ pad2 m ++ [45%N] ++ pad2 d
  | DSlash => pad4 y ++ [47%N] ++ pad2 m ++ [47%N] ++ pad2 d
  end.

Definition render_time_colon (h mi s : Z) : bytes := pad2 h ++ [58%N] ++ pad2 mi ++ [58%N] ++ pad2 s.

Definition render_datetime (l : layout) (y m d h mi s : Z) : bytes :=
  match l with
  | LCompact => render_date DCompact y m d ++ [84%N] ++ pad2 h ++ pad2 mi ++ pad2 s
  | LDashSpace => render_date DDash y m d ++ [32%N] ++ render_time_colon h mi s
  | LDashT => render_date DDash y m d ++ [84%N] ++ render_time_colon h mi s
  | LSlash => render_date DSlash y m d ++ [32%N] ++ render_time_colon h mi s
  end.

Definition render_frac (f : fraction) : bytes :=
  match f with
  | FNone => []
  | FMilli v => 46%N :: pad3 v
  | FMicro v => 46%N :: pad6 v
  end.

Definition render_zone (z : zone) : bytes :=
  match z with
  | ZoneNone => []
  | ZoneNum sp st neg hh mm =>
    (if sp then [32%N] else []) ++ [if neg then 45%N else 43%N] ++ pad2 hh ++
    match st with
    | ZPlain => pad2 mm
    | ZColon => 58%N :: pad2 mm
    | ZHour => []
    end
  | ZoneName sp name => (if sp then [32%N] else []) ++ s2b name
  end.

Definition unit_letter (u : unit_) : N :=
  match u with US => 115%N | UM => 109%N | UH => 104%N | UD => 100%N | UW => 119%N end.

Fixpoint render_items (items : list (list N * unit_)) : bytes :=
  match items with
  | [] => []
  | (ds, u) :: r => digs ds ++ [unit_letter u] ++ render_items r
  end.

Definition render (f : form) : bytes :=
  match f with
  | FDate l y m d => render_date l y m d
  | FDateTime l y m d h mi s fr z => render_datetime l y m d h mi s ++ render_frac fr ++ render_zone z
  | FEpoch ds => 43%N :: digs ds
  | FRel at_ neg items =>
    (if at_ then [64%N] else []) ++ [if neg then 45%N else 43%N] ++ render_items items
  end.

(* ---------------------------------------------------------------- well-formed (documented) forms *)
Definition digits_ok (ds : list N) : bool :=
  match ds with [] => false | _ => forallb (fun d => (d <? 10)%N) ds end.

Definition unit_eqb (a b : unit_) : bool :=
  match a, b with
  | US, US | UM, UM | UH, UH | UD, UD | UW, UW => true
  | _, _ => false
  end.

Fixpoint units_distinct (items : list (list N * unit_)) : bool :=
  match items with
  | [] => true
  | (_, u) :: r => negb (existsb (fun x => unit_eqb u (snd x)) r) && units_distinct r
  end.

Definition dval (ds : list N) : Z := fold_left (fun a d => 10 * a + Z.of_N d) ds 0.

Definition date_okb (y m d : Z) : bool :=
  (0 <=? y) && (y <=? 9999) && (1 <=? m) && (m <=? 12) && (1 <=? d) && (d <=? month_len y m).
Definition time_okb (h mi s : Z) : bool :=
  (0 <=? h) && (h <=? 23) && (0 <=? mi) && (mi <=? 59) && (0 <=? s) && (s <=? 59).

Definition frac_okb (f : fraction) : bool :=
  match f with
  | FNone => true
  | FMilli v => (0 <=? v) && (v <=? 999)
  | FMicro v => (0 <=? v) && (v <=? 999999)
  end.

Fixpoint lookup (k : string) (t : list (string * string)) : option string :=
  match t with
  | [] => None
  | (k', v) :: r => if String.eqb k k' then Some v else lookup k r
  end.

(* value of a reference-table entry "+HH:MM" / "-HH:MM"; "" (ambiguous) has none *)
Definition dv (a : ascii) : option Z :=
  let n := Z.of_N (N_of_ascii a) in
  if (48 <=? n) && (n <=? 57) then Some (n - 48) else None.
Definition tzval_secs (v : string) : option Z :=
  match v with
  | String sg (String a (String b (String c (String d (String e EmptyString))))) =>
    match dv a, dv b, dv d, dv e with
    | Some a, Some b, Some d, Some e =>
      let v := (10 * a + b) * 3600 + (10 * d + e) * 60 in
      if Ascii.eqb c ":"%char then
        if Ascii.eqb sg "+"%char then Some v else if Ascii.eqb sg "-"%char then Some (- v) else None
      else None
    | _, _, _, _ => None
    end
  | _ => None
  end.

Definition name_secs (name : string) : option Z :=
  match lookup name ref_tz_table with
  | Some v => tzval_secs v
  | None => None
  end.

(* where a space may precede the zone, per documented layout *)
Definition zone_space_ok (l : layout) (sp : bool) : bool :=
  match l with
  | LCompact => negb sp
  | LDashSpace => sp
  | LDashT => true
  | LSlash => sp
  end.

Definition zone_okb (l : layout) (z : zone) : bool :=
  match z with
  | ZoneNone => true
  | ZoneNum sp st _ hh mm =>
    zone_space_ok l sp && (0 <=? hh) && (hh <=? 23) && (0 <=? mm) && (mm <=? 59)
    && match st with ZHour => mm =? 0 | _ => true end
  | ZoneName sp name =>
    zone_space_ok l sp && match name_secs name with Some _ => true | None => false end
  end.

Definition DUR_BOUND : Z := 100000000000.   (* |sum of units| the spec speaks about (about 3170 years) *)

Definition unit_secs (u : unit_) : Z :=
  match u with US => 1 | UM => 60 | UH => 3600 | UD => 86400 | UW => 604800 end.

Fixpoint rel_sum (items : list (list N * unit_)) : Z :=
  match items with
  | [] => 0
  | (ds, u) :: r => dval ds * unit_secs u + rel_sum r
  end.

Definition form_ok (f : form) : bool :=
  match f with
  | FDate _ y m d => date_okb y m d
  | FDateTime l y m d h mi s fr z => date_okb y m d && time_okb h mi s && frac_okb fr && zone_okb l z
  | FEpoch ds => digits_ok ds && (dval ds <=? 253402300799)
  | FRel _ _ items =>
    match items with [] => false | _ => true end
    && forallb (fun it => digits_ok (fst it)) items && units_distinct items
    && (rel_sum items <=? DUR_BOUND)
  end.

(* ---------------------------------------------------------------- meaning *)
Definition NSs : Z := 1000000000.

Definition frac_ns (f : fraction) : Z :=
  match f with FNone => 0 | FMilli v => v * 1000000 | FMicro v => v * 1000 end.

Definition zone_secs (z : zone) (tz : Z) : option Z :=
  match z with
  | ZoneNone => Some tz
  | ZoneNum _ _ neg hh mm => Some (if neg then - (hh * 3600 + mm * 60) else hh * 3600 + mm * 60)
  | ZoneName _ name => name_secs name
  end.

(* The definitions below are stated for an arbitrary day-count function so that the
   correspondence run may evaluate them with a proved-equal closed form
   (Proofs/CalendarProofs.v: spec_days_fast_eq); the specification is the instance
   [days := spec_days], the definitional count. *)
Section WithDays.
Variable days : Z -> Z -> Z -> Z.

Definition instant_with (y m d h mi s frac off : Z) : Z :=
  (days y m d * 86400 + h * 3600 + mi * 60 + s - off) * 1000000000 + frac.

(* [tz]: the --tz-offset zone (seconds east); [now_s]: program start, whole seconds;
   [other]: the other bound when it is already known *)
Definition denote_with (f : form) (tz now_s : Z) (other : option Z) : option Z :=
  match f with
  | FDate _ y m d => Some (instant_with y m d 0 0 0 0 tz)
  | FDateTime _ y m d h mi s fr z =>
    match zone_secs z tz with
    | Some off => Some (instant_with y m d h mi s (frac_ns fr) off)
    | None => None
    end
  | FEpoch ds => Some (dval ds * NSs)
  | FRel false neg items => Some ((if neg then now_s - rel_sum items else now_s + rel_sum items) * NSs)
  | FRel true neg items =>
    match other with
    | Some o => Some (if neg then o - rel_sum items * NSs else o + rel_sum items * NSs)
    | None => None
    end
  end.

Definition is_at (f : option form) : bool :=
  match f with Some (FRel true _ _) => true | _ => false end.

Definition denote_opt_with (f : option form) (tz now_s : Z) (other : option Z) : option (option Z) :=
  match f with
  | None => Some None
  | Some f => match denote_with f tz now_s other with Some v => Some (Some v) | None => None end
  end.

(* the documented outcome of `-a A -b B`: None = rejected (non-zero exit, nothing printed) *)
Definition spec_bounds_with (fa fb : option form) (tz now_s : Z) : option (option Z * option Z) :=
  if is_at fa && is_at fb then None
  else
    let ab :=
      if is_at fa then
        match denote_opt_with fb tz now_s None with
        | None => None
        | Some b => match denote_opt_with fa tz now_s b with None => None | Some a => Some (a, b) end
        end
      else
        match denote_opt_with fa tz now_s None with
        | None => None
        | Some a => match denote_opt_with fb tz now_s a with None => None | Some b => Some (a, b) end
        end in
    match ab with
    | Some (Some a, Some b) => if b <? a then None else ab
    | _ => ab
    end.
End WithDays.

Definition denote := denote_with spec_days.
Definition denote_opt := denote_opt_with spec_days.
Definition spec_bounds := spec_bounds_with spec_days.
