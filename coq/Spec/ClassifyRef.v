(* Spec/ClassifyRef.v — FROZEN reference copy of the classifier word tables.
   This is the ground truth for "which word selects which reader" (property C16):
   it is NOT regenerated. Proofs/ClassifyTablesOk.v proves that the regenerated
   tables agree with it on every word listed here. *)
From S4.Base Require Import Bytes.
From S4.Model Require Import Classify.
From Coq Require Import String.
Open Scope string_scope.
Definition ref_sfx_table : list (bytes * sfx_action) := [
  (s2b "bz2", SCompress Bz2);
  (s2b "evtx", SEvtx);
  (s2b "journal", SJournal);
  (s2b "gz", SCompress Gz);
  (s2b "gzip", SCompress Gz);
  (s2b "lz4", SCompress Lz4);
  (s2b "tar", STar);
  (s2b "xz", SCompress Xz);
  (s2b "xzip", SCompress Xz);
  (s2b "log", SText);
  (s2b "txt", SText);
  (s2b "text", SText);
  (s2b "btmp", (SFixed Utmp));
  (s2b "utmp", (SFixed Utmp));
  (s2b "wtmp", (SFixed Utmp));
  (s2b "btmpx", (SFixed Utmpx));
  (s2b "utmpx", (SFixed Utmpx));
  (s2b "wtmpx", (SFixed Utmpx));
  (s2b "lastlog", (SFixed Lastlog));
  (s2b "lastlogx", (SFixed Lastlogx));
  (s2b "acct", (SFixed Acct));
  (s2b "pacct", (SFixed AcctV3));
  (s2b "7z", SUnparsable);
  (s2b "a", SUnparsable);
  (s2b "aac", SUnparsable);
  (s2b "aux", SUnparsable);
  (s2b "avi", SUnparsable);
  (s2b "bat", SUnparsable);
  (s2b "bin", SUnparsable);
  (s2b "bmp", SUnparsable);
  (s2b "bz", SUnparsable);
  (s2b "c", SUnparsable);
  (s2b "cat", SUnparsable);
  (s2b "class", SUnparsable);
  (s2b "cpp", SUnparsable);
  (s2b "cmd", SUnparsable);
  (s2b "diagpkg", SUnparsable);
  (s2b "dll", SUnparsable);
  (s2b "ear", SUnparsable);
  (s2b "exe", SUnparsable);
  (s2b "flac", SUnparsable);
  (s2b "flv", SUnparsable);
  (s2b "gif", SUnparsable);
  (s2b "h", SUnparsable);
  (s2b "hpp", SUnparsable);
  (s2b "htm", SUnparsable);
  (s2b "html", SUnparsable);
  (s2b "ico", SUnparsable);
  (s2b "jar", SUnparsable);
  (s2b "java", SUnparsable);
  (s2b "jpeg", SUnparsable);
  (s2b "jpg", SUnparsable);
  (s2b "lib", SUnparsable);
  (s2b "m4b", SUnparsable);
  (s2b "m4p", SUnparsable);
  (s2b "m4r", SUnparsable);
  (s2b "m4v", SUnparsable);
  (s2b "mkv", SUnparsable);
  (s2b "mov", SUnparsable);
  (s2b "mp3", SUnparsable);
  (s2b "mp4", SUnparsable);
  (s2b "msi", SUnparsable);
  (s2b "mui", SUnparsable);
  (s2b "o", SUnparsable);
  (s2b "ogg", SUnparsable);
  (s2b "opus", SUnparsable);
  (s2b "pl", SUnparsable);
  (s2b "png", SUnparsable);
  (s2b "ps1", SUnparsable);
  (s2b "psd1", SUnparsable);
  (s2b "py", SUnparsable);
  (s2b "rb", SUnparsable);
  (s2b "sh", SUnparsable);
  (s2b "so", SUnparsable);
  (s2b "svg", SUnparsable);
  (s2b "sys", SUnparsable);
  (s2b "tif", SUnparsable);
  (s2b "tiff", SUnparsable);
  (s2b "ttf", SUnparsable);
  (s2b "tgz", SUnparsable);
  (s2b "war", SUnparsable);
  (s2b "wav", SUnparsable);
  (s2b "webm", SUnparsable);
  (s2b "webp", SUnparsable);
  (s2b "wma", SUnparsable);
  (s2b "wmv", SUnparsable);
  (s2b "zip", SUnparsable)
].
Definition ref_name_table : list (bytes * name_action) := [
  (s2b "dmesg", NText);
  (s2b "history", NText);
  (s2b "kernellog", NText);
  (s2b "kernelog", NText);
  (s2b "kernlog", NText);
  (s2b "log", NText);
  (s2b "messages", NText);
  (s2b "syslog", NText);
  (s2b "journal", NJournal);
  (s2b "acct", (NFixed Acct));
  (s2b "pacct", (NFixed AcctV3));
  (s2b "lastlog", (NFixed Lastlog));
  (s2b "lastlogx", (NFixed Lastlogx));
  (s2b "btmp", (NFixed Utmp));
  (s2b "utmp", (NFixed Utmp));
  (s2b "wtmp", (NFixed Utmp));
  (s2b "btmpx", (NFixed Utmpx));
  (s2b "utmpx", (NFixed Utmpx));
  (s2b "wtmpx", (NFixed Utmpx))
].
Definition ref_junk : list N := [126; 45; 44; 63; 59]%N.
Definition ref_junk_lead : list N := [126; 45; 44; 63; 59; 46]%N.
