(* Spec/WindowSpec.v — property C03: what a datetime window selects.

   A message is anything with an instant [t m : Z] (nanoseconds since the epoch).
   A bound is [option Z]; [None] is "no bound".  BOTH bounds are inclusive.
   The selected messages are a sublist of the source: they keep their order.

   Nothing here depends on a model or on a generated table. *)
From Coq Require Import List ZArith NArith Bool.
Import ListNotations.
Open Scope Z_scope.

(* A <= x, with A = None unbounded *)
Definition geq_lo (a : option Z) (x : Z) : bool :=
  match a with None => true | Some a => a <=? x end.
(* x <= B, with B = None unbounded *)
Definition leq_hi (b : option Z) (x : Z) : bool :=
  match b with None => true | Some b => x <=? b end.

Definition in_window (a b : option Z) (x : Z) : bool := geq_lo a x && leq_hi b x.

Section Window.
  Context {M : Type}.
  Variable t : M -> Z.

  (* the property-level spec: exactly the messages with A <= t <= B, in source order *)
  Definition window (a b : option Z) (l : list M) : list M :=
    filter (fun m => in_window a b (t m)) l.

  (* a chronological source: instants never decrease (ties allowed) *)
  Fixpoint nondecreasing (l : list M) : bool :=
    match l with
    | [] => true
    | x :: r => match r with
                | [] => true
                | y :: _ => (t x <=? t y) && nondecreasing r
                end
    end.

  (* what a search for the lower bound must return when started at file offset [fo0]:
     the first message that is not entirely before [fo0] (its one-past-end offset [nxt m]
     lies after [fo0]) and whose instant is >= A; [None] when there is no such message. *)
  Definition first_at_or_after (nxt : M -> N) (a : option Z) (fo0 : N) (l : list M) : option M :=
    find (fun m => (fo0 <? nxt m)%N && geq_lo a (t m)) l.
End Window.

(* "keep their order": the selection is a subsequence of the source *)
Inductive sublist {A : Type} : list A -> list A -> Prop :=
| sub_nil : sublist [] []
| sub_skip x l1 l2 : sublist l1 l2 -> sublist l1 (x :: l2)
| sub_keep x l1 l2 : sublist l1 l2 -> sublist (x :: l1) (x :: l2).
