(* Spec/LinesSpec.v — what the lines and messages ("syslines") of a text log ARE.
   Property-level spec of C02 / C12; mentions no block size and imports no Gen/ file.

   file = list N (bytes are opaque: NUL, CR, invalid UTF-8 are ordinary bytes).
   A line ends with its newline byte 10 (the last line may lack it).
   `dated` is an ORACLE (Section variable): the instant (ns since the epoch) of a line if
   one supported timestamp pattern matches it; every theorem holds for every `dated`. *)
From S4.Base Require Import Bytes Chunk.
Open Scope N_scope.

(* ---------------------------------------------------------------- lines by offset *)

(* last byte of the line that contains offset fo: first NL at or after fo, else last byte *)
Definition line_end (f : file) (fo : N) : N :=
  match find_nl (skipnN fo f) with
  | Some d => fo + d
  | None => lenN f - 1
  end.

(* first byte of the line that contains fo: one past the last NL before fo, else 0 *)
Definition line_beg (f : file) (fo : N) : N :=
  match rfind_nl (firstnN fo f) with
  | Some i => i + 1
  | None => 0
  end.

Definition line_span (f : file) (fo : N) : N * N := (line_beg f fo, line_end f fo).

(* what a correct `find_line` returns: (offset after the line, begin, end, bytes) *)
Definition spec_find_line (f : file) (fo : N) : option (N * N * N * list N) :=
  if fo <? lenN f
  then Some (line_end f fo + 1, line_beg f fo, line_end f fo, slice f (line_beg f fo) (line_end f fo + 1))
  else None.

(* ---------------------------------------------------------------- lines as a list *)

(* split after every NL; a trailing fragment without NL is the last line *)
Fixpoint lines (l : list N) : list (list N) :=
  match l with
  | [] => []
  | x :: r =>
      if x =? NL then [x] :: lines r
      else match lines r with
           | [] => [[x]]
           | h :: t => (x :: h) :: t
           end
  end.

(* ---------------------------------------------------------------- messages *)

Definition group := (Z * list (list N))%type.     (* instant, lines (head line first) *)
Definition group_bytes (g : group) : list N := concat (snd g).

Section Dated.
  Variable dated : list N -> option Z.

  (* (leading undated lines, groups): each dated line opens a group that extends to the
     line before the next dated line *)
  Fixpoint groups (ls : list (list N)) : list (list N) * list group :=
    match ls with
    | [] => ([], [])
    | l :: r =>
        let '(u, gs) := groups r in
        match dated l with
        | Some t => ([], (t, l :: u) :: gs)
        | None => (l :: u, gs)
        end
    end.

  Definition leading (f : file) : list (list N) := fst (groups (lines f)).
  Definition syslines (f : file) : list group := snd (groups (lines f)).

  (* offset of the first dated line (= |f| when there is none) *)
  Definition first_dated_offset (f : file) : N := lenN (concat (leading f)).

  (* groups with the file offset at which each begins *)
  Fixpoint with_offsets (fo : N) (gs : list group) : list (N * group) :=
    match gs with
    | [] => []
    | g :: r => (fo, g) :: with_offsets (fo + lenN (group_bytes g)) r
    end.
  Definition syslines_at (f : file) : list (N * group) :=
    with_offsets (first_dated_offset f) (syslines f).

  (* the group a correct `find_sysline fo` returns: the group containing fo, or the first
     group when fo precedes it; None (= Done) when there is no group or fo is past the end.
     Result: (offset after the group, begin offset, group) *)
  Fixpoint pick_group (fo : N) (gs : list (N * group)) : option (N * N * group) :=
    match gs with
    | [] => None
    | (b, g) :: r =>
        let e := b + lenN (group_bytes g) in
        if fo <? e then Some (e, b, g) else pick_group fo r
    end.
  Definition spec_find_sysline (f : file) (fo : N) : option (N * N * group) :=
    pick_group fo (syslines_at f).

  (* ------------------------------------------------------------ the printed stream *)

  Definition stream_bytes (f : file) : list N := concat (map group_bytes (syslines f)).

  Definition ends_with_nl (l : list N) : bool :=
    match rev l with x :: _ => x =? NL | [] => false end.

  (* stdout for one file with no decoration: the groups in order, plus one NL iff something
     was printed and the file lacks a final newline *)
  Definition printed (f : file) : list N :=
    let s := stream_bytes f in
    match s with
    | [] => []
    | _ => if ends_with_nl s then s else s ++ [NL]
    end.
End Dated.
