(* Spec/JournalSpec.v — property-level specification of C09 (no model, no tables).

   The datetime window is applied to the entry's journal receive time
   (__REALTIME_TIMESTAMP); both bounds are inclusive; [None] is unbounded.
   Every in-window entry is printed exactly once and the journal's order is
   kept: the expected output is the sub-list [window A B]. *)
From Coq Require Import List ZArith Bool.
Import ListNotations.
Open Scope Z_scope.

Definition in_window (A B : option Z) (t : Z) : bool :=
  (match A with None => true | Some a => a <=? t end) &&
  (match B with None => true | Some b => t <=? b end).

(* generic in the entry type: [time] projects the receive time *)
Definition window {E : Type} (time : E -> Z) (A B : option Z) (l : list E) : list E :=
  filter (fun e => in_window A B (time e)) l.

(* positions (0-based) of the selected entries: what the check compares *)
Fixpoint window_idx_from (i : N) (A B : option Z) (ts : list Z) : list N :=
  match ts with
  | [] => []
  | t :: r => if in_window A B t then i :: window_idx_from (i + 1)%N A B r
              else window_idx_from (i + 1)%N A B r
  end.
Definition window_idx := window_idx_from 0%N.

(* the bounds the reader's microsecond clock can represent (u64 microseconds): only the
   upper side matters, a bound before 1970 is below every entry *)
Definition bound_rep (b : option Z) : Prop :=
  match b with None => True | Some x => x < 18446744073709551616 end.
(* non-negative representable bounds (used by the regression lemmas) *)
Definition bound_ok (b : option Z) : Prop :=
  match b with None => True | Some x => 0 <= x < 18446744073709551616 end.
