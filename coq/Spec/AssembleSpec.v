(* Spec/AssembleSpec.v — property-level spec of C05 (compression/archiving is transparent).

   A reader sees a file only through its blocks; the spec says the blocks of a stored form
   are the blocks of the plain bytes:  block i = [blk bs plain i],  all blocks = [chunk bs plain].
   (Base/Chunk.v did not exist when this was written; this file is self-contained.)

   Also here: the decoder oracle contract (R1, R2) used as hypothesis by every theorem, and two
   concrete decoders (used for the satisfiability Examples and by the correspondence run). *)
From S4.Base Require Export Bytes.
Open Scope N_scope.

Definition len (l : list N) : N := N.of_nat (length l).

(* block i of file f at block size bs *)
Definition blk (bs : N) (f : list N) (i : N) : list N :=
  firstn (N.to_nat bs) (skipn (N.to_nat (i * bs)) f).

(* the list of all blocks; fuel = |f| is enough for bs >= 1 (lemma nth_chunk / concat_chunk) *)
Fixpoint chunk_n (fuel bs : nat) (f : list N) : list (list N) :=
  match fuel with
  | O => []
  | S k => match f with
           | [] => []
           | _ => firstn bs f :: chunk_n k bs (skipn bs f)
           end
  end.
Definition chunk (bs : N) (f : list N) : list (list N) := chunk_n (length f) (N.to_nat bs) f.

(* ---- the decoder oracle --------------------------------------------------------------
   A decoder (flate2 GzDecoder, bzip2-rs DecoderReader, lz4_flex FrameDecoder, tar::Entry,
   any std::io::Read) is a state and a function  read : state -> requested -> state * bytes.
   [remaining d] is the part of the plain stream the decoder has not handed out yet. *)
Section Contract.
  Variable dstate : Type.
  Variable read : dstate -> N -> dstate * list N.
  Variable remaining : dstate -> list N.

  (* R1: a read returns a prefix of the remaining plain stream, no longer than requested,
         and the new state's remaining stream is the rest *)
  Definition R1 : Prop :=
    forall d k, snd (read d k) ++ remaining (fst (read d k)) = remaining d
                /\ len (snd (read d k)) <= k.
  (* R2: a read of a positive size returns nothing only at the end of the stream *)
  Definition R2 : Prop :=
    forall d k, 0 < k -> remaining d <> [] -> snd (read d k) <> [].
  Definition contract : Prop := R1 /\ R2.

  (* stronger, NOT part of the contract: the decoder always returns as much as it can
     (true of a decoder over one internal block; false at internal block boundaries) *)
  Definition full_reads : Prop :=
    forall d k, len (snd (read d k)) = N.min k (len (remaining d)).
End Contract.

(* ---- concrete decoders -----------------------------------------------------------------*)
(* (a) schedule decoder: state = (remaining bytes, list of sizes); the j-th call returns at
       most the j-th size (at least 1), at most what is requested, at most what is left;
       after the schedule is used up it returns everything requested *)
Definition sched_state := (list N * list N)%type.
Definition sched_read (d : sched_state) (k : N) : sched_state * list N :=
  let '(rem, sch) := d in
  let cap := match sch with [] => k | s :: _ => N.min k (N.max 1 s) end in
  let m := N.to_nat cap in
  ((skipn m rem, tl sch), firstn m rem).
Definition sched_remaining (d : sched_state) : list N := fst d.

(* (b) internal-block decoder: state = the remaining internal blocks of the container
       (lz4 frame blocks); a read returns at most the rest of the current internal block *)
Definition iblk_state := list (list N).
Fixpoint iblk_read (d : iblk_state) (k : N) : iblk_state * list N :=
  match d with
  | [] => ([], [])
  | [] :: r => iblk_read r k
  | b :: r =>
      let m := N.to_nat k in
      (match skipn m b with [] => r | rest => rest :: r end, firstn m b)
  end.
Definition iblk_remaining (d : iblk_state) : list N := concat d.
