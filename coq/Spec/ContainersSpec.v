(* Spec/ContainersSpec.v — FORMAT specifications used by the C05 container theorems (WP-J).

   This file says what a well-formed stored file IS, as an encoder from abstract fields to bytes:

     gzip   RFC 1952: one member = header (ID1 ID2 CM FLG MTIME XFL OS [XLEN extra] [name NUL]
            [comment NUL] [CRC16]) ++ DEFLATE data ++ CRC32 ++ ISIZE;  a file = one or more members.
            The DEFLATE data is NOT specified here: it is any byte string [deflated] (the compressor
            is an oracle); the theorems quantify over it.
     CRC-32 RFC 1952 section 8 (bit-at-a-time form of the table algorithm given there).
     tar    POSIX.1-1988 "ustar" interchange format: 512-byte header (name, mode, uid, gid, size and
            mtime in octal, checksum, typeflag, linkname, magic "ustar\000", prefix), the member's data,
            zero padding up to a multiple of 512, two zero blocks at the end.

   Parsers live in Model/Containers.v (transcriptions of the code that runs); the theorems
   parse (encode fields) = fields are in Proofs/Containers*.v.  No imports from Gen/ or Model/. *)
From S4.Base Require Export Bytes.
Open Scope N_scope.

Definition blen (l : bytes) : N := N.of_nat (length l).

(* ---- little-endian fixed-width integers ------------------------------------------------------ *)
Definition le16b (v : N) : bytes := [v mod 256; (v / 256) mod 256].
Definition le32b (v : N) : bytes :=
  [v mod 256; (v / 256) mod 256; (v / 65536) mod 256; (v / 16777216) mod 256].

(* ---- CRC-32 (RFC 1952 section 8): register form ---------------------------------------------
   c is the running register (already complemented on entry, complemented again on exit). *)
Definition CRC_POLY : N := 0xEDB88320.
Fixpoint crc_shift (k : nat) (c : N) : N :=
  match k with
  | O => c
  | S k' => crc_shift k' (if N.odd c then N.lxor (N.shiftr c 1) CRC_POLY else N.shiftr c 1)
  end.
Definition crc_byte (c b : N) : N := crc_shift 8 (N.lxor c b).
Definition crc_update (c : N) (l : bytes) : N := fold_left crc_byte l c.
Definition CRC_INIT : N := 0xFFFFFFFF.
Definition crc_finish (c : N) : N := N.lxor c 0xFFFFFFFF.
Definition crc32 (l : bytes) : N := crc_finish (crc_update CRC_INIT l).

(* ---- gzip ------------------------------------------------------------------------------------ *)
Definition FTEXT : N := 1.
Definition FHCRC : N := 2.
Definition FEXTRA : N := 4.
Definition FNAME : N := 8.
Definition FCOMMENT : N := 16.

(* the abstract content of a member header: every optional field of RFC 1952 *)
Record gz_fields := mk_gzf {
  gf_text : bool;              (* FLG.FTEXT *)
  gf_hcrc : bool;              (* FLG.FHCRC: CRC16 of the header follows it *)
  gf_extra : option bytes;     (* FLG.FEXTRA: XLEN + that many bytes (any bytes) *)
  gf_name : option bytes;      (* FLG.FNAME: zero-terminated, any bytes but NUL *)
  gf_comment : option bytes;   (* FLG.FCOMMENT: zero-terminated, any bytes but NUL *)
  gf_mtime : N;                (* MTIME, 0 = no time stamp available *)
  gf_xfl : N;
  gf_os : N }.

Definition opt_flag {A} (o : option A) (bit : N) : N := match o with Some _ => bit | None => 0 end.
Definition bool_flag (b : bool) (bit : N) : N := if b then bit else 0.
Definition gz_flg (h : gz_fields) : N :=
  bool_flag (gf_text h) FTEXT + bool_flag (gf_hcrc h) FHCRC + opt_flag (gf_extra h) FEXTRA
  + opt_flag (gf_name h) FNAME + opt_flag (gf_comment h) FCOMMENT.

Definition gz_fixed (h : gz_fields) : bytes :=
  [0x1f; 0x8b; 8; gz_flg h] ++ le32b (gf_mtime h) ++ [gf_xfl h; gf_os h].
Definition gz_extra_bytes (h : gz_fields) : bytes :=
  match gf_extra h with Some e => le16b (blen e) ++ e | None => [] end.
Definition zstr (o : option bytes) : bytes := match o with Some s => s ++ [0] | None => [] end.
(* everything the header CRC covers *)
Definition gz_header_body (h : gz_fields) : bytes :=
  gz_fixed h ++ gz_extra_bytes h ++ zstr (gf_name h) ++ zstr (gf_comment h).
Definition gz_header_bytes (h : gz_fields) : bytes :=
  gz_header_body h
  ++ (if gf_hcrc h then le16b (crc32 (gz_header_body h) mod 65536) else []).

Definition TWO32 : N := 4294967296.
Definition gz_trailer (plain : bytes) : bytes := le32b (crc32 plain) ++ le32b (blen plain mod TWO32).
(* one member holding [plain]; [deflated] = whatever the compressor wrote for it *)
Definition gz_member (h : gz_fields) (deflated plain : bytes) : bytes :=
  gz_header_bytes h ++ deflated ++ gz_trailer plain.

Definition all_bytes (l : bytes) : Prop := Forall (fun b => b < 256) l.
Definition no_nul (l : bytes) : Prop := ~ In 0 l.
Definition opt_ok (P : bytes -> Prop) (o : option bytes) : Prop :=
  match o with Some s => P s | None => True end.
(* RFC 1952 well-formedness of the abstract fields *)
Definition gz_fields_ok (h : gz_fields) : Prop :=
  gf_mtime h < TWO32 /\ gf_xfl h < 256 /\ gf_os h < 256
  /\ opt_ok (fun e => blen e < 65536 /\ all_bytes e) (gf_extra h)
  /\ opt_ok (fun s => no_nul s /\ all_bytes s) (gf_name h)
  /\ opt_ok (fun s => no_nul s /\ all_bytes s) (gf_comment h).

(* ---- tar (ustar) ----------------------------------------------------------------------------- *)
Definition TAR_BLOCK : N := 512.

(* w octal digits, most significant first *)
Fixpoint oct_digits (w : nat) (v : N) : bytes :=
  match w with
  | O => []
  | S k => oct_digits k (v / 8) ++ [48 + v mod 8]
  end.
Definition zeros (k : nat) : bytes := repeat 0 k.
(* a string in a fixed-width field, NUL padded (not terminated when it fills the field) *)
Definition field (w : nat) (s : bytes) : bytes := firstn w s ++ zeros (w - length s).
(* numeric field of width w: w-1 octal digits and a NUL *)
Definition oct_field (w : nat) (v : N) : bytes := oct_digits (w - 1) v ++ [0].

Record tar_ent := mk_tent {
  te_name : bytes;      (* <= 100 bytes, no NUL, not empty *)
  te_prefix : bytes;    (* <= 155 bytes, no NUL; path = prefix/name when not empty *)
  te_type : N;          (* typeflag byte: "0" or NUL regular, "1" link, "2" symlink, "5" directory ... *)
  te_mode : N; te_uid : N; te_gid : N;
  te_size : N;          (* size field *)
  te_mtime : N;
  te_link : bytes;      (* <= 100 bytes *)
  te_data : bytes }.    (* the member's bytes, |data| = size *)

Definition TMAGIC : bytes := [117; 115; 116; 97; 114; 0; 48; 48].     (* "ustar\000" *)
(* header bytes before and after the checksum field *)
Definition tar_hdr_pre (e : tar_ent) : bytes :=
  field 100 (te_name e) ++ oct_field 8 (te_mode e) ++ oct_field 8 (te_uid e) ++ oct_field 8 (te_gid e)
  ++ oct_field 12 (te_size e) ++ oct_field 12 (te_mtime e).
Definition tar_hdr_post (e : tar_ent) : bytes :=
  [te_type e] ++ field 100 (te_link e) ++ TMAGIC ++ zeros 32 ++ zeros 32 ++ zeros 8 ++ zeros 8
  ++ field 155 (te_prefix e) ++ zeros 12.
Definition sum_bytes (l : bytes) : N := fold_right N.add 0 l.
(* checksum: sum of all header bytes with the checksum field taken as eight spaces *)
Definition tar_cksum (e : tar_ent) : N := sum_bytes (tar_hdr_pre e) + 8 * 32 + sum_bytes (tar_hdr_post e).
Definition tar_ck_field (v : N) : bytes := oct_digits 6 v ++ [0; 32].
Definition tar_header (e : tar_ent) : bytes :=
  tar_hdr_pre e ++ tar_ck_field (tar_cksum e) ++ tar_hdr_post e.
Definition pad512 (n : nat) : nat := ((512 - n mod 512) mod 512)%nat.
Definition tar_member_bytes (e : tar_ent) : bytes :=
  tar_header e ++ te_data e ++ zeros (pad512 (length (te_data e))).
Definition tar_archive (es : list tar_ent) : bytes :=
  flat_map tar_member_bytes es ++ zeros 1024.

Definition tar_path (e : tar_ent) : bytes :=
  match te_prefix e with [] => te_name e | p => p ++ [47] ++ te_name e end.

Definition tar_ent_ok (e : tar_ent) : Prop :=
  te_name e <> [] /\ (length (te_name e) <= 100)%nat /\ no_nul (te_name e) /\ all_bytes (te_name e)
  /\ (length (te_prefix e) <= 155)%nat /\ no_nul (te_prefix e) /\ all_bytes (te_prefix e)
  /\ (length (te_link e) <= 100)%nat /\ all_bytes (te_link e)
  /\ te_type e < 256
  /\ te_mode e < 8 ^ 7 /\ te_uid e < 8 ^ 7 /\ te_gid e < 8 ^ 7
  /\ te_size e < 8 ^ 11 /\ te_mtime e < 8 ^ 11
  /\ blen (te_data e) = te_size e /\ all_bytes (te_data e).
