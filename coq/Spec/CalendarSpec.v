(* Spec/CalendarSpec.v — the *definitional* Gregorian day count: recursion over years and
   month lengths, nothing else.  Independent of Model/Calendar.v (own leap rule, own month
   table); Proofs/CalendarProofs.v proves the era-based arithmetic of the model equal to it
   for every year >= 0.  Definitions only; stdlib only; no Gen import. *)
From Coq Require Import ZArith Bool.
Open Scope Z_scope.

Definition leap (y : Z) : bool :=
  if y mod 400 =? 0 then true else if y mod 100 =? 0 then false else y mod 4 =? 0.

Definition year_len (y : Z) : Z := if leap y then 366 else 365.

Definition month_len (y m : Z) : Z :=
  match m with
  | 1 => 31 | 2 => if leap y then 29 else 28 | 3 => 31 | 4 => 30 | 5 => 31 | 6 => 30
  | 7 => 31 | 8 => 31 | 9 => 30 | 10 => 31 | 11 => 30 | 12 => 31 | _ => 0
  end.

(* number of days in the years 0 .. n-1 *)
Fixpoint days_in_years (n : nat) : Z :=
  match n with
  | O => 0
  | S k => days_in_years k + year_len (Z.of_nat k)
  end.

(* number of days in the months 1 .. k of year y *)
Fixpoint days_in_months (y : Z) (k : nat) : Z :=
  match k with
  | O => 0
  | S j => days_in_months y j + month_len y (Z.of_nat (S j))
  end.

Definition date_ok (y m d : Z) : Prop :=
  0 <= y /\ 1 <= m <= 12 /\ 1 <= d <= month_len y m.

Definition time_ok (h mi s : Z) : Prop :=
  0 <= h <= 23 /\ 0 <= mi <= 59 /\ 0 <= s <= 59.

(* days from 1970-01-01 to y-m-d, for y >= 0 *)
Definition spec_days (y m d : Z) : Z :=
  days_in_years (Z.to_nat y) - days_in_years 1970
  + days_in_months y (Z.to_nat (m - 1)) + (d - 1).

(* the instant (ns since the epoch) a civil date-time denotes in a zone [off] seconds east *)
Definition spec_instant (y m d h mi s frac_ns off : Z) : Z :=
  (spec_days y m d * 86400 + h * 3600 + mi * 60 + s - off) * 1000000000 + frac_ns.
