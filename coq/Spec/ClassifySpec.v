(* Spec/ClassifySpec.v — the property C16 as a function on *structured* names.

   A structured name is  pre ++ c0 ++ .c1 ++ ... ++ .ck ++ post  where
     pre, post : junk characters (no dot),
     c0..ck    : clean components (non-empty, dot-free, ASCII, no junk at either end).
   The spec reads the components from the right exactly as the property says:
   numeric and unrecognised components are skipped, a compression word sets the
   container (so of several the left-most wins), the first recognised word decides;
   when only c0 is left the whole-name table decides, default text. *)
From S4.Base Require Import Bytes.
From S4.Model Require Import Classify.
Open Scope N_scope.

Section Spec.
  Variable sfx_table : list (bytes * sfx_action).
  Variable name_table : list (bytes * name_action).

  Definition spec_name (a : fta) (c0 : bytes) : result :=
    match assoc (lower_bytes c0) name_table with
    | Some NText => RFile (Text a)
    | Some NJournal => RFile (Journal a)
    | Some (NFixed t) => RFile (Fixed a t)
    | None => RFile (Text a)
    end.

  (* comps_rev: c_k first, c_1 last *)
  Fixpoint spec_scan (uat : bool) (a : fta) (c0 : bytes) (comps_rev : list bytes) : result :=
    match comps_rev with
    | [] => spec_name a c0
    | c :: rest =>
        let w := lower_bytes c in
        if parse_i32_ok w then spec_scan uat a c0 rest
        else match assoc w sfx_table with
             | Some (SCompress a') => spec_scan uat a' c0 rest
             | Some STar => RArchiveTar a
             | Some SEvtx => RFile (Evtx a)
             | Some SJournal => RFile (Journal a)
             | Some SText => RFile (Text a)
             | Some (SFixed t) => RFile (Fixed a t)
             | Some SUnparsable => if uat then RFile (Text a) else RFile Unparsable
             | None => spec_scan uat a c0 rest
             end
    end.

  Definition spec_classify (uat : bool) (c0 : bytes) (comps : list bytes) : result :=
    spec_scan uat Normal c0 (rev comps).
End Spec.

Definition render (pre c0 : bytes) (comps : list bytes) (post : bytes) : bytes :=
  pre ++ c0 ++ concat (map (fun c => dot :: c) comps) ++ post.

(* well-formedness of a structured name, relative to the junk sets *)
Definition ascii (c : bytes) : bool := forallb (fun b => b <? 128) c.
Definition last_byte (c : bytes) : option N := match rev c with b :: _ => Some b | [] => None end.
Definition clean_comp (junk junk_lead : list N) (c : bytes) : bool :=
  negb (is_empty c) && ascii c && negb (memb dot c)
  && match c with b :: _ => negb (memb b junk_lead) | [] => false end
  && match last_byte c with Some b => negb (memb b junk) | None => false end.
Definition all_in (j : list N) (l : bytes) : bool := forallb (fun b => memb b j) l.

Definition wf_sname_gen (pre_set junk junk_lead : list N) (pre c0 : bytes) (comps : list bytes) (post : bytes) : bool :=
  all_in pre_set pre && all_in junk post
  && clean_comp junk junk_lead c0 && forallb (clean_comp junk junk_lead) comps.

(* the domain of the generic theorem: leading junk without dots *)
Definition wf_sname (junk junk_lead : list N) := wf_sname_gen junk junk junk_lead.
(* the wider domain the property speaks of: leading junk may contain dots *)
Definition wf_sname_wide (junk junk_lead : list N) := wf_sname_gen junk_lead junk junk_lead.

(* side conditions on the tables that the generic theorem needs *)
Definition tables_wf (sfx_table : list (bytes * sfx_action)) (junk junk_lead : list N) : bool :=
  negb (memb dot junk)
  && forallb (fun b => memb b junk_lead) junk
  && forallb (fun b => b <? 128) junk && forallb (fun b => b <? 128) junk_lead
  && match assoc [] sfx_table with None => true | Some _ => false end.

(* ---- additive definitions used by the general theorems (Proofs/ClassifyProofs.v) ---- *)
(* the class of known finding F6 (checks/c16.py f6_class): two or more leading junk
   characters the last of which is a dot *)
Definition f6_pre (pre : bytes) : bool :=
  match rev pre with b :: _ :: _ => b =? dot | _ => false end.

(* clean component with valid UTF-8 in place of ASCII *)
Definition clean_comp_u (junk junk_lead : list N) (c : bytes) : bool :=
  negb (is_empty c) && utf8_valid c && negb (memb dot c)
  && match c with b :: _ => negb (memb b junk_lead) | [] => false end
  && match last_byte c with Some b => negb (memb b junk) | None => false end.

(* widest domain proved: leading junk may contain dots, components are any valid UTF-8 *)
Definition wf_sname_u (junk junk_lead : list N) (pre c0 : bytes) (comps : list bytes) (post : bytes) : bool :=
  all_in junk_lead pre && all_in junk post
  && clean_comp_u junk junk_lead c0 && forallb (clean_comp_u junk junk_lead) comps.

(* a rotation component: numeric, or a word the suffix table does not know *)
Definition rot_comp (sfx_table : list (bytes * sfx_action)) (c : bytes) : bool :=
  parse_i32_ok (lower_bytes c)
  || match assoc (lower_bytes c) sfx_table with None => true | Some _ => false end.

(* [spec_scan] with the decision for "no component left" as a parameter.
   [spec_scan uat a c0 cr = scan_gen (fun a => spec_name a c0) uat a cr] (lemma spec_scan_gen);
   with [base := fallback_spec uat] and the first component pushed onto the component
   list it describes what the code does in the class of known finding F6. *)
Section ScanGen.
  Variable sfx_table : list (bytes * sfx_action).
  Variable base : fta -> result.
  Fixpoint scan_gen (uat : bool) (a : fta) (comps_rev : list bytes) : result :=
    match comps_rev with
    | [] => base a
    | c :: rest =>
        let w := lower_bytes c in
        if parse_i32_ok w then scan_gen uat a rest
        else match assoc w sfx_table with
             | Some (SCompress a') => scan_gen uat a' rest
             | Some STar => RArchiveTar a
             | Some SEvtx => RFile (Evtx a)
             | Some SJournal => RFile (Journal a)
             | Some SText => RFile (Text a)
             | Some (SFixed t) => RFile (Fixed a t)
             | Some SUnparsable => if uat then RFile (Text a) else RFile Unparsable
             | None => scan_gen uat a rest
             end
    end.
End ScanGen.

Definition fallback_spec (uat : bool) (a : fta) : result :=
  if uat then RFile (Text a) else RFile Unparsable.

(* behaviour of the code inside the F6 class: the first component is read as one more
   suffix, and the junk in front of it as an all-junk name (fallback) *)
Definition f6_classify (sfx_table : list (bytes * sfx_action)) (uat : bool) (c0 : bytes) (comps : list bytes) : result :=
  scan_gen sfx_table (fallback_spec uat) uat Normal (rev (c0 :: comps)).

(* a component that does not decide the type: rotation component or compression word *)
Definition transparent_comp (sfx_table : list (bytes * sfx_action)) (c : bytes) : bool :=
  rot_comp sfx_table c
  || match assoc (lower_bytes c) sfx_table with Some (SCompress _) => true | _ => false end.
