(* Spec/NormaliseSpec.v — C04: what the text of a timestamp DENOTES.
   Property-level reading of the captured pieces of a timestamp, independent of the code's
   normalisation pipeline, of chrono, and of every regenerated table: month names and zone
   abbreviations come from frozen references (below and Spec/TzRef.v), the instant from the
   definitional day count of Spec/CalendarSpec.v.  Definitions only; no Gen import. *)
From Coq Require Import String.
From S4.Base Require Import Bytes.
From S4.Model Require Import Normalise.      (* the DTFS enums and the captures record (types only) *)
From S4.Spec Require Import CalendarSpec TzRef.
Close Scope string_scope.
Open Scope list_scope.
Open Scope N_scope.

Definition digit (b : N) : bool := (48 <=? b) && (b <=? 57).
Fixpoint num_of (s : bytes) (acc : Z) : Z :=
  match s with b :: r => num_of r (acc * 10 + Z.of_N (b - 48))%Z | [] => acc end.
Definition digits_n (n : nat) (s : bytes) : option Z :=
  if (length s =? n)%nat && forallb digit s then Some (num_of s 0%Z) else None.
Definition digits_1_2 (s : bytes) : option Z :=
  match digits_n 1 s with Some v => Some v | None => digits_n 2 s end.

(* ---- month names: frozen reference (English), accepted spellings:
        lower / Title / UPPER  x  { three-letter abbreviation, abbreviation + '.', full name } *)
Definition ref_months : list (string * Z) := [
  ("january", 1); ("february", 2); ("march", 3); ("april", 4); ("may", 5); ("june", 6);
  ("july", 7); ("august", 8); ("september", 9); ("october", 10); ("november", 11); ("december", 12)]%Z%string.

Definition is_lower (b : N) : bool := (97 <=? b) && (b <=? 122).
Definition upper (b : N) : N := if is_lower b then b - 32 else b.
Definition upper_bytes (l : bytes) : bytes := map upper l.
Definition title_bytes (l : bytes) : bytes := match l with b :: r => upper b :: r | [] => [] end.

Definition case_variants (l : bytes) : list bytes := [l; title_bytes l; upper_bytes l].
Definition month_spellings_of (name : bytes) : list bytes :=
  let ab := firstn 3 name in
  case_variants ab ++ case_variants (ab ++ [46]) ++ case_variants name.
Definition ref_month_spellings : list (bytes * Z) :=
  flat_map (fun nm => map (fun sp => (sp, snd nm)) (month_spellings_of (s2b (fst nm)))) ref_months.
Definition month_of_name (t : bytes) : option Z := assoc t ref_month_spellings.

(* ---- zone abbreviations: Spec/TzRef.v; the lower-case spelling denotes the same zone *)
Definition tz_ref_expanded : list (bytes * option Z) :=
  flat_map (fun nv => [(s2b (fst nv), snd nv); (lower_bytes (s2b (fst nv)), snd nv)]) tz_ref.
(* Some (Some off) = unambiguous; Some None = ambiguous (fallback zone); None = not an abbreviation *)
Definition zone_of_name (t : bytes) : option (option Z) := assoc t tz_ref_expanded.

(* ---- numeric UTC offsets: sign is '+', '-' or U+2212 MINUS SIGN *)
Definition split_sign (t : bytes) : option (bool * bytes) :=
  match t with
  | a :: r =>
      if a =? 43 then Some (false, r)
      else if a =? 45 then Some (true, r)
      else match r with
           | b :: c :: r' => if (a =? 226) && (b =? 136) && (c =? 146) then Some (true, r') else None
           | _ => None
           end
  | [] => None
  end.
Definition mk_off (neg : bool) (hh mm : Z) : option Z :=
  if (hh <=? 23)%Z && (mm <=? 59)%Z then
    let s := (hh * 3600 + mm * 60)%Z in Some (if neg then (- s)%Z else s)
  else None.
Definition val2 (a b : N) : Z := Z.of_N ((a - 48) * 10 + (b - 48)).
Definition off_of_text (k : dtfs_tz) (t : bytes) : option Z :=
  match split_sign t with
  | None => None
  | Some (neg, r) =>
    match k, r with
    | Tz_z, [h1; h2; m1; m2] =>
        if digit h1 && digit h2 && digit m1 && digit m2 then mk_off neg (val2 h1 h2) (val2 m1 m2) else None
    | Tz_zc, [h1; h2; c; m1; m2] =>
        if digit h1 && digit h2 && (c =? 58) && digit m1 && digit m2 then mk_off neg (val2 h1 h2) (val2 m1 m2) else None
    | Tz_zp, [h1; h2] =>
        if digit h1 && digit h2 then mk_off neg (val2 h1 h2) 0%Z else None
    | _, _ => None
    end
  end.

(* ---- the fields a capture set denotes *)
Definition rd_year (d : dtfs) (c : caps) (year_opt : option Z) : option Z :=
  match f_year d with
  | Y_Y => match c_year c with Some t => digits_n 4 t | None => None end
  | Y_y => match c_year c with
           | Some t => option_map (fun r => (r + (if r <? 70 then 2000 else 1900))%Z) (digits_n 2 t)
           | None => None end
  | Y_fill => match c_year c with
              | Some t => digits_n 4 t
              | None => match year_opt with
                        | Some y => if (1000 <=? y)%Z && (y <=? 9999)%Z then Some y else None
                        | None => Some 1972%Z end
              end
  | Y_none => None
  end.

Definition rd_month (d : dtfs) (c : caps) : option Z :=
  match c_month c with
  | None => None
  | Some t => match f_month d with
              | Mo_m => digits_n 2 t
              | Mo_ms => digits_1_2 t
              | Mo_b | Mo_B => month_of_name t
              | Mo_none => None end
  end.

Definition rd_day (d : dtfs) (c : caps) : option Z :=
  match f_day d, c_day c with
  | D_ed, Some t => match t with
                    | [a; x] => if a =? 32 then digits_n 1 [x] else digits_1_2 t
                    | _ => digits_1_2 t end
  | _, _ => None
  end.

Definition rd_hour (d : dtfs) (c : caps) : option Z :=
  match c_hour c with
  | None => None
  | Some t => match f_hour d with
              | H_H => digits_n 2 t
              | H_k => digits_1_2 t
              | _ => None end       (* 12-hour forms: no notation of the project uses them *)
  end.

Definition rd_minute (d : dtfs) (c : caps) : option Z :=
  match f_minute d, c_minute c with Mi_M, Some t => digits_n 2 t | _, _ => None end.

Definition rd_second (d : dtfs) (c : caps) : option Z :=
  match f_second d with
  | S_S => match c_second c with Some t => digits_n 2 t | None => None end
  | S_fill | S_none => Some 0%Z
  end.

(* 1..9 written fraction digits denote exactly that fraction of a second, in ns *)
Definition frac_ns (t : bytes) : option Z :=
  let n := length t in
  if (1 <=? n)%nat && (n <=? 9)%nat && forallb digit t
  then Some (num_of t 0 * 10 ^ Z.of_nat (9 - n))%Z else None.
Definition rd_frac (d : dtfs) (c : caps) : option Z :=
  match f_frac d with
  | F_f => match c_frac c with Some t => frac_ns t | None => None end
  | F_none => Some 0%Z
  end.

(* zone: numeric offset as written; unambiguous abbreviation = its reference offset;
   ambiguous abbreviation or no zone at all = the fallback zone *)
Definition rd_off (d : dtfs) (c : caps) (fallback : Z) : option Z :=
  match f_tz d with
  | Tz_z | Tz_zc | Tz_zp => match c_tz c with Some t => off_of_text (f_tz d) t | None => None end
  | Tz_Z => match c_tz c with
            | Some t => match zone_of_name t with
                        | Some (Some o) => Some o
                        | Some None => Some fallback
                        | None => None end
            | None => None end
  | Tz_fill => Some fallback
  | Tz_none => None
  end.

Definition obind' {A B} (o : option A) (f : A -> option B) : option B :=
  match o with Some a => f a | None => None end.

(* civil notations: the instant the text denotes, when it denotes one *)
Definition denoted_civil (d : dtfs) (c : caps) (year_opt : option Z) (fallback : Z) : option Z :=
  obind' (rd_year d c year_opt) (fun y =>
  obind' (rd_month d c) (fun mo =>
  obind' (rd_day d c) (fun dd =>
  obind' (rd_hour d c) (fun h =>
  obind' (rd_minute d c) (fun mi =>
  obind' (rd_second d c) (fun s =>
  obind' (rd_frac d c) (fun fr =>
  obind' (rd_off d c fallback) (fun o =>
  if (0 <=? y)%Z && (1 <=? mo)%Z && (mo <=? 12)%Z && (1 <=? dd)%Z && (dd <=? month_len y mo)%Z
     && (h <=? 23)%Z && (mi <=? 59)%Z && (s <=? 59)%Z
  then Some (spec_instant y mo dd h mi s fr o) else None)))))))).

(* Unix-epoch notations: seconds since 1970-01-01T00:00:00 UTC, by definition independent of any zone *)
Definition denoted_epoch (d : dtfs) (c : caps) : option Z :=
  match c_epoch c with
  | Some t => if (1 <=? length t)%nat && (length t <=? 18)%nat && forallb digit t then
                obind' (rd_frac d c) (fun fr => Some (num_of t 0 * 1000000000 + fr)%Z)
              else None
  | None => None
  end.

Definition denoted_instant (d : dtfs) (c : caps) (year_opt : option Z) (fallback : Z) : option Z :=
  match f_epoch d with
  | E_s => denoted_epoch d c
  | E_none => denoted_civil d c year_opt fallback
  end.

(* the --tz-offset values s4 accepts / FixedOffset values with whole minutes *)
Definition fallback_ok (off : Z) : bool :=
  (-86400 <? off)%Z && (off <? 86400)%Z && (off mod 60 =? 0)%Z.
