(* Spec/RecordsSpec.v — property-level specification shared by C08 (accounting records) and
   C10 (event-log records).  No import of coq/Gen, no import of the models.

   "every record once, in time order, equal times keep file order, window on that time"
     spec_out A B recs  =  stable_sort_by_time (filter (non_null && in_window A B) recs)

   The stable sort is the left-to-right insertion sort: records are taken in file order and
   each one is placed *after* every already placed record whose time is <= its own.       *)
From Coq Require Import List NArith ZArith Bool.
Import ListNotations.

(* ------------------------------------------------------------------ generic stable sort *)
Section StableSort.
  Variable A : Type.
  Variable tle : A -> A -> bool.        (* time of the first <= time of the second *)

  (* x is a later record than every element of l: it goes after all y with tle y x *)
  Fixpoint insert_after (x : A) (l : list A) : list A :=
    match l with
    | [] => [x]
    | y :: r => if tle y x then y :: insert_after x r else x :: y :: r
    end.

  Definition stable_sort (l : list A) : list A :=
    fold_left (fun acc x => insert_after x acc) l [].
End StableSort.
Arguments insert_after {A} tle x l.
Arguments stable_sort {A} tle l.

(* ------------------------------------------------------------------ time values *)
(* C08: a time value is the pair (seconds, microseconds) compared lexicographically, exactly
   the derived ordering of the Rust tuple struct tv_pair_type(i64, i64).                   *)
Definition tv : Type := (Z * Z)%type.

Definition tv_cmp (a b : tv) : comparison :=
  match Z.compare (fst a) (fst b) with
  | Eq => Z.compare (snd a) (snd b)
  | c => c
  end.

Definition cmp_leb (c : comparison) : bool := match c with Gt => false | _ => true end.
Definition tv_leb (a b : tv) : bool := cmp_leb (tv_cmp a b).
Definition tv_eqb (a b : tv) : bool := match tv_cmp a b with Eq => true | _ => false end.

(* window bounds: None = unbounded; both ends inclusive *)
Definition in_window {T} (cmp : T -> T -> comparison) (lo hi : option T) (t : T) : bool :=
  (match lo with None => true | Some a => cmp_leb (cmp a t) end) &&
  (match hi with None => true | Some b => cmp_leb (cmp t b) end).

(* ------------------------------------------------------------------ C08 records *)
Record rec : Type := mkrec { r_fo : N; r_tv : tv }.

(* a null record: its time value is (0,0) (an unused slot of lastlog, a zeroed utmp slot) *)
Definition is_null (r : rec) : bool := tv_eqb (r_tv r) (0, 0)%Z.

Definition rec_keep (lo hi : option tv) (r : rec) : bool :=
  negb (is_null r) && in_window tv_cmp lo hi (r_tv r).

Definition rec_tle (a b : rec) : bool := tv_leb (r_tv a) (r_tv b).

Definition stable_sort_by_time (l : list rec) : list rec := stable_sort rec_tle l.

Definition spec_records (lo hi : option tv) (recs : list rec) : list rec :=
  stable_sort_by_time (filter (rec_keep lo hi) recs).

(* the records of a file: time values of consecutive entries of size sz, starting at offset fo *)
Fixpoint index_recs (sz fo : N) (tvs : list tv) : list rec :=
  match tvs with
  | [] => []
  | t :: r => mkrec fo t :: index_recs sz (fo + sz) r
  end.

(* ------------------------------------------------------------------ C10 event records *)
(* an event: (enumeration index in the file, creation time as an integer count of time units) *)
Record ev : Type := mkev { e_idx : N; e_ts : Z }.

Definition ev_keep (lo hi : option Z) (e : ev) : bool := in_window Z.compare lo hi (e_ts e).
Definition ev_tle (a b : ev) : bool := Z.leb (e_ts a) (e_ts b).

Definition spec_events (lo hi : option Z) (evs : list ev) : list ev :=
  stable_sort ev_tle (filter (ev_keep lo hi) evs).

(* enumeration of the file: None = a record the parser could not decode (it consumes an index) *)
Fixpoint index_evs (i : N) (rs : list (option Z)) : list ev :=
  match rs with
  | [] => []
  | None :: r => index_evs (i + 1) r
  | Some t :: r => mkev i t :: index_evs (i + 1) r
  end.
