(* Base/Chunk.v — files as byte lists read through fixed-size blocks.

   file = list N;  block bs f i = firstn bs (skipn (i*bs) f)   (DESIGN.md section 5)

   N-indexed list helpers (nthN, firstnN, skipnN, lenN, slice), the block lemmas
   (byte_at_block, lenN_block, concat_blocks) and the Rust block-arithmetic helpers of
   src/readers/blockreader.rs transcribed over N with their characterising lemmas. *)
From S4.Base Require Import Bytes.
Open Scope N_scope.

Definition file := list N.

Definition lenN {A} (l : list A) : N := N.of_nat (length l).
Definition nthN {A} (l : list A) (i : N) : option A := nth_error l (N.to_nat i).
Definition firstnN {A} (n : N) (l : list A) : list A := firstn (N.to_nat n) l.
Definition skipnN {A} (n : N) (l : list A) : list A := skipn (N.to_nat n) l.
(* bytes lo .. hi-1 *)
Definition slice {A} (l : list A) (lo hi : N) : list A := firstnN (hi - lo) (skipnN lo l).

Definition block (bs : N) (f : file) (i : N) : list N := firstnN bs (skipnN (i * bs) f).

(* ---------------------------------------------------------------- Rust helpers *)

(* BlockReader::block_offset_at_file_offset *)
Definition block_offset_at_file_offset (fo bs : N) : N := fo / bs.
(* BlockReader::file_offset_at_block_offset *)
Definition file_offset_at_block_offset (bo bs : N) : N := bo * bs.
(* BlockReader::file_offset_at_block_offset_index *)
Definition file_offset_at_block_offset_index (bo bs bi : N) : N :=
  file_offset_at_block_offset bo bs + bi.
(* BlockReader::block_index_at_file_offset *)
Definition block_index_at_file_offset (fo bs : N) : N :=
  fo - file_offset_at_block_offset (block_offset_at_file_offset fo bs) bs.
(* BlockReader::count_blocks *)
Definition count_blocks (filesz bs : N) : N :=
  filesz / bs + (if 0 <? filesz mod bs then 1 else 0).
(* BlockReader::blockoffset_last *)
Definition blockoffset_last (filesz bs : N) : N :=
  if filesz =? 0 then 0 else count_blocks filesz bs - 1.
(* BlockReader::fileoffset_last: `filesz - 1` underflows (panics with overflow checks) on an
   empty file *)
Definition fileoffset_last (filesz : N) : option N :=
  if filesz =? 0 then None else Some (filesz - 1).
(* BlockReader::blocksz_at_blockoffset_impl; None = the assert_le! panics *)
Definition blocksz_at_blockoffset (bo filesz bs : N) : option N :=
  let last := blockoffset_last filesz bs in
  if last <? bo then None
  else if filesz =? 0 then Some 0
  else if bo =? last then
         let r := filesz mod bs in if negb (r =? 0) then Some r else Some bs
       else Some bs.

(* ---------------------------------------------------------------- list helpers *)

Lemma lenN_nil {A} : lenN (@nil A) = 0.
Proof. reflexivity. Qed.

Lemma lenN_cons {A} (x : A) l : lenN (x :: l) = lenN l + 1.
Proof. unfold lenN. cbn [length]. lia. Qed.

Lemma lenN_app {A} (a b : list A) : lenN (a ++ b) = lenN a + lenN b.
Proof. unfold lenN. rewrite app_length. lia. Qed.

Lemma nthN_Some_lt {A} (l : list A) i x : nthN l i = Some x -> i < lenN l.
Proof.
  unfold nthN, lenN. intro H.
  assert (N.to_nat i < length l)%nat by (apply nth_error_Some; congruence). lia.
Qed.

Lemma nthN_None {A} (l : list A) i : nthN l i = None <-> lenN l <= i.
Proof.
  unfold nthN, lenN. rewrite nth_error_None. lia.
Qed.

Lemma nthN_lt_Some {A} (l : list A) i : i < lenN l -> exists x, nthN l i = Some x.
Proof.
  intro H. destruct (nthN l i) eqn:E; eauto.
  apply nthN_None in E. lia.
Qed.

Lemma nthN_0_cons {A} (x : A) l : nthN (x :: l) 0 = Some x.
Proof. reflexivity. Qed.

Lemma nthN_succ_cons {A} (x : A) l i : nthN (x :: l) (i + 1) = nthN l i.
Proof. unfold nthN. replace (N.to_nat (i + 1)) with (S (N.to_nat i)) by lia. reflexivity. Qed.

Lemma nthN_cons_pos {A} (x : A) l i : 0 < i -> nthN (x :: l) i = nthN l (i - 1).
Proof. intro H. replace i with ((i - 1) + 1) at 1 by lia. apply nthN_succ_cons. Qed.

Lemma nthN_app_l {A} (a b : list A) i : i < lenN a -> nthN (a ++ b) i = nthN a i.
Proof. unfold nthN, lenN. intro H. apply nth_error_app1. lia. Qed.

Lemma nthN_app_r {A} (a b : list A) i : lenN a <= i -> nthN (a ++ b) i = nthN b (i - lenN a).
Proof.
  unfold nthN, lenN. intro H. rewrite nth_error_app2 by lia. f_equal. lia.
Qed.

Lemma nth_error_firstn {A} (l : list A) n k :
  nth_error (firstn n l) k = if (k <? n)%nat then nth_error l k else None.
Proof.
  revert l k; induction n as [|n IH]; intros l k.
  - cbn. destruct k; reflexivity.
  - destruct l as [|x l].
    + rewrite firstn_nil. destruct (k <? S n)%nat; destruct k; reflexivity.
    + destruct k as [|k]; cbn [firstn nth_error]; [reflexivity|].
      rewrite IH. reflexivity.
Qed.

Lemma nth_error_skipn {A} (l : list A) n k : nth_error (skipn n l) k = nth_error l (n + k).
Proof.
  revert l; induction n as [|n IH]; intros l; [reflexivity|].
  destruct l as [|x l]; cbn [skipn plus nth_error].
  - destruct k; reflexivity.
  - apply IH.
Qed.

Lemma nthN_firstnN {A} (l : list A) n k :
  nthN (firstnN n l) k = if k <? n then nthN l k else None.
Proof.
  unfold nthN, firstnN. rewrite nth_error_firstn.
  destruct (N.ltb_spec k n); destruct (Nat.ltb_spec (N.to_nat k) (N.to_nat n)); try reflexivity; lia.
Qed.

Lemma nthN_skipnN {A} (l : list A) n k : nthN (skipnN n l) k = nthN l (n + k).
Proof.
  unfold nthN, skipnN. rewrite nth_error_skipn. f_equal. lia.
Qed.

Lemma lenN_firstnN {A} (l : list A) n : lenN (firstnN n l) = N.min n (lenN l).
Proof. unfold lenN, firstnN. rewrite firstn_length. lia. Qed.

Lemma lenN_skipnN {A} (l : list A) n : lenN (skipnN n l) = lenN l - n.
Proof. unfold lenN, skipnN. rewrite skipn_length. lia. Qed.

Lemma firstnN_all {A} (l : list A) n : lenN l <= n -> firstnN n l = l.
Proof. unfold lenN, firstnN. intro H. apply firstn_all2. lia. Qed.

Lemma skipnN_0 {A} (l : list A) : skipnN 0 l = l.
Proof. reflexivity. Qed.

Lemma skipnN_all {A} (l : list A) n : lenN l <= n -> skipnN n l = [].
Proof. unfold lenN, skipnN. intro H. apply skipn_all2. lia. Qed.

Lemma skipnN_skipnN {A} (l : list A) a b : skipnN a (skipnN b l) = skipnN (b + a) l.
Proof.
  unfold skipnN. replace (N.to_nat (b + a)) with (N.to_nat b + N.to_nat a)%nat by lia.
  generalize (N.to_nat a) as x, (N.to_nat b) as y. intros x y. revert l.
  induction y as [|y IH]; intro l; [reflexivity|].
  destruct l as [|z l]; cbn [skipn plus]; [apply skipn_nil | apply IH].
Qed.

Lemma firstnN_skipnN_app {A} (l : list A) n : firstnN n l ++ skipnN n l = l.
Proof. apply firstn_skipn. Qed.

Lemma skipnN_app_len {A} (a b : list A) : skipnN (lenN a) (a ++ b) = b.
Proof.
  unfold skipnN, lenN. rewrite Nnat.Nat2N.id.
  rewrite skipn_app, skipn_all, Nat.sub_diag. reflexivity.
Qed.

Lemma firstnN_app_len {A} (a b : list A) : firstnN (lenN a) (a ++ b) = a.
Proof.
  unfold firstnN, lenN. rewrite Nnat.Nat2N.id.
  rewrite firstn_app, firstn_all, Nat.sub_diag. cbn. apply app_nil_r.
Qed.

(* two lists with the same nthN everywhere are equal *)
Lemma nthN_ext {A} (a b : list A) : (forall i, nthN a i = nthN b i) -> a = b.
Proof.
  revert b; induction a as [|x a IH]; intros [|y b] H.
  - reflexivity.
  - specialize (H 0). discriminate.
  - specialize (H 0). discriminate.
  - pose proof (H 0) as H0. cbn in H0. inversion H0; subst. f_equal.
    apply IH. intro i. specialize (H (i + 1)). rewrite !nthN_succ_cons in H. exact H.
Qed.

Lemma nthN_slice {A} (l : list A) lo hi k :
  nthN (slice l lo hi) k = if k <? hi - lo then nthN l (lo + k) else None.
Proof. unfold slice. rewrite nthN_firstnN, nthN_skipnN. reflexivity. Qed.

Lemma lenN_slice {A} (l : list A) lo hi : hi <= lenN l -> lenN (slice l lo hi) = hi - lo.
Proof. intro H. unfold slice. rewrite lenN_firstnN, lenN_skipnN. lia. Qed.

Lemma slice_app {A} (l : list A) lo m hi :
  lo <= m -> m <= hi -> hi <= lenN l -> slice l lo m ++ slice l m hi = slice l lo hi.
Proof.
  intros H1 H2 H3. apply nthN_ext. intro i.
  destruct (N.lt_ge_cases i (m - lo)) as [Hi|Hi].
  - rewrite nthN_app_l by (rewrite lenN_slice; lia).
    rewrite !nthN_slice.
    destruct (N.ltb_spec i (m - lo)); destruct (N.ltb_spec i (hi - lo)); try reflexivity; lia.
  - rewrite nthN_app_r by (rewrite lenN_slice; lia).
    rewrite lenN_slice by lia. rewrite !nthN_slice.
    destruct (N.ltb_spec (i - (m - lo)) (hi - m)); destruct (N.ltb_spec i (hi - lo)); try lia.
    + f_equal. lia.
    + reflexivity.
Qed.

Lemma slice_nil {A} (l : list A) lo : slice l lo lo = [].
Proof. unfold slice. rewrite N.sub_diag. reflexivity. Qed.

Lemma slice_full {A} (l : list A) : slice l 0 (lenN l) = l.
Proof. unfold slice. rewrite skipnN_0, N.sub_0_r. apply firstnN_all. lia. Qed.

Lemma slice_to_end {A} (l : list A) lo : slice l lo (lenN l) = skipnN lo l.
Proof. unfold slice. apply firstnN_all. rewrite lenN_skipnN. lia. Qed.

(* ---------------------------------------------------------------- div / mod facts *)

(* lia, after abstracting every quotient and remainder into a variable *)
Ltac gen_divmod := repeat match goal with
  | |- context [N.div ?a ?b] => let q := fresh "q" in set (q := N.div a b) in *; clearbody q
  | |- context [N.modulo ?a ?b] => let r := fresh "r" in set (r := N.modulo a b) in *; clearbody r
  | H : context [N.div ?a ?b] |- _ => let q := fresh "q" in set (q := N.div a b) in *; clearbody q
  | H : context [N.modulo ?a ?b] |- _ => let r := fresh "r" in set (r := N.modulo a b) in *; clearbody r
  end.
Ltac dlia := gen_divmod; lia.

Lemma div_mod_bs fo bs : 0 < bs ->
  fo = (fo / bs) * bs + block_index_at_file_offset fo bs /\ block_index_at_file_offset fo bs < bs.
Proof.
  intro H. unfold block_index_at_file_offset, file_offset_at_block_offset, block_offset_at_file_offset.
  pose proof (N.div_mod fo bs ltac:(lia)) as E.
  pose proof (N.mod_lt fo bs ltac:(lia)) as L.
  rewrite (N.mul_comm bs) in E. dlia.
Qed.

Lemma block_index_is_mod fo bs : 0 < bs -> block_index_at_file_offset fo bs = fo mod bs.
Proof.
  intro H. pose proof (div_mod_bs fo bs H) as [E L].
  pose proof (N.div_mod fo bs ltac:(lia)) as E2. rewrite (N.mul_comm bs) in E2. dlia.
Qed.

Lemma div_unique_bs bo bs bi : bi < bs -> (bo * bs + bi) / bs = bo.
Proof.
  intro H. symmetry. apply (N.div_unique _ _ bo bi); [exact H|]. dlia.
Qed.

Lemma block_index_of_sum bo bs bi : bi < bs -> block_index_at_file_offset (bo * bs + bi) bs = bi.
Proof.
  intro H. unfold block_index_at_file_offset, file_offset_at_block_offset, block_offset_at_file_offset.
  rewrite div_unique_bs by exact H. dlia.
Qed.

Lemma div_le_mul fo bs : 0 < bs -> (fo / bs) * bs <= fo.
Proof. intro H. pose proof (div_mod_bs fo bs H). dlia. Qed.

Lemma div_lt_next fo bs : 0 < bs -> fo < (fo / bs) * bs + bs.
Proof. intro H. pose proof (div_mod_bs fo bs H). dlia. Qed.

(* a <= b -> a/bs <= b/bs *)
Lemma div_mono a b bs : 0 < bs -> a <= b -> a / bs <= b / bs.
Proof. intros H L. apply N.div_le_mono; dlia. Qed.

Lemma mul_le_bs a b bs : a <= b -> a * bs <= b * bs.
Proof. intro H. apply N.mul_le_mono_r. exact H. Qed.

Lemma mul_succ_bs a bs : (a + 1) * bs = a * bs + bs.
Proof. dlia. Qed.

(* bo < b' -> bo*bs + bs <= b'*bs *)
Lemma mul_lt_bs a b bs : a < b -> a * bs + bs <= b * bs.
Proof.
  intro H. rewrite <- mul_succ_bs. apply N.mul_le_mono_r. dlia.
Qed.

(* the block that holds offset fo: fo/bs = bo <-> bo*bs <= fo < bo*bs+bs *)
Lemma div_eq_iff fo bs bo : 0 < bs -> (fo / bs = bo <-> bo * bs <= fo /\ fo < bo * bs + bs).
Proof.
  intro H. split.
  - intro E. subst bo. split; [apply div_le_mul | apply div_lt_next]; exact H.
  - intros [L U]. replace fo with (bo * bs + (fo - bo * bs)) by dlia.
    apply div_unique_bs. dlia.
Qed.

(* ---------------------------------------------------------------- blocks *)

Lemma nthN_block bs f bo bi :
  nthN (block bs f bo) bi = if bi <? bs then nthN f (bo * bs + bi) else None.
Proof. unfold block. rewrite nthN_firstnN, nthN_skipnN. reflexivity. Qed.

(* DESIGN section 5 `byte_at_block` *)
Lemma byte_at_block bs f bo bi : bi < bs -> nthN (block bs f bo) bi = nthN f (bo * bs + bi).
Proof.
  intro H. rewrite nthN_block. destruct (N.ltb_spec bi bs); [reflexivity | dlia].
Qed.

Lemma byte_at_file_offset bs f fo : 0 < bs ->
  nthN f fo = nthN (block bs f (block_offset_at_file_offset fo bs)) (block_index_at_file_offset fo bs).
Proof.
  intro H. pose proof (div_mod_bs fo bs H) as [E L].
  rewrite byte_at_block by exact L. unfold block_offset_at_file_offset. rewrite <- E. reflexivity.
Qed.

Lemma lenN_block bs f bo : lenN (block bs f bo) = N.min bs (lenN f - bo * bs).
Proof. unfold block. rewrite lenN_firstnN, lenN_skipnN. reflexivity. Qed.

Lemma count_blocks_spec filesz bs : 0 < bs ->
  forall bo, bo < count_blocks filesz bs <-> bo * bs < filesz.
Proof.
  intros H bo. unfold count_blocks.
  pose proof (N.div_mod filesz bs ltac:(lia)) as E. rewrite (N.mul_comm bs) in E.
  pose proof (N.mod_lt filesz bs ltac:(lia)) as L.
  set (q := filesz / bs) in *. set (r := filesz mod bs) in *.
  destruct (N.ltb_spec 0 r) as [R|R].
  - split; intro B.
    + assert (bo <= q) by dlia. pose proof (mul_le_bs bo q bs H0). dlia.
    + destruct (N.lt_ge_cases bo (q + 1)) as [C|C]; [exact C|].
      pose proof (mul_le_bs (q + 1) bo bs C). dlia.
  - assert (r = 0) by dlia. split; intro B.
    + assert (bo + 1 <= q) by dlia. pose proof (mul_le_bs (bo + 1) q bs H1). dlia.
    + destruct (N.lt_ge_cases bo (q + 0)) as [C|C]; [exact C|].
      pose proof (mul_le_bs q bo bs ltac:(lia)). dlia.
Qed.

Lemma blockoffset_last_spec filesz bs : 0 < bs -> 0 < filesz ->
  blockoffset_last filesz bs = (filesz - 1) / bs.
Proof.
  intros H F. unfold blockoffset_last.
  destruct (N.eqb_spec filesz 0); [dlia|].
  pose proof (count_blocks_spec filesz bs H) as S.
  set (c := count_blocks filesz bs) in *.
  assert (C0 : 0 < c) by (apply S; lia).
  set (d := c - 1) in *.
  assert (EC : c = d + 1) by (subst d; lia).
  symmetry. apply div_eq_iff; [exact H|].
  assert (A : d * bs < filesz) by (apply S; lia).
  assert (B : ~ ((d + 1) * bs < filesz)) by (intro X; apply S in X; lia).
  rewrite mul_succ_bs in B. lia.
Qed.

Lemma blockoffset_last_ge filesz bs fo : 0 < bs -> fo < filesz -> fo / bs <= blockoffset_last filesz bs.
Proof.
  intros H F. rewrite blockoffset_last_spec by dlia. apply div_mono; dlia.
Qed.

(* DESIGN section 5: `length_block = blocksz_at_blockoffset` *)
Lemma blocksz_at_blockoffset_spec bs f bo : 0 < bs ->
  bo <= blockoffset_last (lenN f) bs ->
  blocksz_at_blockoffset bo (lenN f) bs = Some (lenN (block bs f bo)).
Proof.
  intros H L. unfold blocksz_at_blockoffset. rewrite lenN_block.
  destruct (N.ltb_spec (blockoffset_last (lenN f) bs) bo); [dlia|].
  destruct (N.eqb_spec (lenN f) 0) as [Z|Z].
  - rewrite Z. f_equal. dlia.
  - assert (F : 0 < lenN f) by dlia.
    pose proof (blockoffset_last_spec (lenN f) bs H F) as LS. rewrite LS in *.
    pose proof (div_mod_bs (lenN f - 1) bs H) as [E1 E2].
    set (q := (lenN f - 1) / bs) in *.
    destruct (N.eqb_spec bo q) as [Q|Q].
    + subst bo. set (bi := block_index_at_file_offset (lenN f - 1) bs) in *.
      destruct (N.eq_dec (bi + 1) bs) as [B|B].
      * assert (M : lenN f mod bs = 0).
        { replace (lenN f) with ((q + 1) * bs) by lia. apply N.mod_mul. lia. }
        rewrite M. cbn. f_equal. lia.
      * assert (M : lenN f mod bs = bi + 1).
        { symmetry. apply (N.mod_unique _ _ q); lia. }
        rewrite M. destruct (N.eqb_spec (bi + 1) 0); [lia|]. cbn. f_equal. lia.
    + f_equal. assert (BQ : bo < q) by lia. pose proof (mul_lt_bs bo q bs BQ). lia.
Qed.

Lemma lenN_block_pos bs f bo : 0 < bs -> bo * bs < lenN f -> 0 < lenN (block bs f bo).
Proof. intros H L. rewrite lenN_block. dlia. Qed.

Lemma lenN_block_full bs f bo : bo * bs + bs <= lenN f -> lenN (block bs f bo) = bs.
Proof. intro L. rewrite lenN_block. dlia. Qed.

Lemma lenN_block_le bs f bo : lenN (block bs f bo) <= bs.
Proof. rewrite lenN_block. dlia. Qed.

Lemma block_end_le bs f bo : bo * bs <= lenN f -> bo * bs + lenN (block bs f bo) <= lenN f.
Proof. intro L. rewrite lenN_block. dlia. Qed.

(* a block that is not the last one is full *)
Lemma lenN_block_not_last bs f bo : 0 < bs -> 0 < lenN f ->
  bo < blockoffset_last (lenN f) bs -> lenN (block bs f bo) = bs.
Proof.
  intros H F L. apply lenN_block_full.
  rewrite blockoffset_last_spec in L by assumption.
  pose proof (mul_lt_bs _ _ bs L). pose proof (div_le_mul (lenN f - 1) bs H). dlia.
Qed.

(* the last block ends at the end of the file *)
Lemma block_last_end bs f : 0 < bs -> 0 < lenN f ->
  let bo := blockoffset_last (lenN f) bs in
  bo * bs + lenN (block bs f bo) = lenN f.
Proof.
  intros H F bo. subst bo. rewrite blockoffset_last_spec by assumption.
  rewrite lenN_block.
  pose proof (div_le_mul (lenN f - 1) bs H). pose proof (div_lt_next (lenN f - 1) bs H). dlia.
Qed.

(* slices of a block are slices of the file *)
Lemma slice_block bs f bo b e : e <= bs ->
  slice (block bs f bo) b e = slice f (bo * bs + b) (bo * bs + e).
Proof.
  intro H. apply nthN_ext. intro i. rewrite !nthN_slice, nthN_block.
  replace (bo * bs + e - (bo * bs + b)) with (e - b) by dlia.
  destruct (N.ltb_spec i (e - b)); [|reflexivity].
  destruct (N.ltb_spec (b + i) bs); [|dlia]. f_equal. dlia.
Qed.

(* DESIGN section 5 `concat_chunk`: the blocks, in order, are the file *)
Fixpoint blocks_from (n : nat) (bs : N) (f : file) (bo : N) : list (list N) :=
  match n with
  | O => []
  | S k => block bs f bo :: blocks_from k bs f (bo + 1)
  end.

Lemma concat_blocks_from n bs f bo : 0 < bs ->
  concat (blocks_from n bs f bo) = slice f (bo * bs) (N.min (lenN f) ((bo + N.of_nat n) * bs)).
Proof.
  intro H. revert bo. induction n as [|n IH]; intro bo.
  - cbn [blocks_from concat]. unfold slice. replace (N.min _ _ - bo * bs) with 0 by dlia. reflexivity.
  - cbn [blocks_from concat]. rewrite IH.
    replace ((bo + 1 + N.of_nat n) * bs) with ((bo + N.of_nat (S n)) * bs) by dlia.
    set (hi := N.min (lenN f) ((bo + N.of_nat (S n)) * bs)).
    assert (M : (bo + 1) * bs <= (bo + N.of_nat (S n)) * bs) by (apply mul_le_bs; lia).
    destruct (N.le_gt_cases ((bo + 1) * bs) (lenN f)) as [C|C].
    + replace (block bs f bo) with (slice f (bo * bs) ((bo + 1) * bs)).
      * apply slice_app; subst hi; dlia.
      * unfold block, slice. f_equal. dlia.
    + (* the block reaches the end of the file *)
      assert (hi = lenN f) by (subst hi; lia). rewrite H0.
      replace (slice f ((bo + 1) * bs) (lenN f)) with (@nil N).
      * rewrite app_nil_r. unfold block, slice.
        apply nthN_ext. intro i. rewrite !nthN_firstnN, !nthN_skipnN.
        destruct (N.ltb_spec i bs); destruct (N.ltb_spec i (lenN f - bo * bs)); try reflexivity;
          try (apply nthN_None; lia); symmetry; apply nthN_None; lia.
      * unfold slice. replace (lenN f - (bo + 1) * bs) with 0 by dlia. reflexivity.
Qed.

Theorem concat_blocks bs f : 0 < bs ->
  concat (blocks_from (N.to_nat (count_blocks (lenN f) bs)) bs f 0) = f.
Proof.
  intro H. rewrite concat_blocks_from by exact H.
  rewrite Nnat.N2Nat.id, N.add_0_l, N.mul_0_l.
  replace (N.min _ _) with (lenN f); [apply slice_full|].
  pose proof (count_blocks_spec (lenN f) bs H (count_blocks (lenN f) bs)) as [_ S].
  destruct (N.le_gt_cases (lenN f) (count_blocks (lenN f) bs * bs)); [dlia|].
  apply S in H0. dlia.
Qed.

(* no intermediate of the helpers exceeds filesz + bs *)
Lemma helpers_bounded fo filesz bs : 0 < bs -> fo <= filesz ->
  block_offset_at_file_offset fo bs * bs <= filesz /\
  block_index_at_file_offset fo bs < bs /\
  count_blocks filesz bs * bs < filesz + bs.
Proof.
  intros H L. split; [|split].
  - unfold block_offset_at_file_offset. pose proof (div_le_mul fo bs H). dlia.
  - apply div_mod_bs. exact H.
  - unfold count_blocks.
    pose proof (N.div_mod filesz bs ltac:(lia)) as E. rewrite (N.mul_comm bs) in E.
    pose proof (N.mod_lt filesz bs ltac:(lia)).
    destruct (N.ltb_spec 0 (filesz mod bs)); dlia.
Qed.

(* ---------------------------------------------------------------- newline scans *)

Definition NL : N := 10.

(* index of the first newline of l (memchr) *)
Fixpoint find_nl (l : list N) : option N :=
  match l with
  | [] => None
  | x :: r => if x =? NL then Some 0 else option_map N.succ (find_nl r)
  end.

(* index of the last newline of l (memrchr) *)
Fixpoint rfind_nl (l : list N) : option N :=
  match l with
  | [] => None
  | x :: r => match rfind_nl r with
              | Some i => Some (i + 1)
              | None => if x =? NL then Some 0 else None
              end
  end.

Lemma find_nl_Some l d : find_nl l = Some d ->
  nthN l d = Some NL /\ forall k, k < d -> nthN l k <> Some NL.
Proof.
  revert d; induction l as [|x l IH]; intros d H; [discriminate|].
  cbn [find_nl] in H. destruct (N.eqb_spec x NL) as [E|E].
  - inversion H; subst. split; [reflexivity | intros k K; lia].
  - destruct (find_nl l) as [d'|]; [|discriminate]. inversion H; subst.
    destruct (IH d' eq_refl) as [A B]. split.
    + rewrite <- N.add_1_r. rewrite nthN_succ_cons. exact A.
    + intros k K. destruct (N.eq_dec k 0) as [->|K0].
      * cbn. congruence.
      * rewrite nthN_cons_pos by lia. apply B. lia.
Qed.

Lemma find_nl_None l : find_nl l = None -> forall k, nthN l k <> Some NL.
Proof.
  induction l as [|x l IH]; intros H k.
  - unfold nthN. destruct (N.to_nat k); discriminate.
  - cbn [find_nl] in H. destruct (N.eqb_spec x NL) as [E|E]; [discriminate|].
    destruct (find_nl l); [discriminate|].
    destruct (N.eq_dec k 0) as [->|K0].
    + cbn. congruence.
    + rewrite nthN_cons_pos by lia. apply IH. reflexivity.
Qed.

Lemma rfind_nl_Some l i : rfind_nl l = Some i ->
  nthN l i = Some NL /\ forall k, i < k -> nthN l k <> Some NL.
Proof.
  revert i; induction l as [|x l IH]; intros i H; [discriminate|].
  cbn [rfind_nl] in H. destruct (rfind_nl l) as [j|] eqn:R.
  - inversion H; subst. destruct (IH j eq_refl) as [A B]. split.
    + rewrite nthN_succ_cons. exact A.
    + intros k K. rewrite nthN_cons_pos by lia. apply B. lia.
  - destruct (N.eqb_spec x NL) as [E|E]; [|discriminate]. inversion H; subst. split; [reflexivity|].
    intros k K. rewrite nthN_cons_pos by lia.
    clear - R. revert R. generalize (k - 1). induction l as [|y l IH]; intros n R.
    + unfold nthN. destruct (N.to_nat n); discriminate.
    + cbn [rfind_nl] in R. destruct (rfind_nl l); [discriminate|].
      destruct (N.eqb_spec y NL); [discriminate|].
      destruct (N.eq_dec n 0) as [->|N0]; [cbn; congruence|].
      rewrite nthN_cons_pos by lia. apply IH. reflexivity.
Qed.

Lemma rfind_nl_None l : rfind_nl l = None -> forall k, nthN l k <> Some NL.
Proof.
  induction l as [|y l IH]; intros R n.
  - unfold nthN. destruct (N.to_nat n); discriminate.
  - cbn [rfind_nl] in R. destruct (rfind_nl l); [discriminate|].
    destruct (N.eqb_spec y NL); [discriminate|].
    destruct (N.eq_dec n 0) as [->|N0]; [cbn; congruence|].
    rewrite nthN_cons_pos by lia. apply IH. reflexivity.
Qed.
