(* Base/Bytes.v — bytes are [N]; byte strings are [list N].
   Helpers shared by every model: hex decoding of case files, ASCII case
   mapping, conversion from Coq [string] literals (used by generated tables). *)
From Coq Require Import Ascii String.
From Coq Require Export List NArith ZArith Bool Lia.
Export ListNotations.
Open Scope N_scope.

Definition byte := N.
Definition bytes := list N.

Definition s2b (s : string) : bytes :=
  map (fun a => N_of_ascii a) (list_ascii_of_string s).

(* one hex digit; anything else counts as 0 (case files are machine written) *)
Definition hexval (a : ascii) : N :=
  let n := N_of_ascii a in
  if (48 <=? n) && (n <=? 57) then n - 48
  else if (97 <=? n) && (n <=? 102) then n - 87
  else if (65 <=? n) && (n <=? 70) then n - 55
  else 0.

Fixpoint unhex (s : string) : bytes :=
  match s with
  | String a (String b r) => (16 * hexval a + hexval b) :: unhex r
  | _ => []
  end.

Definition is_upper (b : N) : bool := (65 <=? b) && (b <=? 90).
Definition lower (b : N) : N := if is_upper b then b + 32 else b.
Definition lower_bytes (l : bytes) : bytes := map lower l.

Fixpoint beqb (a b : bytes) : bool :=
  match a, b with
  | [], [] => true
  | x :: a', y :: b' => (x =? y) && beqb a' b'
  | _, _ => false
  end.

Lemma beqb_eq a b : beqb a b = true <-> a = b.
Proof.
  revert b; induction a as [|x a IH]; intros [|y b]; simpl; split; intro H;
    try reflexivity; try discriminate.
  - apply andb_true_iff in H as [H1 H2]. apply N.eqb_eq in H1. apply IH in H2. congruence.
  - inversion H; subst. rewrite N.eqb_refl. simpl. apply IH. reflexivity.
Qed.

Lemma beqb_refl a : beqb a a = true.
Proof. apply beqb_eq. reflexivity. Qed.

Fixpoint assoc {A} (k : bytes) (t : list (bytes * A)) : option A :=
  match t with
  | [] => None
  | (k', v) :: r => if beqb k k' then Some v else assoc k r
  end.
