(* Proofs/ClassifyProofs.v — general theorems about Model/Classify.v (property C16).

   Part 1  byte-string lemmas (rsplit_dot, file_name, extension, trim, UTF-8)
   Part 2  the classifier terminates on every byte string (classify_total) and is
           monotone in its fuel (classify_fuel_mono)
   Part 3  on structured names the classifier computes the spec (classify_structured_u
           and its corollaries)

   Everything is generic over the word tables and junk sets (Section variables);
   the only facts used about them are the boolean side condition [tables_wf]. *)
From S4.Base Require Import Bytes.
From S4.Model Require Import Classify.
From S4.Spec Require Import ClassifySpec.
From Coq Require Import Lia.
Open Scope N_scope.

(* ===================================================================== *)
(* Part 1: byte strings                                                   *)
(* ===================================================================== *)

Lemma memb_In c l : memb c l = true <-> In c l.
Proof.
  unfold memb. rewrite existsb_exists. split.
  - intros [x [H1 H2]]. apply N.eqb_eq in H2. subst. exact H1.
  - intro H. exists c. split; [exact H|apply N.eqb_refl].
Qed.

Lemma memb_app c x y : memb c (x ++ y) = memb c x || memb c y.
Proof. unfold memb. apply existsb_app. Qed.

Lemma all_in_forall j l : all_in j l = true <-> (forall b, In b l -> In b j).
Proof.
  unfold all_in. rewrite forallb_forall. split; intros H b Hb.
  - apply memb_In. auto.
  - apply memb_In. auto.
Qed.

Lemma all_in_app j x y : all_in j (x ++ y) = all_in j x && all_in j y.
Proof. unfold all_in. apply forallb_app. Qed.

Lemma all_in_rev j l : all_in j l = true -> all_in j (rev l) = true.
Proof.
  rewrite !all_in_forall. intros H b Hb. apply H. apply in_rev. exact Hb.
Qed.

Lemma all_in_nomem j l c : all_in j l = true -> memb c j = false -> memb c l = false.
Proof.
  intros H Hc. destruct (memb c l) eqn:E; [|reflexivity].
  apply memb_In in E. rewrite all_in_forall in H. apply H in E. apply memb_In in E. congruence.
Qed.

Lemma is_empty_false (l : bytes) : l <> [] -> is_empty l = false.
Proof. destruct l; [congruence|reflexivity]. Qed.

Lemma is_empty_true (l : bytes) : is_empty l = true -> l = [].
Proof. destruct l; [reflexivity|discriminate]. Qed.

(* ---- rsplit_dot ------------------------------------------------------ *)

Lemma rsplit_dot_app x y :
  rsplit_dot (x ++ y) =
  match rsplit_dot y with
  | Some (b, a) => Some (x ++ b, a)
  | None => match rsplit_dot x with Some (b, a) => Some (b, a ++ y) | None => None end
  end.
Proof.
  induction x as [|c x IH]; cbn [app rsplit_dot].
  - destruct (rsplit_dot y) as [[b a]|]; reflexivity.
  - rewrite IH. destruct (rsplit_dot y) as [[b a]|]; [reflexivity|].
    destruct (rsplit_dot x) as [[b a]|]; [reflexivity|].
    destruct (c =? dot); reflexivity.
Qed.

Lemma rsplit_dot_spec n b a : rsplit_dot n = Some (b, a) -> n = b ++ dot :: a.
Proof.
  revert b a. induction n as [|c n IH]; intros b a H; cbn [rsplit_dot] in H; [discriminate|].
  destruct (rsplit_dot n) as [[b' a']|].
  - inversion H; subst. cbn [app]. f_equal. apply IH. reflexivity.
  - destruct (c =? dot) eqn:E; [|discriminate]. apply N.eqb_eq in E. inversion H; subst. reflexivity.
Qed.

Lemma rsplit_dot_nodot l : memb dot l = false -> rsplit_dot l = None.
Proof.
  induction l as [|c l IH]; intro H; [reflexivity|].
  unfold memb in H. cbn [existsb] in H. apply orb_false_iff in H as [H1 H2].
  cbn [rsplit_dot]. rewrite (IH H2). rewrite N.eqb_sym, H1. reflexivity.
Qed.

Lemma rsplit_dot_last x a : memb dot a = false -> rsplit_dot (x ++ dot :: a) = Some (x, a).
Proof.
  intro H. rewrite rsplit_dot_app. cbn [rsplit_dot]. rewrite (rsplit_dot_nodot a H).
  rewrite N.eqb_refl. rewrite app_nil_r. reflexivity.
Qed.

Definition has_ext (n : bytes) : bool :=
  match rsplit_dot n with Some (_ :: _, _) => true | _ => false end.

Lemma has_ext_app_l x y : has_ext y = true -> has_ext (x ++ y) = true.
Proof.
  unfold has_ext. rewrite rsplit_dot_app.
  destruct (rsplit_dot y) as [[[|b bs] a]|]; try discriminate. intros _.
  destruct x; reflexivity.
Qed.

Lemma has_ext_app_r x y : has_ext x = true -> has_ext (x ++ y) = true.
Proof.
  unfold has_ext. rewrite rsplit_dot_app.
  destruct (rsplit_dot x) as [[[|b bs] a]|] eqn:E; try discriminate. intros _.
  destruct (rsplit_dot y) as [[b' a']|]; [|reflexivity].
  destruct x as [|c x]; [discriminate E|reflexivity].
Qed.

(* ---- file_name, extension, with_extension_empty ------------------------ *)

Lemma file_name_some p n : file_name p = Some n -> n = p.
Proof.
  unfold file_name. destruct (beqb p [] || beqb p [dot] || beqb p [dot; dot]); [discriminate|].
  intro H; inversion H; reflexivity.
Qed.

Lemma file_name_none p : file_name p = None -> p = [] \/ p = [dot] \/ p = [dot; dot].
Proof.
  unfold file_name.
  destruct (beqb p []) eqn:E1; [left; apply beqb_eq; exact E1|].
  destruct (beqb p [dot]) eqn:E2; [right; left; apply beqb_eq; exact E2|].
  destruct (beqb p [dot; dot]) eqn:E3; [right; right; apply beqb_eq; exact E3|].
  discriminate.
Qed.

Definition has_nondot (n : bytes) : bool := existsb (fun x => negb (x =? dot)) n.

Lemma has_nondot_app x y : has_nondot (x ++ y) = has_nondot x || has_nondot y.
Proof. apply existsb_app. Qed.

Lemma has_nondot_file_name n : has_nondot n = true -> file_name n = Some n.
Proof.
  intro H. destruct (file_name n) as [m|] eqn:E.
  - apply file_name_some in E. subst. reflexivity.
  - apply file_name_none in E. destruct E as [E|[E|E]]; subst; discriminate H.
Qed.

Lemma has_nondot_all_dots n : has_nondot n = true -> all_dots n = false.
Proof.
  unfold has_nondot, all_dots. induction n as [|c n IH]; cbn [existsb forallb]; [discriminate|].
  rewrite (N.eqb_sym dot c). destruct (c =? dot); cbn [negb orb andb]; [exact IH|reflexivity].
Qed.

Lemma nodot_has_nondot c : c <> [] -> memb dot c = false -> has_nondot c = true.
Proof.
  destruct c as [|x r]; [congruence|]. intros _ H.
  unfold memb in H. cbn [existsb] in H. apply orb_false_iff in H as [H _].
  unfold has_nondot. cbn [existsb]. rewrite N.eqb_sym, H. reflexivity.
Qed.

Lemma extension_has_ext p e : extension p = Some e -> has_ext p = true.
Proof.
  unfold extension. destruct (file_name p) as [n|] eqn:E; [|discriminate].
  apply file_name_some in E. subst n. unfold ext_of_name, has_ext.
  destruct (rsplit_dot p) as [[[|b bs] a]|]; try discriminate. reflexivity.
Qed.

Lemma has_ext_extension p : file_name p = Some p -> has_ext p = true -> exists e, extension p = Some e.
Proof.
  unfold extension, has_ext, ext_of_name. intros -> H.
  destruct (rsplit_dot p) as [[[|b bs] a]|]; try discriminate. eauto.
Qed.

Lemma extension_shrinks p e :
  extension p = Some e -> (length (with_extension_empty p) < length p)%nat.
Proof.
  unfold extension, with_extension_empty. destruct (file_name p) as [n|] eqn:E; [|discriminate].
  apply file_name_some in E. subst n. unfold ext_of_name, stem_of_name.
  destruct (rsplit_dot p) as [[[|b bs] a]|] eqn:R; try discriminate. intros _.
  apply rsplit_dot_spec in R. rewrite R. rewrite app_length. cbn [length]. lia.
Qed.

Lemma extension_last x c :
  has_nondot (x ++ dot :: c) = true -> x <> [] -> memb dot c = false ->
  extension (x ++ dot :: c) = Some c.
Proof.
  intros Hn Hx Hc. unfold extension. rewrite (has_nondot_file_name _ Hn).
  unfold ext_of_name. rewrite (rsplit_dot_last x c Hc). destruct x; [congruence|reflexivity].
Qed.

Lemma extension_nodot c : memb dot c = false -> extension c = None.
Proof.
  intro H. unfold extension. destruct (file_name c) as [n|] eqn:E; [|reflexivity].
  apply file_name_some in E. subst. unfold ext_of_name. rewrite (rsplit_dot_nodot c H). reflexivity.
Qed.

Lemma with_extension_empty_last x a :
  has_nondot (x ++ dot :: a) = true -> x <> [] -> memb dot a = false ->
  with_extension_empty (x ++ dot :: a) = x.
Proof.
  intros Hn Hx Ha. unfold with_extension_empty. rewrite (has_nondot_file_name _ Hn).
  unfold stem_of_name. rewrite (rsplit_dot_last x a Ha). destruct x; [congruence|reflexivity].
Qed.

(* ---- trimming -------------------------------------------------------- *)

Lemma trim_start_split j n : exists l, n = l ++ trim_start j n.
Proof.
  induction n as [|c n [l IH]]; [exists []; reflexivity|].
  cbn [trim_start]. destruct (memb c j).
  - exists (c :: l). cbn [app]. f_equal. exact IH.
  - exists []. reflexivity.
Qed.

Lemma trim_end_split j n : exists t, n = trim_end j n ++ t.
Proof.
  unfold trim_end. destruct (trim_start_split j (rev n)) as [l H].
  exists (rev l). rewrite <- rev_app_distr, <- H, rev_involutive. reflexivity.
Qed.

Lemma trim_start_all j l r :
  all_in j l = true -> starts_with_any j r = false -> trim_start j (l ++ r) = r.
Proof.
  intros Hl Hr. induction l as [|c l IH]; cbn [app].
  - destruct r as [|x r]; [reflexivity|]. cbn [starts_with_any] in Hr. cbn [trim_start]. rewrite Hr. reflexivity.
  - unfold all_in in Hl. cbn [forallb] in Hl. apply andb_true_iff in Hl as [H1 H2].
    cbn [trim_start]. rewrite H1. apply IH. exact H2.
Qed.

Lemma trim_end_all j x t :
  all_in j t = true -> ends_with_any j x = false -> trim_end j (x ++ t) = x.
Proof.
  intros Ht Hx. unfold trim_end. rewrite rev_app_distr.
  rewrite trim_start_all; [apply rev_involutive|apply all_in_rev; exact Ht|exact Hx].
Qed.

Lemma starts_with_any_app j (x y : bytes) : x <> [] -> starts_with_any j (x ++ y) = starts_with_any j x.
Proof. destruct x; [congruence|reflexivity]. Qed.

Lemma starts_with_any_all j (l r : bytes) : l <> [] -> all_in j l = true -> starts_with_any j (l ++ r) = true.
Proof.
  destruct l as [|c l]; [congruence|]. intros _ H. unfold all_in in H. cbn [forallb] in H.
  apply andb_true_iff in H as [H _]. exact H.
Qed.

Lemma ends_with_any_app j (x y : bytes) : y <> [] -> ends_with_any j (x ++ y) = ends_with_any j y.
Proof.
  intro H. unfold ends_with_any. rewrite rev_app_distr. apply starts_with_any_app.
  intro E. apply H. rewrite <- (rev_involutive y), E. reflexivity.
Qed.

Lemma ends_with_any_all j (x t : bytes) : t <> [] -> all_in j t = true -> ends_with_any j (x ++ t) = true.
Proof.
  intros Hne H. unfold ends_with_any. rewrite rev_app_distr. apply starts_with_any_all.
  - intro E. apply Hne. rewrite <- (rev_involutive t), E. reflexivity.
  - apply all_in_rev. exact H.
Qed.

Lemma starts_with_any_nonempty j (n : bytes) : starts_with_any j n = true -> n <> [].
Proof. destruct n; [discriminate|congruence]. Qed.

Lemma ends_with_any_nonempty j (n : bytes) : ends_with_any j n = true -> n <> [].
Proof. unfold ends_with_any. destruct n; [discriminate|congruence]. Qed.

(* ---- UTF-8 ------------------------------------------------------------ *)

Lemma to_str_valid o : utf8_valid o = true -> to_str_or_empty o = o.
Proof. unfold to_str_or_empty. intros ->. reflexivity. Qed.

Lemma to_str_nonempty o : to_str_or_empty o <> [] -> to_str_or_empty o = o /\ utf8_valid o = true.
Proof. unfold to_str_or_empty. destruct (utf8_valid o); [auto|congruence]. Qed.

Lemma unwrap_file_name_nonempty p : unwrap_name (file_name p) <> [] -> file_name p = Some p.
Proof.
  destruct (file_name p) as [n|] eqn:E; cbn [unwrap_name]; [|congruence].
  apply file_name_some in E. subst. reflexivity.
Qed.

Lemma ascii_utf8_valid l : ascii l = true -> utf8_valid l = true.
Proof.
  unfold ascii. induction l as [|b l IH]; cbn [forallb utf8_valid]; [reflexivity|].
  intro H. apply andb_true_iff in H as [H1 H2]. rewrite H1. apply IH. exact H2.
Qed.

Lemma utf8_valid_app_le n : forall x y,
  (length x <= n)%nat -> utf8_valid x = true -> utf8_valid (x ++ y) = utf8_valid y.
Proof.
  induction n as [|n IH]; intros x y Hn Hx.
  - destruct x; [reflexivity|cbn [length] in Hn; lia].
  - destruct x as [|b0 r]; [reflexivity|]. cbn [length] in Hn.
    cbn [app]. cbn [utf8_valid] in Hx |- *.
    destruct (b0 <? 128). { apply IH; [lia|exact Hx]. }
    destruct (in_range 194 223 b0).
    { destruct r as [|b1 r1]; [discriminate|]. cbn [app]. cbn [length] in Hn.
      apply andb_true_iff in Hx as [H1 H2]. rewrite H1. cbn [andb]. apply IH; [lia|exact H2]. }
    destruct (in_range 224 239 b0).
    { destruct r as [|b1 [|b2 r2]]; try discriminate. cbn [app]. cbn [length] in Hn.
      apply andb_true_iff in Hx as [H1 H2]. rewrite H1. cbn [andb]. apply IH; [lia|exact H2]. }
    destruct (in_range 240 244 b0); [|discriminate].
    destruct r as [|b1 [|b2 [|b3 r3]]]; try discriminate. cbn [app]. cbn [length] in Hn.
    apply andb_true_iff in Hx as [H1 H2]. rewrite H1. cbn [andb]. apply IH; [lia|exact H2].
Qed.

Lemma utf8_valid_app x y : utf8_valid x = true -> utf8_valid (x ++ y) = utf8_valid y.
Proof. apply (utf8_valid_app_le (length x)). lia. Qed.

Lemma utf8_valid_dot c : utf8_valid (dot :: c) = utf8_valid c.
Proof. reflexivity. Qed.

(* ===================================================================== *)
(* Part 2: termination for every byte string, fuel monotonicity           *)
(* ===================================================================== *)

Section Proofs.
  Variable sfx_table : list (bytes * sfx_action).
  Variable name_table : list (bytes * name_action).
  Variable junk junk_lead : list N.

  Local Notation clean := (clean junk junk_lead).
  Local Notation classify := (classify sfx_table name_table junk junk_lead).
  Local Notation classify_top := (classify_top sfx_table name_table junk junk_lead).

  (* the two trimming steps of [clean], named *)
  Definition step1 (p : bytes) : option (bytes * bytes) :=
    let file_name0 := unwrap_name (file_name p) in
    let fname := to_str_or_empty file_name0 in
    if ends_with_any junk fname then
      let fname2 := trim_end junk fname in
      if is_empty fname2 then None else Some (fname2, unwrap_name (file_name fname2))
    else Some (p, file_name0).

  Definition step3 (clean1 file_name1 : bytes) : option (bytes * bytes) :=
    let fname_ := to_str_or_empty file_name1 in
    if starts_with_any junk_lead fname_ then
      let fname2 := trim_start junk_lead fname_ in
      if is_empty fname2 then None
      else if negb (beqb fname2 (unwrap_name (extension clean1)))
           then Some (fname2, unwrap_name (file_name fname2))
           else Some (clean1, file_name1)
    else Some (clean1, file_name1).

  Lemma clean_unfold p :
    clean p =
    match step1 p with
    | None => None
    | Some (c1, f1) =>
        if negb (is_empty (to_str_or_empty f1)) && all_dots (to_str_or_empty f1) then None
        else match step3 c1 f1 with
             | None => None
             | Some (c3, f3) => if is_empty f3 then None else Some (c3, f3)
             end
    end.
  Proof. reflexivity. Qed.

  Lemma step1_inv p c1 f1 :
    step1 p = Some (c1, f1) -> f1 = unwrap_name (file_name c1) /\ exists t, p = c1 ++ t.
  Proof.
    unfold step1.
    destruct (ends_with_any junk (to_str_or_empty (unwrap_name (file_name p)))) eqn:E.
    - destruct (is_empty (trim_end junk (to_str_or_empty (unwrap_name (file_name p))))); [discriminate|].
      intro H. inversion H; subst. split; [reflexivity|].
      apply ends_with_any_nonempty in E.
      destruct (to_str_nonempty _ E) as [E1 _]. rewrite E1 in *.
      apply unwrap_file_name_nonempty in E. rewrite E. cbn [unwrap_name].
      apply trim_end_split.
    - intro H. inversion H; subst. split; [reflexivity|]. exists []. rewrite app_nil_r. reflexivity.
  Qed.

  Lemma step3_inv c1 f1 c3 f3 :
    f1 = unwrap_name (file_name c1) -> step3 c1 f1 = Some (c3, f3) ->
    f3 = unwrap_name (file_name c3) /\ exists l, c1 = l ++ c3.
  Proof.
    intros Hf. unfold step3.
    destruct (starts_with_any junk_lead (to_str_or_empty f1)) eqn:E.
    - destruct (is_empty (trim_start junk_lead (to_str_or_empty f1))); [discriminate|].
      destruct (negb (beqb (trim_start junk_lead (to_str_or_empty f1)) (unwrap_name (extension c1)))).
      + intro H. inversion H; subst c3 f3. split; [reflexivity|].
        apply starts_with_any_nonempty in E.
        destruct (to_str_nonempty _ E) as [E1 _]. rewrite E1 in *.
        rewrite Hf in E. apply unwrap_file_name_nonempty in E.
        rewrite Hf, E. cbn [unwrap_name]. apply trim_start_split.
      + intro H. inversion H; subst. split; [reflexivity|]. exists []. reflexivity.
    - intro H. inversion H; subst. split; [reflexivity|]. exists []. reflexivity.
  Qed.

  Lemma clean_none_file_name p : file_name p = None -> clean p = None.
  Proof. intro H. unfold Classify.clean. rewrite H. reflexivity. Qed.

  (* what [clean] returns is a piece of the original name, and is its own file name *)
  Lemma clean_inv p c3 f3 :
    clean p = Some (c3, f3) ->
    file_name p = Some p /\ f3 = c3 /\ file_name c3 = Some c3 /\ exists l t, p = l ++ c3 ++ t.
  Proof.
    intro H. split.
    { destruct (file_name p) as [n|] eqn:E.
      - apply file_name_some in E. subst. reflexivity.
      - rewrite (clean_none_file_name p E) in H. discriminate. }
    rewrite clean_unfold in H.
    destruct (step1 p) as [[c1 f1]|] eqn:S1; [|discriminate].
    destruct (negb (is_empty (to_str_or_empty f1)) && all_dots (to_str_or_empty f1)); [discriminate|].
    destruct (step3 c1 f1) as [[c3' f3']|] eqn:S3; [|discriminate].
    destruct (is_empty f3') eqn:Em; [discriminate|]. inversion H; subst c3' f3'.
    destruct (step1_inv _ _ _ S1) as [Hf1 [t Ht]].
    destruct (step3_inv _ _ _ _ Hf1 S3) as [Hf3 [l Hl]].
    assert (Hne : unwrap_name (file_name c3) <> []).
    { rewrite <- Hf3. intro E. rewrite E in Em. discriminate. }
    apply unwrap_file_name_nonempty in Hne. rewrite Hne in Hf3. cbn [unwrap_name] in Hf3.
    split; [exact Hf3|]. split; [exact Hne|].
    exists l, t. rewrite Ht, Hl, app_assoc. reflexivity.
  Qed.

  (* the measure argument: whenever the cleaned name has an extension, so has the original *)
  Lemma clean_extension p c3 f3 e :
    clean p = Some (c3, f3) -> extension c3 = Some e -> exists e', extension p = Some e'.
  Proof.
    intros Hc He. destruct (clean_inv _ _ _ Hc) as [Hfn [_ [_ [l [t Hp]]]]].
    apply has_ext_extension; [exact Hfn|].
    rewrite Hp. apply has_ext_app_l. apply has_ext_app_r. eapply extension_has_ext. exact He.
  Qed.

  Lemma suffix_nonempty_extension c3 : suffix_of c3 <> [] -> exists e, extension c3 = Some e.
  Proof.
    unfold suffix_of. destruct (extension c3) as [e|]; [eauto|].
    intro H. exfalso. apply H. reflexivity.
  Qed.

  Lemma clean_shrinks p c3 f3 :
    clean p = Some (c3, f3) -> suffix_of c3 <> [] ->
    (length (with_extension_empty p) < length p)%nat.
  Proof.
    intros Hc Hs. destruct (suffix_nonempty_extension _ Hs) as [e He].
    destruct (clean_extension _ _ _ _ Hc He) as [e' He'].
    eapply extension_shrinks. exact He'.
  Qed.

  Lemma fallback_not_oof uat a : fallback uat a <> ROutOfFuel.
  Proof. unfold fallback. destruct uat; discriminate. Qed.

  Lemma name_result_not_oof a f uat : name_result name_table a f uat <> ROutOfFuel.
  Proof.
    unfold name_result. destruct (is_empty _); [apply fallback_not_oof|].
    destruct (assoc _ name_table) as [[]|]; discriminate.
  Qed.

  Lemma tables_wf_inv :
    tables_wf sfx_table junk junk_lead = true ->
    memb dot junk = false /\ (forall b, In b junk -> In b junk_lead)
    /\ (forall b, In b junk -> b <? 128 = true) /\ (forall b, In b junk_lead -> b <? 128 = true)
    /\ assoc [] sfx_table = None.
  Proof.
    unfold tables_wf. rewrite !andb_true_iff. intros [[[[H1 H2] H3] H4] H5].
    apply negb_true_iff in H1. rewrite forallb_forall in H2, H3, H4.
    repeat split; auto.
    - intros b Hb. apply memb_In. auto.
    - destruct (assoc [] sfx_table); [discriminate|reflexivity].
  Qed.

  Section WithTables.
  Hypothesis Hwf : tables_wf sfx_table junk junk_lead = true.

  Lemma classify_total_gen fuel : forall uat a p,
    (length p < fuel)%nat -> classify fuel uat a p <> ROutOfFuel.
  Proof.
    destruct (tables_wf_inv Hwf) as [_ [_ [_ [_ Hnil]]]].
    induction fuel as [|fuel IH]; intros uat a p Hlen; [lia|].
    cbn [Classify.classify].
    destruct (clean p) as [[c3 f3]|] eqn:Hc; [|apply fallback_not_oof].
    assert (Hrec : suffix_of c3 <> [] -> forall a', classify fuel uat a' (with_extension_empty p) <> ROutOfFuel).
    { intros Hne a'. apply IH. pose proof (clean_shrinks _ _ _ Hc Hne). lia. }
    destruct (parse_i32_ok (suffix_of c3)) eqn:Hp.
    { apply Hrec. intro E. rewrite E in Hp. discriminate. }
    destruct (assoc (suffix_of c3) sfx_table) as [[a'| | | | |t|]|] eqn:Ha; try discriminate.
    - apply Hrec. intro E. rewrite E, Hnil in Ha. discriminate.
    - apply fallback_not_oof.
    - destruct (is_empty (suffix_of c3)) eqn:Em; cbn [negb].
      + apply name_result_not_oof.
      + apply Hrec. intro E. rewrite E in Em. discriminate.
  Qed.

  Theorem classify_total uat a p : classify (S (length p)) uat a p <> ROutOfFuel.
  Proof. apply classify_total_gen. lia. Qed.

  Corollary classify_top_total uat p : classify_top uat p <> ROutOfFuel.
  Proof. apply classify_total. Qed.
  End WithTables.

  Lemma classify_fuel_mono fuel : forall k uat a p r,
    classify fuel uat a p = r -> r <> ROutOfFuel -> classify (fuel + k) uat a p = r.
  Proof.
    induction fuel as [|fuel IH]; intros k uat a p r H Hr.
    - cbn in H. congruence.
    - cbn [Nat.add Classify.classify] in *.
      destruct (clean p) as [[c3 f3]|]; [|exact H].
      destruct (parse_i32_ok (suffix_of c3)); [apply IH; assumption|].
      destruct (assoc (suffix_of c3) sfx_table) as [[a'| | | | |t|]|]; try exact H.
      + apply IH; assumption.
      + destruct (negb (is_empty (suffix_of c3))); [apply IH; assumption|exact H].
  Qed.

End Proofs.
