(* Proofs/RetainCachesLayout.v — property C17: the agreement of Model/Caches.v and Model/Retain.v
   (Proofs/RetainCachesAgree.v) for EVERY layout: the file layout_file layout, read with the oracle
   dD, realises the message sequence layout_msgs bs layout; the bounds and the findings of the
   retained-set model carried over to the cache machine. *)
From Coq Require Import List NArith ZArith Bool Sorted Lia.
Import ListNotations.
From S4.Base Require Import Bytes Chunk.
From S4.Spec Require Import LinesSpec.
From S4.Model Require Import Lines Syslines Caches RetainCaches.
From S4.Proofs Require Import LinesProofs CachesProofs CachesRunProofs RetainCachesEffects RetainCachesAgree.
From S4.Model Require Retain.
From S4.Proofs Require RetainProofs RetainLayout RetainLag RetainKeepsUp.
Open Scope N_scope.

(* ------------------------------------------------------------------ the bytes of one line *)
Lemma fillN_len n : lenN (fillN n) = n.
Proof. unfold fillN, lenN. rewrite repeat_length. lia. Qed.

Lemma fillN_nth n k x : nthN (fillN n) k = Some x -> x = 97.
Proof.
  unfold fillN, nthN. intros H. apply nth_error_In in H. apply repeat_spec in H. exact H.
Qed.

Lemma lb_len x : 1 <= fst x -> lenN (line_bytes x) = fst x.
Proof.
  destruct x as [len d]. cbn [fst line_bytes]. intros H. destruct (N.leb_spec len 1).
  - unfold lenN. cbn. lia.
  - rewrite lenN_cons, lenN_app, fillN_len. unfold lenN. cbn [length]. lia.
Qed.

Lemma lb_last x : 1 <= fst x -> nthN (line_bytes x) (fst x - 1) = Some NL.
Proof.
  destruct x as [len d]. cbn [fst line_bytes]. intros H. destruct (N.leb_spec len 1).
  - replace (len - 1) with 0 by lia. reflexivity.
  - rewrite nthN_cons_pos by lia. rewrite nthN_app_r by (rewrite fillN_len; lia). rewrite fillN_len.
    replace (len - 1 - 1 - (len - 2)) with 0 by lia. reflexivity.
Qed.

Lemma lb_noNL x k : k + 1 < fst x -> nthN (line_bytes x) k <> Some NL.
Proof.
  destruct x as [len d]. cbn [fst line_bytes]. intros H. destruct (N.leb_spec len 1); [lia|].
  destruct (N.eq_dec k 0) as [->|Hk].
  - rewrite nthN_0_cons. destruct d; discriminate.
  - rewrite nthN_cons_pos by lia. rewrite nthN_app_l by (rewrite fillN_len; lia).
    intros X. apply fillN_nth in X. discriminate.
Qed.

Lemma lb_dD x : (snd x = true -> 2 <= fst x) -> dD (line_bytes x) = if snd x then Some 0%Z else None.
Proof.
  destruct x as [len d]. cbn [fst snd line_bytes]. intros H. destruct (N.leb_spec len 1).
  - destruct d; [specialize (H eq_refl); lia|reflexivity].
  - destruct d; reflexivity.
Qed.

Lemma slice_mid {A} (a b c : list A) : slice (a ++ b ++ c) (lenN a) (lenN a + lenN b) = b.
Proof.
  apply nthN_ext. intros i. rewrite nthN_slice. replace (lenN a + lenN b - lenN a) with (lenN b) by lia.
  destruct (N.ltb_spec i (lenN b)).
  - rewrite nthN_app_r by lia. replace (lenN a + i - lenN a) with i by lia. rewrite nthN_app_l by lia. reflexivity.
  - symmetry. apply nthN_None. exact H.
Qed.

(* ------------------------------------------------------------------ the lines of layout_file are the spans of the layout *)
Definition dated_long (layout : list (N * bool)) : Prop := Forall (fun x => snd x = true -> 2 <= fst x) layout.

Lemma spans_real bs L : 0 < bs -> forall pre off key, RY.lens_pos L -> dated_long L -> off = lenN pre ->
  (pre = [] \/ nthN pre (off - 1) = Some NL) ->
  Forall (fun x : R.lspan * bool => lreal bs (pre ++ layout_file L) (fst x) /\
                   dD (slice (pre ++ layout_file L) (R.lbeg (fst x)) (R.lend (fst x) + 1)) = (if snd x then Some 0%Z else None))
         (R.spans bs off key L).
Proof.
  intros Hbs. induction L as [|[len d] r IH]; intros pre off key Hl Hd Hoff Hpre; [constructor|].
  apply Forall_cons_iff in Hl as [Hlen Hl]. apply Forall_cons_iff in Hd as [Hd0 Hd]. cbn [fst snd] in Hlen, Hd0.
  rewrite RY.spans_head. unfold layout_file. cbn [flat_map]. fold (layout_file r).
  set (lb := line_bytes (len, d)). set (f := pre ++ lb ++ layout_file r).
  assert (Llb : lenN lb = len) by (apply (lb_len (len, d)); exact Hlen).
  assert (Lf : lenN f = off + len + lenN (layout_file r)) by (unfold f; rewrite !lenN_app, Llb; lia).
  assert (Hnth : forall j, j < len -> nthN f (off + j) = nthN lb j).
  { intros j Hj. unfold f. rewrite nthN_app_r by lia. replace (off + j - lenN pre) with j by lia. apply nthN_app_l. lia. }
  constructor.
  - unfold lreal. cbn [fst snd R.lbeg R.lend R.lfb R.llb]. split.
    + split; [|split; reflexivity]. unfold span. splits; try lia.
      * intros k K1 K2. replace k with (off + (k - off)) by lia. rewrite Hnth by lia. apply (lb_noNL (len, d)). cbn [fst]. lia.
      * left. replace (off + len - 1) with (off + (len - 1)) by lia. rewrite Hnth by lia. apply (lb_last (len, d)). exact Hlen.
      * destruct Hpre as [->|Hp]; [left; cbn in Hoff; lia|right].
        pose proof (nthN_Some_lt _ _ _ Hp). unfold f. rewrite nthN_app_l by lia. exact Hp.
    + replace (off + len - 1 + 1) with (lenN pre + lenN lb) by lia. rewrite Hoff. unfold f. rewrite slice_mid.
      apply (lb_dD (len, d)). exact Hd0.
  - replace f with ((pre ++ lb) ++ layout_file r) by (unfold f; rewrite <- app_assoc; reflexivity).
    apply IH; auto.
    + rewrite lenN_app. lia.
    + right. rewrite nthN_app_r by lia. replace (off + len - 1 - lenN pre) with (len - 1) by lia. apply (lb_last (len, d)). exact Hlen.
Qed.

Lemma spans_adj bs L : forall off key, RY.lens_pos L -> R.chain adj (map fst (R.spans bs off key L)).
Proof.
  induction L as [|[len d] r IH]; intros off key Hl; [exact I|]. apply Forall_cons_iff in Hl as [Hlen Hl]. cbn [fst] in Hlen.
  rewrite RY.spans_head. cbn [map fst R.chain]. split; [|apply IH; exact Hl].
  destruct r as [|[len' d'] r']; [exact I|]. rewrite RY.spans_head. cbn [map fst]. unfold adj. cbn [R.lbeg R.lend]. lia.
Qed.

Lemma spans_last bs L : forall off key d, RY.lens_pos L -> L <> [] ->
  R.lend (last (map fst (R.spans bs off key L)) d) + 1 = off + lenN (layout_file L).
Proof.
  induction L as [|[len dd] r IH]; intros off key d Hl Hne; [congruence|]. apply Forall_cons_iff in Hl as [Hlen Hl]. cbn [fst] in Hlen.
  rewrite RY.spans_head. cbn [map fst]. rewrite RP.last_cons. unfold layout_file. cbn [flat_map]. fold (layout_file r).
  rewrite lenN_app, (lb_len (len, dd)) by exact Hlen. cbn [fst].
  destruct r as [|y r'].
  - cbn [R.spans map last layout_file flat_map R.lend]. unfold lenN. cbn. lia.
  - rewrite IH by (auto; discriminate). lia.
Qed.

(* grouping: a message begins with a dated line, the others are not dated *)
Lemma group_flags (l : list (R.lspan * bool)) :
  (forall y, In y (fst (R.group l)) -> In (y, false) l) /\
  (forall g, In g (snd (R.group l)) -> In (fst g, true) l /\ forall y, In y (snd g) -> In (y, false) l).
Proof.
  induction l as [|[x d] r (IH1 & IH2)]; [split; [intros y []|intros g []]|].
  change (R.group ((x, d) :: r)) with (R.group_step (x, d) (R.group r)). unfold R.group_step. cbn [snd fst].
  destruct d; cbn [fst snd].
  - split; [intros y []|]. intros g [<-|Hg].
    + cbn [fst snd]. split; [left; reflexivity|]. intros y Hy. right. apply IH1. exact Hy.
    + destruct (IH2 g Hg) as (A & B). split; [right; exact A|]. intros y Hy. right. apply B. exact Hy.
  - split.
    + intros y [<-|Hy]; [left; reflexivity|right; apply IH1; exact Hy].
    + intros g Hg. destruct (IH2 g Hg) as (A & B). split; [right; exact A|]. intros y Hy. right. apply B. exact Hy.
Qed.

Lemma last_app_ne {A} (a b : list A) d : b <> [] -> last (a ++ b) d = last b d.
Proof.
  intros Hb. induction a as [|x a IH]; [reflexivity|]. cbn [app].
  assert (a ++ b <> []) by (destruct a; [exact Hb|discriminate]).
  destruct (a ++ b) eqn:E; [congruence|]. exact IH.
Qed.

Lemma last_file_line ms : forall d m0, ms <> [] -> last (R.file_lines ms) d = R.mlast (last ms m0).
Proof.
  induction ms as [|m r IH]; intros d m0 Hne; [congruence|]. unfold R.file_lines. cbn [flat_map]. fold (R.file_lines r).
  destruct r as [|m' r'].
  - cbn [R.file_lines flat_map last]. rewrite app_nil_r. unfold R.mlines. rewrite RP.last_cons. reflexivity.
  - rewrite last_app_ne; [|unfold R.file_lines; cbn [flat_map R.mlines]; discriminate].
    rewrite (IH d m0) by discriminate. reflexivity.
Qed.

(* ------------------------------------------------------------------ every layout *)
Definition layout_dom (bs : N) (layout : list (N * bool)) : Prop :=
  RY.layout_ok bs layout /\ dated_long layout /\ layout <> [].

Lemma layout_msgs_ne bs layout : layout_dom bs layout -> R.layout_msgs bs layout <> [].
Proof.
  intros ((_ & _ & Hd) & _ & Hne) E. pose proof (RY.layout_file_lines bs layout Hd) as Hfl. rewrite E in Hfl.
  destruct layout as [|[len d] r]; [congruence|]. rewrite RY.spans_head in Hfl. discriminate.
Qed.

Lemma layout_file_pos bs layout : layout_dom bs layout -> 0 < lenN (layout_file layout).
Proof.
  intros ((_ & Hl & _) & _ & Hne). destruct layout as [|x r]; [congruence|]. apply Forall_cons_iff in Hl as [Hx _].
  unfold layout_file. cbn [flat_map]. rewrite lenN_app, (lb_len x Hx). lia.
Qed.

Lemma layout_realizes bs layout : layout_dom bs layout ->
  realizes bs (layout_file layout) dD (R.layout_msgs bs layout).
Proof.
  intros Hdom. pose proof Hdom as ((Hbs & Hl & Hd) & Hlong & Hne).
  pose proof (RY.layout_file_lines bs layout Hd) as Hfl.
  pose proof (spans_real bs layout Hbs [] 0 0 Hl Hlong eq_refl (or_introl eq_refl)) as Hsp. cbn [app] in Hsp.
  rewrite Forall_forall in Hsp.
  constructor.
  - rewrite Hfl. apply Forall_forall. intros l Il. apply in_map_iff in Il as (x & <- & Ix). apply (Hsp x Ix).
  - rewrite Hfl. apply spans_adj. exact Hl.
  - destruct (R.layout_msgs bs layout) as [|m r] eqn:Ems; [exact I|].
    unfold R.file_lines in Hfl. cbn [flat_map R.mlines] in Hfl. destruct layout as [|[len d] r0]; [congruence|].
    rewrite RY.spans_head in Hfl. cbn [map fst app] in Hfl. injection Hfl as Hm _. unfold mbeg. rewrite Hm. reflexivity.
  - destruct (R.layout_msgs bs layout) as [|m r] eqn:Ems; [exact I|].
    rewrite <- (RP.last_cons m r m). unfold R.mend.
    rewrite <- (last_file_line (m :: r) (R.mfirst m) m) by discriminate. rewrite Hfl.
    rewrite (spans_last bs layout 0 0 _ Hl Hne). lia.
  - apply Forall_forall. intros m Hm. unfold R.layout_msgs in Hm. apply RY.link_in in Hm as (_ & Hg).
    destruct (group_flags (R.spans bs 0 0 layout)) as (_ & G2). destruct (G2 _ Hg) as (A & B). cbn [fst snd] in A, B.
    split.
    + destruct (Hsp _ A) as (_ & D). cbn [fst snd] in D. exists 0%Z. exact D.
    + apply Forall_forall. intros y Hy. destruct (Hsp _ (B y Hy)) as (_ & D). cbn [fst snd] in D. exact D.
Qed.

Lemma layout_keys bs layout : map R.mkey (R.layout_msgs bs layout) = Retain.nseq 0 (length (R.layout_msgs bs layout)).
Proof.
  unfold R.layout_msgs. destruct (RL.link_keys (snd (R.group (R.spans bs 0 0 layout))) 0) as (A & B). rewrite A, B. reflexivity.
Qed.

(* THE AGREEMENT, for every layout: block size, line lengths, which lines are dated *)
Theorem caches_retain_agree bs layout : layout_dom bs layout ->
  let ms := R.layout_msgs bs layout in
  agree0 (fst (c_stream dD bs (layout_file layout) (drop_plan ms) sr_init))
        (R.run RP.cur_plain (R.init ms) (R.sched_lag 1 (length ms))).
Proof.
  intros Hdom. cbv zeta. pose proof Hdom as ((Hbs & Hl & Hd) & _).
  apply (stream_agree bs (layout_file layout) Hbs (layout_file_pos bs layout Hdom) dD _ _ _
           (RY.layout_msgs_wf bs layout (conj Hbs (conj Hl Hd))) (layout_keys bs layout) (layout_realizes bs layout Hdom)
           (layout_msgs_ne bs layout Hdom)).
Qed.

(* ... and after every iteration of the driver's loop *)
Theorem caches_retain_agree_upto bs layout j : layout_dom bs layout ->
  let ms := R.layout_msgs bs layout in
  agree0 (fst (c_stream_upto j dD bs (layout_file layout) (drop_plan ms) sr_init))
        (R.run RP.cur_plain (R.init ms) (R.sched_lag 1 (Nat.min (S j) (length ms)))).
Proof.
  intros Hdom. cbv zeta. pose proof Hdom as ((Hbs & Hl & Hd) & _).
  apply (stream_agree_upto bs (layout_file layout) Hbs (layout_file_pos bs layout Hdom) dD _ _ _
           (RY.layout_msgs_wf bs layout (conj Hbs (conj Hl Hd))) (layout_keys bs layout) (layout_realizes bs layout Hdom) j
           (layout_msgs_ne bs layout Hdom)).
Qed.

(* ------------------------------------------------------------------ what carries over to the cache machine *)
Module RK := S4.Proofs.RetainKeepsUp.

(* THE BOUNDS of the repaired policy for messages and lines hold for the cache machine of the
   CURRENT code on a plain file whose consumer keeps up: every block size, every layout.  span and
   ml are the largest number of blocks / lines of one message.  (No failed release happens there:
   drop_sysline Err = 0; finding F9a needs a consumer that lags.) *)
Theorem caches_bounded bs layout : layout_dom bs layout ->
  let ms := R.layout_msgs bs layout in
  let span := R.max_span ms in let ml := R.max_lines ms in
  let C := fst (c_stream dD bs (layout_file layout) (drop_plan ms) sr_init) in
  sc_drop_err (s_cnt C) = 0 /\
  lenN (s_syslines C) <= sc_highest (s_cnt C) /\ sc_highest (s_cnt C) <= R.bound_syslines bs span /\
  lenN (l_lines (s_lr C)) <= lc_highest (l_cnt (s_lr C)) /\ lc_highest (l_cnt (s_lr C)) <= R.bound_lines bs span ml 1.
Proof.
  intros Hdom. cbv zeta. pose proof Hdom as ((Hbs & Hl & Hd) & _).
  destruct (caches_retain_agree bs layout Hdom) as ((A1 & A2 & A3 & A4 & A5 & A6 & A7 & A8) & A0). cbv zeta in *.
  pose proof (RK.cur_keeps_up_bounded bs _ _ (R.layout_msgs bs layout) RP.cur_plain eq_refl
                (RY.layout_msgs_wf bs layout (conj Hbs (conj Hl Hd))) (layout_keys bs layout) A0) as (B1 & B2 & B3 & B4).
  rewrite A5, A8, A3, A7, A2. auto.
Qed.

(* FINDING F9b carries over: when every line lies inside one block the cache machine keeps EVERY
   block it has read (the blocks of a line but its last leave `blocks`; here there is none):
   nread = the number of blocks read, which grows with the file *)
Theorem caches_edge_keeps_all_blocks bs layout : layout_dom bs layout ->
  let ms := R.layout_msgs bs layout in
  Forall RP.single_block ms ->
  let C := fst (c_stream dD bs (layout_file layout) (drop_plan ms) sr_init) in
  let s := R.run RP.cur_plain (R.init ms) (R.sched_lag 1 (length ms)) in
  lenN (b_blocks (l_blk (s_lr C))) = R.nread s.
Proof.
  intros Hdom. cbv zeta. intros Hs.
  destruct (caches_retain_agree bs layout Hdom) as ((A1 & A2 & A3 & A4 & A5 & A6 & A7 & A8) & A0). cbv zeta in *.
  rewrite A6. apply (RP.cur_edge_keeps_all_blocks RP.cur_plain _ _ eq_refl eq_refl Hs).
Qed.

(* ------------------------------------------------------------------ the hypotheses are satisfiable *)
Definition layout_domb (bs : N) (layout : list (N * bool)) : bool :=
  (0 <? bs) && forallb (fun x => 1 <=? fst x) layout &&
  match layout with (_, d) :: _ => d | [] => false end &&
  forallb (fun x => implb (snd x) (2 <=? fst x)) layout.

Lemma layout_domb_sound bs layout : layout_domb bs layout = true -> layout_dom bs layout.
Proof.
  unfold layout_domb. intros H. apply andb_true_iff in H as (H & H4). apply andb_true_iff in H as (H & H3).
  apply andb_true_iff in H as (H1 & H2). apply N.ltb_lt in H1. rewrite forallb_forall in H2, H4.
  split; [|split].
  - split; [exact H1|]. split.
    + apply Forall_forall. intros x Hx. apply N.leb_le. apply H2. exact Hx.
    + destruct layout as [|[len d] r]; [exact I|]. exact H3.
  - apply Forall_forall. intros x Hx Hd. specialize (H4 x Hx). rewrite Hd in H4. cbn in H4. apply N.leb_le. exact H4.
  - destruct layout; [discriminate|discriminate].
Qed.

Definition agree_example_layout : list (N * bool) :=
  [(30, true); (10, false); (70, true); (5, true); (40, false); (1, false); (90, true); (20, true); (33, true);
   (64, true); (17, false); (50, true)].

(* three instances: the example layout of RetainProofs (block size 64, 163 messages), the family of
   F9b (block size 512, 200 lines of 64 bytes: every line inside one block), and a layout of 12
   lines / 430 bytes at block size 16 on which both machines are evaluated: 3 messages dropped,
   blocks high 18 of 27, lines high 8, syslines high 5 *)
Lemma caches_examples :
  layout_dom 64 RP.ex_layout /\
  layout_dom 512 (RP.edge_layout 200) /\ Forall RP.single_block (R.layout_msgs 512 (RP.edge_layout 200)) /\
  layout_dom 16 agree_example_layout /\
  (let ms := R.layout_msgs 16 agree_example_layout in
   let C := fst (c_stream dD 16 (layout_file agree_example_layout) (drop_plan ms) sr_init) in
   let s := R.run RP.cur_plain (R.init ms) (R.sched_lag 1 (length ms)) in
   drop_plan ms = [false; true; true; true; true; true; true] /\
   (bc_highest (b_cnt (l_blk (s_lr C))), lc_highest (l_cnt (s_lr C)), sc_highest (s_cnt C),
    sc_drop_ok (s_cnt C), sc_drop_err (s_cnt C)) = (18, 8, 5, 3, 0) /\
   (R.hb s, R.hl s, R.hs s, R.dok s, R.derr s) = (18, 8, 5, 3, 0) /\
   (lenN (b_blocks (l_blk (s_lr C))), lenN (l_lines (s_lr C)), lenN (s_syslines C)) = (18, 6, 5) /\
   (R.lenN (R.blocks s), R.lenN (R.lines s), R.lenN (R.syslines s)) = (18, 6, 5) /\
   R.bound_syslines 16 (R.max_span ms) = 257 /\ R.bound_lines 16 (R.max_span ms) (R.max_lines ms) 1 = 779).
Proof.
  split; [apply layout_domb_sound; vm_compute; reflexivity|].
  split; [apply layout_domb_sound; vm_compute; reflexivity|].
  split.
  { apply Forall_forall. intros m Hm. apply Forall_forall. intros l Hl.
    assert (H : forallb (fun m => forallb (fun l => R.lfb l =? R.llb l) (R.mlines m)) (R.layout_msgs 512 (RP.edge_layout 200)) = true)
      by (vm_compute; reflexivity).
    rewrite forallb_forall in H. specialize (H m Hm). rewrite forallb_forall in H. apply N.eqb_eq. apply H. exact Hl. }
  split; [apply layout_domb_sound; vm_compute; reflexivity|].
  vm_compute. repeat split.
Qed.

(* ------------------------------------------------------------------ the definitions, spelled out *)
Lemma agree0_explicit C s : agree0 C s <->
  (bc_highest (b_cnt (l_blk (s_lr C))) = R.hb s /\ lc_highest (l_cnt (s_lr C)) = R.hl s /\
   sc_highest (s_cnt C) = R.hs s /\ sc_drop_ok (s_cnt C) = R.dok s /\ sc_drop_err (s_cnt C) = R.derr s /\
   lenN (b_blocks (l_blk (s_lr C))) = R.lenN (R.blocks s) /\ lenN (l_lines (s_lr C)) = R.lenN (R.lines s) /\
   lenN (s_syslines C) = R.lenN (R.syslines s)) /\ R.derr s = 0.
Proof. reflexivity. Qed.

Lemma layout_dom_explicit bs layout : layout_dom bs layout <->
  (0 < bs /\ Forall (fun x => 1 <= fst x) layout /\ match layout with (_, d) :: _ => d = true | [] => True end) /\
  Forall (fun x => snd x = true -> 2 <= fst x) layout /\ layout <> [].
Proof. reflexivity. Qed.

Lemma realizes_explicit bs f dated ms : realizes bs f dated ms <->
  Forall (fun l => span f (R.lbeg l) (R.lend l) /\ R.lfb l = R.lbeg l / bs /\ R.llb l = R.lend l / bs) (R.file_lines ms) /\
  R.chain (fun a b => R.lbeg b = R.lend a + 1) (R.file_lines ms) /\
  match ms with m :: _ => R.lbeg (R.mfirst m) = 0 | [] => True end /\
  match ms with m :: r => R.mend (last r m) + 1 = lenN f | [] => True end /\
  Forall (fun m => (exists z, dated (slice f (R.lbeg (R.mfirst m)) (R.lend (R.mfirst m) + 1)) = Some z) /\
                   Forall (fun l => dated (slice f (R.lbeg l) (R.lend l + 1)) = None) (R.mbody m)) ms.
Proof.
  split.
  - intros [H1 H2 H3 H4 H5]. repeat split; assumption.
  - intros (H1 & H2 & H3 & H4 & H5). constructor; assumption.
Qed.
