(* Proofs/CachesFwdSysProofs.v — streamed containers with the look-behind drop ENABLED: find_sysline in a
   forward sweep.

   SFW S d g: the SyslineReader S over a streamed file whose inner LineReader satisfies FWD .. d g
   (CachesFwdProofs), whose dropped ranges end at or before the horizon d, and in which the line after
   every cached message that ends at or after d is stored (or the message ends the file).

   find_sysline at an offset fo with d <= fo <= g that is 0, the end of the file, or the begin of a dated
   line (what the stage driver and the linear window search call it with) is answered as the spec says:
   loop A never steps back (its first line is dated, or it is the line at 0 and the loop goes on forward),
   loop B walks forward line by line - every find_line call is at a cursor of the LineReader
   (theorem c_find_sysline_fw). *)
From S4.Base Require Import Bytes Chunk.
From S4.Spec Require Import LinesSpec.
From S4.Model Require Import Lines Syslines Caches.
From S4.Proofs Require Import LinesProofs SyslinesProofs CachesProofs CachesSysProofs CachesRunProofs
  CachesGateProofs CachesExamples CachesStreamProofs CachesFwdProofs.
Open Scope N_scope.

Section FwdSys.
  Variable dated : list N -> option Z.
  Variable bs : N.
  Variable f : file.
  Hypothesis Hbs : 0 < bs.

  (* the block discipline of the container (CachesFwdProofs) *)
  Variable RD : bstate -> N -> Prop.
  Variable DN : bstate -> N -> Prop.
  Hypothesis RD_mono : forall b k k', RD b k -> k <= k' -> RD b k'.
  Hypothesis RD_read : forall refd b k j, RD b k -> k <= j -> j <= blast bs f -> 0 < lenN f ->
    exists b', b_read_block refd (lenN f) (blast bs f) b j = (b', BFound) /\ RD b' j /\ DN b' j /\
               (forall i, DN b i -> DN b' i).

  Local Notation lr_inv0 := (lr_inv0 bs f).
  Local Notation sr_inv0 := (@sr_inv dated bs f lr_inv0).
  Local Notation rinv0 := (@rinv dated bs f lr_inv0).
  Local Notation FWD := (FWD bs f RD DN).
  Local Notation cursor := (cursor f).
  Local Notation next_stored := (next_stored bs f).
  Local Notation sline_ok := (sline_ok bs f).
  Local Notation is_group := (is_group dated f).
  Local Notation ssl_ok := (ssl_ok bs f).
  Local Notation consec := (consec bs f).
  Local Notation line_sim := (line_sim bs f).

  Definition SFW (S : sr_state) (d g : N) : Prop :=
    rinv0 S /\ lru_stored (s_lr S) /\ FWD (s_lr S) d g /\ dangling_behind S d /\ next_stored S d.

  (* the SF entries of the find_sysline LRU cache of S' are entries of S *)
  Definition lru_sub (S S' : sr_state) : Prop :=
    forall k n s, alookup k (s_lru S') = Some (SF n s) -> alookup k (s_lru S) = Some (SF n s).

  Lemma lru_sub_refl S : lru_sub S S. Proof. intros k n s X; exact X. Qed.
  Lemma lru_sub_trans A B C : lru_sub A B -> lru_sub B C -> lru_sub A C.
  Proof. intros X Y k n s Z. apply X. apply Y. exact Z. Qed.
  Lemma lru_sub_eq S S' : s_lru S' = s_lru S -> lru_sub S S'.
  Proof. intros E k n s X. rewrite <- E. exact X. Qed.

  (* a step that changed only the inner LineReader (forward), the parse cache, the counters, or added Done
     entries to the LRU cache *)
  Lemma SFW_step S S' d g g' : SFW S d g -> sr_inv0 S' -> frame S S' -> lru_sub S S' ->
    lru_stored (s_lr S') -> (forall y, stored_at (s_lr S) y -> stored_at (s_lr S') y) -> FWD (s_lr S') d g' ->
    SFW S' d g'.
  Proof.
    intros ((I & AS) & LS & FW & DG & (N1 & N2)) I' (F1 & F2 & F3) SUB LS' MONO FW'.
    split; [split; [exact I'|rewrite F1; exact AS]|]. split; [exact LS'|]. split; [exact FW'|].
    split; [intros a b v; rewrite F1, F2; apply DG|]. split.
    - intros k s e A B C. rewrite F1 in A. destruct (N1 k s e A B C) as [Q|Q]; [left; exact Q|right; apply MONO; exact Q].
    - intros k n s A C. destruct (N2 k n s (SUB _ _ _ A) C) as [Q|Q]; [left; exact Q|right; apply MONO; exact Q].
  Qed.

  Lemma SFW_frame S S' d g : SFW S d g -> sr_inv0 S' -> frame S S' -> lru_sub S S' -> s_lr S' = s_lr S -> SFW S' d g.
  Proof.
    intros W I' FR SUB LR. pose proof W as (_ & LS & FW & _).
    apply (SFW_step S S' d g g W I' FR SUB); rewrite LR; auto.
  Qed.

  (* find_line through the SyslineReader at a cursor *)
  Lemma sr_find_line_fw S acc d g x S' r : SFW S d g -> cursor d g x -> sr_find_line bs f S acc x = (S', r) ->
    lres_ok bs f x r /\ frame S S' /\ s_lru S' = s_lru S /\
    exists g', g <= g' /\ SFW S' d g' /\ (x < lenN f -> stored_at (s_lr S') x /\ line_end f x + 1 <= g').
  Proof.
    intros W CU. unfold sr_find_line.
    destruct (c_find_line bs f (lr_set_ext (sr_held S acc) (s_lr S)) x) as [[l' r'] p] eqn:C.
    intro H; injection H as <- <-.
    pose proof W as ((I & _) & LS & FW & _).
    destruct (find_line_fw bs f Hbs RD DN RD_mono RD_read _ _ _ _ _ _ _ _ FW LS CU C) as (R & LS' & MONO & g' & GG & FW' & AT).
    split; [exact R|]. split; [repeat split|]. split; [reflexivity|].
    exists g'. split; [exact GG|]. split; [|exact AT].
    apply (SFW_step S _ d g g' W); [apply sr_inv_set_lr; [exact I|destruct FW' as (Q & _); exact Q]|repeat split|apply lru_sub_eq; reflexivity|exact LS'|exact MONO|exact FW'].
  Qed.

  (* the parse of a line keeps everything but the parse cache and the counters *)
  Lemma sr_parse_fw S s b e d g S' o : SFW S d g -> sline_ok s b e -> sr_parse dated bs f S s = (S', o) ->
    SFW S' d g /\ o = dated (slice f b (e + 1)) /\ frame S S' /\ s_lru S' = s_lru S /\ s_lr S' = s_lr S.
  Proof.
    intros W OK PA. pose proof W as ((I & _) & _).
    destruct (sr_parse_ok dated bs f Hbs _ _ _ _ _ _ I OK PA) as (I' & O & FR & LU).
    pose proof (parse_keeps_lr dated bs f _ _ _ _ PA) as LR.
    split; [apply (SFW_frame S); [exact W|exact I'|exact FR|apply lru_sub_eq; exact LU|exact LR]|]. auto.
  Qed.

  (* ---------------------------------------------------------------- loop B: forward, line by line *)

  Lemma cursor_next d g g' x : cursor d g x -> x < lenN f -> g <= g' -> line_end f x + 1 <= g' -> g' <= lenN f ->
    cursor d g' (line_end f x + 1).
  Proof.
    intros [(A & B & C)|E] L G1 G2 G3; [|lia]. left.
    assert (LB : line_beg f x = x) by (destruct C; [lia|assumption]).
    destruct (span_of f x L) as (SP & _ & X2). rewrite LB in SP. pose proof SP as (_ & EL & _).
    split; [lia|]. split; [exact G2|].
    destruct (N.eq_dec (line_end f x + 1) (lenN f)) as [Q|Q]; [left; exact Q|right]. apply (span_next_beg f x _ SP). lia.
  Qed.

  Lemma FWD_le l d g : FWD l d g -> g <= lenN f.
  Proof. intros (_ & _ & _ & Q & _). exact Q. Qed.

  Lemma c_loop_b_fw fuel : forall S fo1 acc accp b0 d g S' r,
    SFW S d g -> cursor d g fo1 -> consec acc b0 fo1 -> acc <> [] -> Forall2 line_sim acc accp ->
    c_loop_b dated fuel bs f S fo1 acc = (S', r) ->
    frame S S' /\ s_lru S' = s_lru S /\ loop_b_rel bs f b0 r (loop_b dated fuel bs f fo1 accp) /\
    exists g', g <= g' /\ SFW S' d g' /\
      (forall n lns, r = Found (n, lns) -> n = lenN f \/ stored_at (s_lr S') n).
  Proof.
    induction fuel as [|k IH]; intros S fo1 acc accp b0 d g S' r W CU C NE SIM; cbn [c_loop_b loop_b].
    { intro H; injection H as <- <-. split; [apply frame_refl|]. split; [reflexivity|]. split; [exact Logic.I|].
      exists g. split; [lia|]. split; [exact W|]. intros n lns Q. discriminate. }
    destruct (sr_find_line bs f S acc fo1) as [S1 r1] eqn:FL.
    destruct (sr_find_line_fw _ _ _ _ _ _ _ W CU FL) as (R1 & F1 & U1 & g1 & G1 & W1 & AT1).
    destruct (lres_ok_pure bs f Hbs _ _ R1) as [(L & s & ln & -> & PU & SIMS & OK)|(L & -> & PU)]; rewrite PU.
    2:{ intro H; injection H as <- <-. split; [exact F1|]. split; [exact U1|].
        split; [cbn; split; [reflexivity|]; repeat split; assumption|].
        exists g1. split; [exact G1|]. split; [exact W1|]. intros n lns Q. injection Q as <- _.
        left. destruct CU as [(_ & B & _)|E]; [|exact E]. pose proof W as (_ & _ & FW & _). pose proof (FWD_le _ _ _ FW). lia. }
    destruct (AT1 L) as (ST1 & E1).
    destruct (sr_parse dated bs f S1 s) as [S2 o] eqn:PA.
    destruct (sr_parse_fw _ _ _ _ _ _ _ _ W1 OK PA) as (W2 & -> & F2 & U2 & LR2).
    rewrite (sim_dated dated bs f _ _ _ _ SIMS OK).
    destruct (dated (slice f (line_beg f fo1) (line_end f fo1 + 1))) as [dt|] eqn:D.
    - intro H; injection H as <- <-. split; [eapply frame_trans; eauto|]. split; [congruence|].
      split; [cbn; split; [reflexivity|]; repeat split; assumption|].
      exists g1. split; [exact G1|]. split; [exact W2|]. intros n lns Q. injection Q as <- _. right. rewrite LR2. exact ST1.
    - intro H.
      destruct (consec_end bs f Hbs _ _ _ C NE) as (sl & b' & e' & _ & SL & E & _).
      assert (LB : line_beg f fo1 = fo1).
      { destruct SL as [SP _]. pose proof (span_next_beg f b' e' SP ltac:(lia)) as X. rewrite E in X. exact X. }
      rewrite LB in OK.
      assert (C2 : consec (acc ++ [s]) b0 (line_end f fo1 + 1)).
      { eapply consec_app; [exact C|]. cbn. exists (line_end f fo1). split; [exact OK|reflexivity]. }
      pose proof W2 as (_ & _ & FW2 & _).
      assert (CU2 : cursor d g1 (line_end f fo1 + 1)) by (apply (cursor_next d g g1 fo1 CU L G1 E1 (FWD_le _ _ _ FW2))).
      destruct (IH _ _ _ (accp ++ [ln]) b0 _ _ _ _ W2 CU2 C2 ltac:(destruct acc; discriminate)
                   ltac:(apply Forall2_app; [exact SIM|constructor; [exact SIMS|constructor]]) H)
        as (F3 & U3 & R3 & g3 & G3 & W3 & N3).
      split; [eapply frame_trans; [eapply frame_trans|]; eauto|]. split; [congruence|]. split; [exact R3|].
      exists g3. split; [lia|]. split; [exact W3|exact N3].
  Qed.

  (* ---------------------------------------------------------------- loop A, once it only walks forward
     (fo_zero_tried): the line at the cursor, then the line after the furthest line seen so far *)

  Lemma c_loop_a_fw_tried fuel : forall S fo fo1 mx d g S' r,
    SFW S d g -> cursor d g fo1 -> (fo1 < lenN f -> mx <= line_end f fo1 + 1) ->
    (loop_a dated fuel bs f fo1 true mx = Done -> spec_find_sysline dated f fo = None) ->
    c_loop_a dated fuel bs f S fo fo1 true mx = (S', r) ->
    frame S S' /\ lru_sub S S' /\ loop_a_rel dated bs f r (loop_a dated fuel bs f fo1 true mx) /\
    exists g', g <= g' /\ SFW S' d g' /\ (forall dt s n, r = Found (dt, s, n) -> cursor d g' n).
  Proof.
    induction fuel as [|k IH]; intros S fo fo1 mx d g S' r W CU MX HD; cbn [c_loop_a loop_a].
    { intro H; injection H as <- <-. split; [apply frame_refl|]. split; [apply lru_sub_refl|]. split; [exact Logic.I|].
      exists g. split; [lia|]. split; [exact W|]. intros dt s n Q. discriminate. }
    cbn [loop_a] in HD.
    destruct (sr_find_line bs f S [] fo1) as [S1 r1] eqn:FL.
    destruct (sr_find_line_fw _ _ _ _ _ _ _ W CU FL) as (R1 & F1 & U1 & g1 & G1 & W1 & AT1).
    destruct (lres_ok_pure bs f Hbs _ _ R1) as [(L & s & ln & -> & PU & SIM & OK)|(L & -> & PU)]; rewrite PU in *.
    2:{ intro H; injection H as <- <-.
        pose proof W1 as ((I1 & AS1) & _).
        assert (IP : sr_inv0 (sr_put S1 fo SD)) by (apply sr_put_inv; [exact I1|cbn; apply HD; reflexivity]).
        assert (FP : frame S (sr_put S1 fo SD)).
        { unfold sr_put. destruct (s_on S1); [|exact F1]. destruct F1 as (A & B & C). repeat split; cbn; assumption. }
        assert (SP : lru_sub S (sr_put S1 fo SD)).
        { intros k0 n x X. rewrite <- U1. unfold sr_put in X. destruct (s_on S1); [|exact X].
          change (alookup k0 (lru_put SYSLINE_LRU_CAP fo SD (s_lru S1)) = Some (SF n x)) in X.
          apply lru_put_lookup in X as [[_ Q]|[_ X]]; [discriminate|exact X]. }
        split; [exact FP|]. split; [exact SP|]. split; [exact Logic.I|].
        exists g1. split; [exact G1|]. split; [|intros dt s n Q; discriminate].
        apply (SFW_frame S1); [exact W1|exact IP| |intros k0 n x X|unfold sr_put; destruct (s_on S1); reflexivity].
        - unfold sr_put. destruct (s_on S1); repeat split.
        - unfold sr_put in X. destruct (s_on S1); [|exact X].
          change (alookup k0 (lru_put SYSLINE_LRU_CAP fo SD (s_lru S1)) = Some (SF n x)) in X.
          apply lru_put_lookup in X as [[_ Q]|[_ X]]; [discriminate|exact X]. }
    destruct (AT1 L) as (ST1 & E1).
    destruct (sr_parse dated bs f S1 s) as [S2 o] eqn:PA.
    destruct (sr_parse_fw _ _ _ _ _ _ _ _ W1 OK PA) as (W2 & -> & F2 & U2 & LR2).
    pose proof (frame_trans _ _ _ F1 F2) as F12.
    rewrite (sim_dated dated bs f _ _ _ _ SIM OK) in *.
    destruct (line_ok_facts bs f _ _ _ OK) as (LBF & LEF & _).
    destruct SIM as (Y1 & Y2 & Y3). unfold sl_parts in *. rewrite <- Y2, <- Y3, LBF, LEF in *.
    pose proof W2 as (_ & _ & FW2 & _).
    assert (CU2 : cursor d g1 (line_end f fo1 + 1)) by (apply (cursor_next d g g1 fo1 CU L G1 E1 (FWD_le _ _ _ FW2))).
    destruct (dated (slice f (line_beg f fo1) (line_end f fo1 + 1))) as [dt|] eqn:D.
    - intro H; injection H as <- <-. split; [exact F12|]. split; [apply lru_sub_eq; congruence|].
      split; [cbn; split; [reflexivity|]; split; [reflexivity|]; split; [unfold CachesSysProofs.line_sim, sl_parts; repeat split; congruence|];
              exists (line_beg f fo1), (line_end f fo1); auto|].
      exists g1. split; [exact G1|]. split; [exact W2|]. intros dt' s' n Q. injection Q as _ _ <-. exact CU2.
    - replace (N.max mx (line_end f fo1 + 1)) with (line_end f fo1 + 1) in * by (specialize (MX L); lia).
      intro H.
      assert (MX2 : line_end f fo1 + 1 < lenN f -> line_end f fo1 + 1 <= line_end f (line_end f fo1 + 1) + 1).
      { intro Q. destruct (span_of f _ Q) as (_ & _ & X). lia. }
      destruct (IH _ _ _ _ _ _ _ _ W2 CU2 MX2 HD H) as (F3 & SUB3 & R3 & g3 & G3 & W3 & N3).
      split; [eapply frame_trans; eauto|]. split; [apply (lru_sub_trans S S2 S'); [apply lru_sub_eq; congruence|exact SUB3]|].
      split; [exact R3|]. exists g3. split; [lia|]. split; [exact W3|exact N3].
  Qed.

  (* the offsets the stage driver (and the linear window search) call find_sysline with: 0, the end of the file, or
     the begin of a message *)
  Definition scursor (d g fo : N) : Prop :=
    cursor d g fo /\ (fo = 0 \/ lenN f <= fo \/ dated (slice f fo (line_end f fo + 1)) <> None).

  Lemma c_loop_a_fw fuel S fo d g S' r : SFW S d g -> scursor d g fo ->
    (loop_a dated fuel bs f fo false 0 = Done -> spec_find_sysline dated f fo = None) ->
    c_loop_a dated fuel bs f S fo fo false 0 = (S', r) ->
    frame S S' /\ lru_sub S S' /\ loop_a_rel dated bs f r (loop_a dated fuel bs f fo false 0) /\
    exists g', g <= g' /\ SFW S' d g' /\ (forall dt s n, r = Found (dt, s, n) -> cursor d g' n).
  Proof.
    intros W (CU & SC) HD. destruct fuel as [|k]; cbn [c_loop_a loop_a].
    { intro H; injection H as <- <-. split; [apply frame_refl|]. split; [apply lru_sub_refl|]. split; [exact Logic.I|].
      exists g. split; [lia|]. split; [exact W|]. intros dt s n Q. discriminate. }
    cbn [loop_a] in HD.
    destruct (sr_find_line bs f S [] fo) as [S1 r1] eqn:FL.
    destruct (sr_find_line_fw _ _ _ _ _ _ _ W CU FL) as (R1 & F1 & U1 & g1 & G1 & W1 & AT1).
    destruct (lres_ok_pure bs f Hbs _ _ R1) as [(L & s & ln & -> & PU & SIM & OK)|(L & -> & PU)]; rewrite PU in *.
    2:{ intro H; injection H as <- <-.
        pose proof W1 as ((I1 & AS1) & _).
        assert (IP : sr_inv0 (sr_put S1 fo SD)) by (apply sr_put_inv; [exact I1|cbn; apply HD; reflexivity]).
        assert (FP : frame S (sr_put S1 fo SD)).
        { unfold sr_put. destruct (s_on S1); [|exact F1]. destruct F1 as (A & B & C). repeat split; cbn; assumption. }
        assert (SP : lru_sub S (sr_put S1 fo SD)).
        { intros k0 n x X. rewrite <- U1. unfold sr_put in X. destruct (s_on S1); [|exact X].
          change (alookup k0 (lru_put SYSLINE_LRU_CAP fo SD (s_lru S1)) = Some (SF n x)) in X.
          apply lru_put_lookup in X as [[_ Q]|[_ X]]; [discriminate|exact X]. }
        split; [exact FP|]. split; [exact SP|]. split; [exact Logic.I|].
        exists g1. split; [exact G1|]. split; [|intros dt s n Q; discriminate].
        apply (SFW_frame S1); [exact W1|exact IP| |intros k0 n x X|unfold sr_put; destruct (s_on S1); reflexivity].
        - unfold sr_put. destruct (s_on S1); repeat split.
        - unfold sr_put in X. destruct (s_on S1); [|exact X].
          change (alookup k0 (lru_put SYSLINE_LRU_CAP fo SD (s_lru S1)) = Some (SF n x)) in X.
          apply lru_put_lookup in X as [[_ Q]|[_ X]]; [discriminate|exact X]. }
    destruct (AT1 L) as (ST1 & E1).
    assert (LB : line_beg f fo = fo) by (destruct CU as [(_ & _ & [Q|Q])|Q]; [lia|exact Q|lia]).
    destruct (sr_parse dated bs f S1 s) as [S2 o] eqn:PA.
    destruct (sr_parse_fw _ _ _ _ _ _ _ _ W1 OK PA) as (W2 & -> & F2 & U2 & LR2).
    pose proof (frame_trans _ _ _ F1 F2) as F12.
    rewrite (sim_dated dated bs f _ _ _ _ SIM OK) in *.
    destruct (line_ok_facts bs f _ _ _ OK) as (LBF & LEF & _).
    destruct SIM as (Y1 & Y2 & Y3). unfold sl_parts in *. rewrite <- Y2, <- Y3, LBF, LEF in *.
    pose proof W2 as (_ & _ & FW2 & _).
    assert (CU2 : cursor d g1 (line_end f fo + 1)) by (apply (cursor_next d g g1 fo CU L G1 E1 (FWD_le _ _ _ FW2))).
    rewrite LB in *.
    destruct (dated (slice f fo (line_end f fo + 1))) as [dt|] eqn:D.
    - intro H; injection H as <- <-. split; [exact F12|]. split; [apply lru_sub_eq; congruence|].
      split; [cbn; split; [reflexivity|]; split; [reflexivity|]; split; [unfold CachesSysProofs.line_sim, sl_parts; repeat split; congruence|];
              exists fo, (line_end f fo); auto|].
      exists g1. split; [exact G1|]. split; [exact W2|]. intros dt' s' n Q. injection Q as _ _ <-. exact CU2.
    - (* an undated first line: the call is at offset 0; loop A tries 0 again, then goes on forward *)
      assert (Z : fo = 0) by (destruct SC as [Q|[Q|Q]]; [exact Q|lia|congruence]).
      subst fo. replace (N.max 0 (line_end f 0 + 1)) with (line_end f 0 + 1) in * by lia.
      destruct (N.ltb_spec 1 0) as [Q|_]; [lia|].
      intro H.
      assert (CU0 : cursor d g1 0).
      { destruct CU as [(A & B & C)|E]; [left; split; [exact A|]; split; [lia|exact C]|lia]. }
      destruct (c_loop_a_fw_tried k _ _ _ _ _ _ _ _ W2 CU0 (fun _ => N.le_refl _) HD H) as (F3 & SUB3 & R3 & g3 & G3 & W3 & N3).
      split; [eapply frame_trans; eauto|]. split; [apply (lru_sub_trans S S2 S'); [apply lru_sub_eq; congruence|exact SUB3]|].
      split; [exact R3|]. exists g3. split; [lia|]. split; [exact W3|exact N3].
  Qed.

  (* ---------------------------------------------------------------- check_store: what it leaves untouched, and
     where the message it answers with comes from *)

  Definition from_store (st : sr_state) (n : N) (s : ssl) : Prop :=
    exists v e, alookup v (s_syslines st) = Some s /\ ss_end bs s = Some e /\ n = e + 1.

  Lemma check_store_frame st fo o st2 : sr_check_store bs f st fo = (o, st2) ->
    s_lr st2 = s_lr st /\
    match o with
    | Some (st', r, _) => s_lr st' = s_lr st /\
        (forall k n s, alookup k (s_lru st') = Some (SF n s) ->
            alookup k (s_lru st) = Some (SF n s) \/ from_store st n s) /\
        (forall n s, r = Found (n, s) -> alookup fo (s_lru st) = Some (SF n s) \/ from_store st n s)
    | None => True
    end.
  Proof.
    unfold sr_check_store.
    assert (PUT : forall st0 n s, s_lru st0 = s_lru st \/ (exists c, s_lru st0 = c /\ forall k x, alookup k c = Some x -> alookup k (s_lru st) = Some x) ->
              from_store st n s ->
              forall k n' s', alookup k (s_lru (sr_put_always st0 fo (SF n s))) = Some (SF n' s') ->
              alookup k (s_lru st) = Some (SF n' s') \/ from_store st n' s').
    { intros st0 n s E FS k n' s' X.
      change (alookup k (lru_put SYSLINE_LRU_CAP fo (SF n s) (s_lru st0)) = Some (SF n' s')) in X.
      apply lru_put_lookup in X as [[_ Q]|[_ X]]; [injection Q as <- <-; right; exact FS|left].
      destruct E as [E|(c & E & SUB)]; [rewrite <- E; exact X|apply SUB; rewrite <- E; exact X]. }
    set (step := if s_on st then _ else _).
    assert (ST : exists x st1, step = (x, st1) /\ s_lr st1 = s_lr st /\ s_syslines st1 = s_syslines st /\
                 s_range st1 = s_range st /\ s_on st1 = s_on st /\
                 (forall k y, alookup k (s_lru st1) = Some y -> alookup k (s_lru st) = Some y) /\
                 match x with Some r => alookup fo (s_lru st) = Some r | None => True end).
    { subst step. destruct (s_on st) eqn:ON0.
      - destruct (lru_get fo (s_lru st)) as [[r|] c] eqn:G.
        + apply lru_get_Some in G as [A B]. eexists _, _. split; [reflexivity|]. cbn. auto 10.
        + eexists _, _. split; [reflexivity|]. cbn. auto 10.
      - eexists _, _. split; [reflexivity|]. auto 10. }
    destruct ST as (x & st1 & -> & LR1 & SY1 & RA1 & ON1 & SUB1 & X).
    destruct x as [r|].
    { intro H; injection H as <- <-. split; [exact LR1|]. split; [exact LR1|]. split.
      - intros k n s Q. left. apply SUB1. exact Q.
      - intros n s Q. left. destruct r as [n' s'|]; cbn in Q; [injection Q as <- <-; exact X|discriminate]. }
    destruct (range_get (s_range st1) fo) as [v|] eqn:RG.
    - cbn [s_syslines sr_cnt]. destruct (alookup v (s_syslines st1)) as [s|] eqn:LK.
      + destruct (ss_end bs s) as [e|] eqn:EN.
        * intro H; injection H as <- <-. split; [exact LR1|]. split; [exact LR1|].
          assert (FS : from_store st (e + 1) s) by (exists v, e; rewrite <- SY1; auto).
          split.
          -- apply (PUT (sr_cnt d_range_hit st1)); [right; eexists; split; [reflexivity|exact SUB1]|exact FS].
          -- intros n s' Q. injection Q as <- <-. right. exact FS.
        * intro H; injection H as <- <-. split; [exact LR1|]. split; [exact LR1|].
          split; [intros k n s' Q; left; apply SUB1; exact Q|intros n s' Q; discriminate].
      + intro H; injection H as <- <-. split; [exact LR1|]. split; [exact LR1|].
        split; [intros k n s' Q; left; apply SUB1; exact Q|intros n s' Q; discriminate].
    - cbn [s_syslines sr_cnt]. destruct (alookup fo (s_syslines st1)) as [s|] eqn:LK.
      + destruct (ss_end bs s) as [e|] eqn:EN.
        * intro H; injection H as <- <-. split; [exact LR1|].
          assert (FS : from_store st (e + 1) s) by (exists fo, e; rewrite <- SY1; auto).
          set (st3 := sr_cnt d_hit (sr_cnt d_range_miss st1)).
          assert (P3 : forall k n' s', alookup k (s_lru (sr_put_always st3 fo (SF (e + 1) s))) = Some (SF n' s') ->
                       alookup k (s_lru st) = Some (SF n' s') \/ from_store st n' s').
          { apply PUT; [right; eexists; split; [reflexivity|exact SUB1]|exact FS]. }
          split; [|split].
          -- destruct (is_sysline_last bs f (ss_sysline s)); [exact LR1|]. unfold sr_put. destruct (s_on st3); exact LR1.
          -- destruct (is_sysline_last bs f (ss_sysline s)); [exact P3|]. unfold sr_put. destruct (s_on st3); [exact P3|].
             intros k n' s' Q. left. apply SUB1. exact Q.
          -- intros n s' Q. injection Q as <- <-. right. exact FS.
        * intro H; injection H as <- <-. split; [exact LR1|]. split; [exact LR1|].
          split; [intros k n s' Q; left; apply SUB1; exact Q|intros n s' Q; discriminate].
      + intro H; injection H as <- <-. split; [exact LR1|exact Logic.I].
  Qed.

  Lemma cursor_ge d g x : d <= g -> g <= lenN f -> cursor d g x -> d <= x.
  Proof. intros A B [(C & _)|E]; lia. Qed.

  Lemma cursor_shape d g x : cursor d g x -> x = lenN f \/ (x < lenN f /\ line_beg f x = x).
  Proof.
    intros [(A & B & [C|C])|E]; [left; exact C| |left; exact E].
    destruct (N.eq_dec x (lenN f)) as [Q|Q]; [left; exact Q|].
    destruct (N.lt_ge_cases x (lenN f)) as [L|L]; [right; split; assumption|].
    (* x > lenN f: line_beg f x <= lenN f < x *)
    exfalso. unfold line_beg in C. destruct (rfind_nl (firstnN x f)) as [i|] eqn:RF.
    - apply rfind_nl_Some in RF as [A' _]. apply nthN_Some_lt in A'. rewrite lenN_firstnN in A'. lia.
    - lia.
  Qed.

  (* ---------------------------------------------------------------- find_sysline *)

  Theorem c_find_sysline_fw S fo d g S' r p : SFW S d g -> scursor d g fo ->
    c_find_sysline dated bs f S fo = (S', r, p) ->
    r <> Panic /\ sres_ok dated bs f S fo r /\ sys_step dated bs f S S' r /\
    exists g', g <= g' /\ SFW S' d g' /\ (forall n s, r = Found (n, s) -> n = lenN f \/ stored_at (s_lr S') n).
  Proof.
    intros W SC. pose proof SC as (CU & _).
    pose proof W as ((I & AS) & LS & FW & DG & (N1 & N2)).
    pose proof FW as (_ & _ & F3 & F4 & _).
    pose proof (cursor_ge _ _ _ F3 F4 CU) as DFO.
    unfold c_find_sysline.
    destruct (sr_check_store bs f S fo) as [[[[S1 r1] p1]|] S2] eqn:CS.
    - pose proof (sr_check_store_ok dated bs f Hbs _ _ _ _ I CS) as (I1 & R1 & A & B & ON).
      destruct (check_store_frame _ _ _ _ CS) as (_ & LR1 & LRU1 & VAL1).
      intro H; injection H as <- <- <-.
      assert (NP : r1 <> Panic).
      { intro E. subst r1. cbn in R1. destruct R1 as (v & RG & LK).
        apply range_get_Some in RG as (a & b & IN & A1 & A2). specialize (DG _ _ _ IN LK). lia. }
      assert (FSN : forall n s, from_store S n s -> d <= n -> n = lenN f \/ stored_at (s_lr S) n).
      { intros n s (v & e & LK & EN & ->) D. exact (N1 v s e LK EN D). }
      split; [exact NP|]. split; [exact R1|]. split; [left; split; assumption|].
      exists g. split; [lia|]. split.
      + split; [split; [exact I1|rewrite A; exact AS]|]. split; [rewrite LR1; exact LS|]. split; [rewrite LR1; exact FW|].
        split; [intros a b v; rewrite A, B; apply DG|]. split.
        * intros k s e. rewrite A, LR1. apply N1.
        * intros k n s Q D. rewrite LR1. destruct (LRU1 k n s Q) as [Q'|Q']; [exact (N2 k n s Q' D)|exact (FSN n s Q' D)].
      + intros n s Q. rewrite LR1. subst r1. cbn in R1. destruct R1 as (b & gg & G & OK & SP).
        destruct (spec_In dated f _ _ _ _ SP) as (_ & _ & LT).
        destruct (VAL1 n s eq_refl) as [Q'|Q']; [apply (N2 fo n s Q'); lia|apply (FSN n s Q'); lia].
    - pose proof (sr_check_store_ok dated bs f Hbs _ _ _ _ I CS) as (I2 & F2 & U2 & RG).
      destruct (check_store_frame _ _ _ _ CS) as (LR2 & _).
      assert (W2 : SFW S2 d g) by (apply (SFW_frame S); [exact W|exact I2|exact F2|apply lru_sub_eq; exact U2|exact LR2]).
      set (fuel := (2 * length f + 3)%nat).
      pose proof (find_sysline_correct dated bs f fo Hbs) as PURE.
      unfold find_sysline_m, find_sysline_fuel in PURE. fold fuel in PURE.
      destruct (c_loop_a dated fuel bs f S2 fo fo false 0) as [S3 ra] eqn:LA.
      assert (HD : loop_a dated fuel bs f fo false 0 = Done -> spec_find_sysline dated f fo = None).
      { intro E. rewrite E in PURE. cbn in PURE. congruence. }
      destruct (c_loop_a_fw fuel _ _ _ _ _ _ W2 SC HD LA) as (F3' & SUB3 & RA & g3 & G3 & W3 & N3).
      pose proof (frame_trans _ _ _ F2 F3') as F23.
      destruct ra as [[[dt s] fo1]| | |]; destruct (loop_a dated fuel bs f fo false 0) as [[[dt' ln] fo1']| | |] eqn:PA;
        cbn in RA; try contradiction.
      + destruct RA as (<- & <- & SIM & b & e & OKs & E1 & DD).
        pose proof (N3 _ _ _ eq_refl) as CU1.
        destruct (c_loop_b dated fuel bs f S3 fo1 [s]) as [S4 rb] eqn:LB.
        assert (C0 : consec [s] b fo1) by (cbn; exists e; split; [exact OKs|lia]).
        destruct (c_loop_b_fw fuel _ _ _ [ln] b _ _ _ _ W3 CU1 C0 ltac:(discriminate)
                    ltac:(constructor; [exact SIM|constructor]) LB) as (F4' & U4 & RB & g4 & G4 & W4 & N4).
        destruct rb as [[fo_b lns]| | |]; destruct (loop_b dated fuel bs f fo1 [ln]) as [[fo_b' lnsp]| | |] eqn:PB;
          cbn in RB; try contradiction.
        * destruct RB as (<- & SIMS & CC & NE).
          destruct lns as [|l0 lr] eqn:LNS; [congruence|]. rewrite <- LNS in *.
          destruct lnsp as [|p0 pr]; [subst lns; inversion SIMS|].
          assert (SIM0 : line_sim l0 p0) by (subst lns; inversion SIMS; assumption).
          destruct (consec_begin bs f _ _ _ _ _ CC LNS) as (e0 & S0).
          destruct (line_ok_facts bs f _ _ _ S0) as (B0 & _).
          destruct SIM0 as (_ & SB & _).
          cbn [obs_find_sysline sysline_fo_begin snd] in PURE. unfold sl_parts in *. rewrite <- SB, B0 in PURE.
          symmetry in PURE. destruct (spec_In dated f _ _ _ _ PURE) as (G & NN & _).
          unfold obs_sysline in G, NN, PURE. cbn [fst snd] in *.
          rewrite <- (Forall2_sim_bytes bs f _ _ SIMS) in *.
          set (gg := (dt, map (sbytes bs f) lns)) in *.
          pose proof W4 as ((I4 & AS4) & LS4 & FW4 & DG4 & (M1 & M2)).
          assert (OK : ssl_ok (s_nid S4, dt, lns) b gg).
          { unfold CachesSysProofs.ssl_ok. cbn. split; [reflexivity|]. split; [reflexivity|]. split; [rewrite <- NN; exact CC|exact NE]. }
          destruct (is_group_pos dated f _ _ G) as (P & _).
          unfold sr_store_found.
          destruct (sr_insert_ok dated bs f Hbs S4 dt lns b gg I4 G OK) as (S5 & INS & I5 & Y1 & Y2 & Y3 & Y4). rewrite INS.
          intro H; injection H as <- <- <-.
          assert (EOK : sres_entry_ok dated bs f fo (SF fo_b (s_nid S4, dt, lns))) by (exists b, gg; auto).
          assert (FR : frame S S4) by (eapply frame_trans; eauto).
          destruct FR as (Z1 & Z2 & Z3).
          assert (LR5 : s_lr S5 = s_lr S4).
          { unfold sr_insert in INS.
            destruct (ss_begin bs (s_nid S4, dt, lns)); [|discriminate]. destruct (ss_end bs (s_nid S4, dt, lns)); [|discriminate].
            injection INS as <-. reflexivity. }
          assert (LRP : s_lr (sr_put S5 fo (SF fo_b (s_nid S4, dt, lns))) = s_lr S4).
          { unfold sr_put. destruct (s_on S5); cbn; exact LR5. }
          assert (NXB : fo_b = lenN f \/ stored_at (s_lr S4) fo_b) by (apply (N4 _ _ eq_refl)).
          split; [discriminate|]. split; [exists b, gg; auto|]. split.
          -- right. exists fo_b, (s_nid S4, dt, lns), b, gg. split; [reflexivity|]. split; [exact G|]. split; [exact OK|].
             split; [exact NN|]. unfold sr_put. destruct (s_on S5); cbn; rewrite Y1, Y2, Z1, Z2; auto.
          -- exists g4. split; [lia|]. split; [|intros n s0 Q; injection Q as <- _; rewrite LRP; exact NXB].
             split; [split; [apply sr_put_inv; assumption|rewrite sys_put, Y1; apply asc_ainsert; exact AS4]|].
             split; [rewrite LRP; exact LS4|]. split; [rewrite LRP; exact FW4|].
             split; [eapply (insert_dangling bs Hbs S4 _ b (s_nid S4, dt, lns) gg d DG4 P); [rewrite sys_put; exact Y1|rewrite range_put, Y2; reflexivity]|].
             split.
             ++ intros k s0 e'. rewrite sys_put, Y1, alookup_ainsert, LRP. destruct (N.eqb_spec k b) as [->|NEk].
                ** intro X; inversion X; subst s0. intros EN _.
                   destruct (ssl_ok_facts bs f Hbs _ _ _ OK P) as (_ & EN' & _). rewrite EN' in EN. inversion EN; subst e'.
                   replace (b + glen gg - 1 + 1) with fo_b by lia. exact NXB.
                ** intros X EN D. exact (M1 k s0 e' X EN D).
             ++ intros k n s0. rewrite LRP. unfold sr_put. destruct (s_on S5).
                ** intro X. change (alookup k (lru_put SYSLINE_LRU_CAP fo (SF fo_b (s_nid S4, dt, lns)) (s_lru S5)) = Some (SF n s0)) in X.
                   apply lru_put_lookup in X as [[-> E]|[_ X]].
                   --- inversion E; subst. intros _. exact NXB.
                   --- rewrite Y4 in X. intros D. exact (M2 k n s0 X D).
                ** rewrite Y4. intros X D. exact (M2 _ _ _ X D).
        * exfalso. apply (loop_b_not_oof dated bs f Hbs fo1 [ln]); [|exact PB]. apply (cursor_shape _ _ _ CU1).
      + intro H; injection H as <- <- <-. split; [discriminate|]. split; [apply HD; reflexivity|].
        destruct F23 as (Z1 & Z2 & Z3). split; [left; split; assumption|].
        exists g3. split; [lia|]. split; [exact W3|]. intros n s Q. discriminate.
      + exfalso. exact (loop_a_not_oof dated bs f Hbs fo PA).
  Qed.
End FwdSys.
