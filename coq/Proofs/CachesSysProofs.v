(* Proofs/CachesSysProofs.v — SyslineReader caches refine the pure find_sysline.

   Part 4  spec groups by offset: where a group begins and ends, groups are disjoint, pick_group
   Part 5  SyslineReader: invariant sr_inv, every cached operation preserves it; every answer of
           find_sysline is the spec group, or the documented Panic after a drop
   Part 6  operation sequences, the stage driver with drops, block-size independence *)
From S4.Base Require Import Bytes Chunk.
From S4.Spec Require Import LinesSpec.
From S4.Model Require Import Lines Syslines Caches.
From S4.Proofs Require Import LinesProofs SyslinesProofs CachesProofs.
Open Scope N_scope.

(* ================================================================ Part 4: groups by offset *)

Section GroupFacts.
  Variable dated : list N -> option Z.

  Definition glen (g : group) : N := lenN (group_bytes g).

  (* (b, g) is a message of f that begins at offset b *)
  Definition group_fact (f : file) (b : N) (g : group) : Prop :=
    (exists l rest, snd g = l :: rest /\ dated l = Some (fst g) /\ 0 < lenN l /\ b < lenN f /\
                    line_beg f b = b /\ line_end f b = b + lenN l - 1 /\ slice f b (b + lenN l) = l) /\
    b + glen g <= lenN f /\
    (b + glen g < lenN f ->
     line_beg f (b + glen g) = b + glen g /\
     dated (slice f (b + glen g) (line_end f (b + glen g) + 1)) <> None).

  Lemma group_bytes_cons t l rest : glen (t, l :: rest) = lenN l + lenN (concat rest).
  Proof. unfold glen, group_bytes. cbn [snd concat]. apply lenN_app. Qed.

  Lemma groups_at : forall n ls before, (length ls <= n)%nat -> wf_lines (before ++ ls) ->
    forall b g,
    In (b, g) (with_offsets (lenN (concat before) + lenN (concat (fst (groups dated ls)))) (snd (groups dated ls))) ->
    group_fact (concat (before ++ ls)) b g.
  Proof.
    induction n as [|n IH]; intros ls before LN W b g IN.
    { destruct ls; [|cbn in LN; lia]. cbn in IN. contradiction. }
    destruct (snd (groups dated ls)) as [|[t gl] gs] eqn:G; [contradiction|].
    destruct (groups_decomp dated ls t gl gs G) as (l & r & E1 & DL & E3 & E4).
    set (u := fst (groups dated ls)) in *.
    set (f := concat (before ++ ls)).
    assert (EF : before ++ ls = (before ++ u) ++ l :: r) by (rewrite E1 at 1; rewrite app_assoc; reflexivity).
    assert (W1 : wf_lines ((before ++ u) ++ l :: r)) by (rewrite <- EF; exact W).
    pose proof (line_at (before ++ u) l r (lenN (concat (before ++ u))) W1 ltac:(lia)) as LA.
    assert (PL : 0 < lenN l).
    { apply (wf_lines_pos _ W1). apply in_or_app. right. left. reflexivity. }
    specialize (LA ltac:(lia)). cbv zeta in LA. rewrite <- EF in LA. fold f in LA.
    destruct LA as (LB & LE & SL & LT).
    assert (O : lenN (concat before) + lenN (concat u) = lenN (concat (before ++ u))) by (rewrite concat_app_len; reflexivity).
    cbn [with_offsets] in IN. destruct IN as [IN|IN].
    - (* the first group of ls *)
      inversion IN; subst b g. clear IN. rewrite O.
      set (b := lenN (concat (before ++ u))) in *.
      assert (GL : glen (t, gl) = lenN l + lenN (concat (fst (groups dated r)))) by (rewrite E3; apply group_bytes_cons).
      assert (LF : lenN f = b + lenN l + lenN (concat r)).
      { subst f. rewrite EF, concat_app_len. cbn [concat]. rewrite lenN_app. fold b. lia. }
      pose proof (groups_total dated r) as GT.
      split; [|split].
      + exists l, (fst (groups dated r)). cbn [fst snd]. repeat split; auto.
      + rewrite GL. unfold total in GT. lia.
      + rewrite GL. intro LT2.
        destruct (snd (groups dated r)) as [|[t2 gl2] gs2] eqn:G2.
        { unfold total in GT. cbn in GT. lia. }
        destruct (groups_decomp dated r t2 gl2 gs2 G2) as (l2 & r2 & F1 & DL2 & _ & _).
        set (u2 := fst (groups dated r)) in *.
        assert (EF2 : before ++ ls = ((before ++ u) ++ l :: u2) ++ l2 :: r2).
        { rewrite EF. rewrite F1 at 1. rewrite <- !app_assoc. reflexivity. }
        assert (W2 : wf_lines (((before ++ u) ++ l :: u2) ++ l2 :: r2)) by (rewrite <- EF2; exact W).
        assert (PL2 : 0 < lenN l2).
        { apply (wf_lines_pos _ W2). apply in_or_app. right. left. reflexivity. }
        assert (O2 : lenN (concat ((before ++ u) ++ l :: u2)) = b + (lenN l + lenN (concat u2))).
        { rewrite concat_app_len. cbn [concat]. rewrite lenN_app. fold b. lia. }
        pose proof (line_at ((before ++ u) ++ l :: u2) l2 r2 (b + (lenN l + lenN (concat u2))) W2) as LA2.
        cbv zeta in LA2. rewrite O2 in LA2. specialize (LA2 ltac:(lia) ltac:(lia)).
        rewrite <- EF2 in LA2. fold f in LA2. destruct LA2 as (LB2 & LE2 & SL2 & _).
        split; [exact LB2|]. rewrite LE2.
        replace (b + (lenN l + lenN (concat u2)) + lenN l2 - 1 + 1) with (b + (lenN l + lenN (concat u2)) + lenN l2) by lia.
        rewrite SL2, DL2. discriminate.
    - (* a later group: a group of r *)
      assert (EF3 : before ++ ls = (before ++ u ++ [l]) ++ r).
      { rewrite EF. rewrite <- !app_assoc. reflexivity. }
      subst f. rewrite EF3. apply (IH r (before ++ u ++ [l])).
      + rewrite E1 in LN. rewrite app_length in LN. cbn [length] in LN. lia.
      + rewrite <- EF3. exact W.
      + rewrite E4 in IN.
        replace (lenN (concat (before ++ u ++ [l])) + lenN (concat (fst (groups dated r))))
          with (lenN (concat before) + lenN (concat u) + glen (t, gl)); [exact IN|].
        rewrite E3, group_bytes_cons, !concat_app_len. cbn [concat]. rewrite app_nil_r. lia.
  Qed.

  Variable f : file.

  Theorem syslines_at_fact b g : In (b, g) (syslines_at dated f) -> group_fact f b g.
  Proof.
    intro IN. pose proof (groups_at (length (lines f)) (lines f) [] (le_n _)) as GA.
    cbn [app concat] in GA. rewrite lines_concat in GA.
    apply GA; [apply lines_wf|]. exact IN.
  Qed.

  (* ---------------------------------------------------------------- order and disjointness *)

  Lemma with_offsets_ge o gs b g : In (b, g) (with_offsets o gs) -> o <= b.
  Proof.
    revert o; induction gs as [|x gs IH]; intros o IN; [contradiction|].
    destruct IN as [IN|IN]; [inversion IN; lia|]. apply IH in IN. lia.
  Qed.

  Lemma with_offsets_disjoint o gs b1 g1 b2 g2 :
    In (b1, g1) (with_offsets o gs) -> In (b2, g2) (with_offsets o gs) ->
    (b1, g1) = (b2, g2) \/ b1 + glen g1 <= b2 \/ b2 + glen g2 <= b1.
  Proof.
    revert o; induction gs as [|x gs IH]; intros o I1 I2; [contradiction|].
    cbn [with_offsets] in *. destruct I1 as [I1|I1]; destruct I2 as [I2|I2].
    - left. congruence.
    - right. left. inversion I1; subst. apply with_offsets_ge in I2. exact I2.
    - right. right. inversion I2; subst. apply with_offsets_ge in I1. exact I1.
    - eapply IH; eauto.
  Qed.

  Lemma pick_group_at o gs b g x : In (b, g) (with_offsets o gs) -> b <= x -> x < b + glen g ->
    pick_group x (with_offsets o gs) = Some (b + glen g, b, g).
  Proof.
    revert o; induction gs as [|y gs IH]; intros o IN L1 L2; [contradiction|].
    cbn [with_offsets pick_group] in *. destruct IN as [IN|IN].
    - inversion IN; subst. unfold glen in L2. destruct (N.ltb_spec x (b + lenN (group_bytes g))); [reflexivity|lia].
    - pose proof (with_offsets_ge _ _ _ _ IN).
      destruct (N.ltb_spec x (o + lenN (group_bytes y))); [lia|]. apply IH; assumption.
  Qed.

  Lemma pick_group_In x l n b g : pick_group x l = Some (n, b, g) -> In (b, g) l /\ n = b + glen g /\ x < n.
  Proof.
    induction l as [|[b' g'] l IH]; cbn [pick_group]; [discriminate|].
    destruct (N.ltb_spec x (b' + lenN (group_bytes g'))).
    - intro HH; inversion HH; subst. split; [left; reflexivity|]. split; [reflexivity|unfold glen; lia].
    - intro HH. destruct (IH HH) as (A & B & C). split; [right; exact A|]. split; assumption.
  Qed.

  Lemma pick_group_None_ge x o gs : pick_group x (with_offsets o gs) = None ->
    forall b g, In (b, g) (with_offsets o gs) -> b + glen g <= x.
  Proof.
    revert o; induction gs as [|y gs IH]; intros o P b g IN; [contradiction|].
    cbn [with_offsets pick_group] in *.
    destruct (N.ltb_spec x (o + lenN (group_bytes y))); [discriminate|].
    destruct IN as [IN|IN]; [inversion IN; subst; unfold glen; lia|]. eapply IH; eauto.
  Qed.

  (* members of syslines_at *)
  Definition is_group (b : N) (g : group) : Prop := In (b, g) (syslines_at dated f).

  Lemma is_group_pos b g : is_group b g -> 0 < glen g /\ b + glen g <= lenN f /\ snd g <> [].
  Proof.
    intro G. destruct (syslines_at_fact _ _ G) as ((l & rest & SG & _ & PL & _) & LE & _).
    destruct g as [t gl]. cbn [snd] in SG. subst gl. rewrite group_bytes_cons.
    rewrite group_bytes_cons in LE. split; [lia|]. split; [exact LE|discriminate].
  Qed.

  Lemma is_group_unique b g g' : is_group b g -> is_group b g' -> g = g'.
  Proof.
    intros G1 G2. destruct (is_group_pos _ _ G1) as (P1 & _). destruct (is_group_pos _ _ G2) as (P2 & _).
    destruct (with_offsets_disjoint _ _ _ _ _ _ G1 G2) as [E|[E|E]]; [congruence|lia|lia].
  Qed.

  Lemma is_group_overlap b1 g1 b2 g2 x : is_group b1 g1 -> is_group b2 g2 ->
    b1 <= x -> x < b1 + glen g1 -> b2 <= x -> x < b2 + glen g2 -> b1 = b2 /\ g1 = g2.
  Proof.
    intros G1 G2 A B C D.
    destruct (with_offsets_disjoint _ _ _ _ _ _ G1 G2) as [E|[E|E]]; [inversion E; auto|lia|lia].
  Qed.

  Lemma spec_at_group b g x : is_group b g -> b <= x -> x < b + glen g ->
    spec_find_sysline dated f x = Some (b + glen g, b, g).
  Proof. intros G L1 L2. unfold spec_find_sysline. eapply pick_group_at; eauto. Qed.

  Lemma spec_In x n b g : spec_find_sysline dated f x = Some (n, b, g) -> is_group b g /\ n = b + glen g /\ x < n.
  Proof. apply pick_group_In. Qed.
End GroupFacts.

(* ================================================================ Part 5: SyslineReader *)

Lemma range_get_Some m x v : range_get m x = Some v -> exists a b, In (a, b, v) m /\ a <= x /\ x < b.
Proof.
  induction m as [|[[a b] w] m IH]; cbn; [discriminate|].
  destruct (N.leb_spec a x) as [Q1|Q1]; cbn [andb].
  - destruct (N.ltb_spec x b) as [Q2|Q2].
    + intro HH; inversion HH; subst. exists a, b. auto.
    + intro HH. destruct (IH HH) as (a' & b' & I & L). exists a', b'. split; [right; exact I|exact L].
  - intro HH. destruct (IH HH) as (a' & b' & I & L). exists a', b'. split; [right; exact I|exact L].
Qed.

Lemma range_get_In m x a b v : In (a, b, v) m -> a <= x -> x < b -> range_get m x <> None.
Proof.
  induction m as [|[[a' b'] w] m IH]; cbn; [tauto|].
  intros [I|I] L1 L2.
  - inversion I; subst. destruct (N.leb_spec a x); [|lia]. destruct (N.ltb_spec x b); [|lia]. discriminate.
  - destruct ((a' <=? x) && (x <? b')); [discriminate|]. apply IH; assumption.
Qed.

Lemma In_range_cut x a b m : In x (range_cut a b m) ->
  exists s e v, In (s, e, v) m /\
    ((x = (s, N.min e a, v) /\ s < N.min e a) \/ (x = (N.max s b, e, v) /\ N.max s b < e)).
Proof.
  induction m as [|[[s e] v] m IH]; cbn; [tauto|].
  intro I. apply in_app_or in I as [I|I]; [|apply in_app_or in I as [I|I]].
  - destruct (N.ltb_spec s (N.min e a)); [|destruct I]. destruct I as [<-|[]].
    exists s, e, v. split; [left; reflexivity|]. left. auto.
  - destruct (N.ltb_spec (N.max s b) e); [|destruct I]. destruct I as [<-|[]].
    exists s, e, v. split; [left; reflexivity|]. right. auto.
  - destruct (IH I) as (s' & e' & v' & I' & R). exists s', e', v'. split; [right; exact I'|exact R].
Qed.

Section SyslineReaderProofs.
  Variable dated : list N -> option Z.
  Variable bs : N.
  Variable f : file.
  Hypothesis Hbs : 0 < bs.
  (* the invariant of the inner LineReader: lr_inv (every block can be read) for the theorems about plain
     files, lr_inv0 plus the stream invariant for streamed files (CachesFwdProofs) *)
  Context {LI : lr_state -> Prop}.

  Local Notation sline_ok := (sline_ok bs f).
  Local Notation is_group := (is_group dated f).

  (* consecutive stored lines covering b .. e1-1 *)
  Fixpoint consec (lns : list sline) (b e1 : N) : Prop :=
    match lns with
    | [] => b = e1
    | s :: r => exists e, sline_ok s b e /\ consec r (e + 1) e1
    end.

  Lemma consec_app a c b m e1 : consec a b m -> consec c m e1 -> consec (a ++ c) b e1.
  Proof.
    revert b; induction a as [|s a IH]; intros b A C; cbn in *.
    - subst. exact C.
    - destruct A as (e & S & A). exists e. split; [exact S|]. eapply IH; eauto.
  Qed.

  Definition slast (lns : list sline) : option sline :=
    match rev lns with s :: _ => Some s | [] => None end.

  Lemma consec_end lns b e1 : consec lns b e1 -> lns <> [] ->
    exists s b' e', slast lns = Some s /\ sline_ok s b' e' /\ e' + 1 = e1 /\ b <= b' /\ b < e1.
  Proof.
    revert b; induction lns as [|s lns IH]; intros b C NE; [congruence|].
    destruct C as (e & S & C). destruct lns as [|s2 lns].
    - cbn in C. exists s, b, e. split; [reflexivity|]. split; [exact S|]. split; [lia|]. split; [lia|].
      destruct S as [(? & _) _]. lia.
    - destruct (IH _ C ltac:(discriminate)) as (s' & b' & e' & L & S' & E & B & B2).
      exists s', b', e'. split.
      + unfold slast in *. cbn [rev] in *. destruct (rev lns ++ [s2]) eqn:R.
        * destruct (rev lns); discriminate.
        * cbn. cbn in L. exact L.
      + split; [exact S'|]. split; [exact E|]. destruct S as [(? & _) _]. split; lia.
  Qed.

  Lemma consec_begin lns b e1 s r : consec lns b e1 -> lns = s :: r -> exists e, sline_ok s b e.
  Proof. intros C ->. destruct C as (e & S & _). eauto. Qed.

  Definition sbytes (l : sline) : list N := bytes_of bs f (sl_parts l).

  Lemma consec_len lns b e1 : consec lns b e1 -> e1 = b + lenN (concat (map sbytes lns)) /\ e1 <= lenN f \/ lns = [] /\ e1 = b.
  Proof.
    revert b; induction lns as [|s lns IH]; intros b C; [right; auto|left].
    destruct C as (e & S & C). destruct (line_ok_facts bs f _ _ _ S) as (_ & _ & BY & _).
    destruct S as [SP _]. pose proof SP as (A1 & A2 & _).
    cbn [map concat]. rewrite lenN_app. unfold sbytes at 1. rewrite BY, lenN_slice by lia.
    destruct (IH _ C) as [[E L]|[-> E]].
    - split; [lia|exact L].
    - cbn. split; lia.
  Qed.

  Definition ssl_ok (s : ssl) (b : N) (g : group) : Prop :=
    ss_dt s = fst g /\ map sbytes (ss_lines s) = snd g /\ consec (ss_lines s) b (b + glen g) /\ ss_lines s <> [].

  Lemma ssl_ok_facts s b g : ssl_ok s b g -> 0 < glen g ->
    ss_begin bs s = Some b /\ ss_end bs s = Some (b + glen g - 1) /\
    forall n, obs_find_sysline bs f (Found (n, ss_sysline s)) = Some (n, b, g).
  Proof.
    intros (D & M & C & NE) P.
    destruct (ss_lines s) as [|l0 r] eqn:LS; [congruence|].
    destruct (consec_begin _ _ _ _ _ C eq_refl) as (e0 & S0).
    destruct (line_ok_facts bs f _ _ _ S0) as (B0 & _).
    assert (BG : ss_begin bs s = Some b).
    { unfold ss_begin, sysline_fo_begin, ss_sysline. cbn [snd]. rewrite LS. cbn [map]. exact B0. }
    split; [exact BG|]. split.
    - destruct (consec_end _ _ _ C ltac:(discriminate)) as (sl & b' & e' & L & S' & E & _).
      destruct (line_ok_facts bs f _ _ _ S') as (_ & EN & _).
      unfold ss_end, sysline_fo_end, ss_sysline. cbn [snd]. rewrite LS, <- map_rev.
      unfold slast in L. destruct (rev (l0 :: r)) as [|x xs]; [discriminate|]. inversion L; subst x.
      cbn [map]. unfold sl_parts in *. rewrite EN. f_equal. lia.
    - intro n. unfold obs_find_sysline. unfold ss_begin in BG. rewrite BG.
      unfold obs_sysline, ss_sysline. cbn [fst snd]. rewrite map_map, LS.
      change (map (fun x => bytes_of bs f (sl_parts x)) (l0 :: r)) with (map sbytes (l0 :: r)).
      rewrite M, D. destruct g; reflexivity.
  Qed.

  Definition sres_entry_ok (k : N) (r : sres) : Prop :=
    match r with
    | SF n s => exists b g, is_group b g /\ ssl_ok s b g /\ spec_find_sysline dated f k = Some (n, b, g)
    | SD => spec_find_sysline dated f k = None
    end.

  Record sr_inv (st : sr_state) : Prop := mk_sr_inv {
    si_lr : LI (s_lr st);
    si_sys : forall k s, alookup k (s_syslines st) = Some s -> exists g, is_group k g /\ ssl_ok s k g;
    si_range : forall a b v, In (a, b, v) (s_range st) -> exists g, is_group v g /\ a = v /\ b = v + glen g;
    si_lru : forall k r, alookup k (s_lru st) = Some r -> sres_entry_ok k r;
    si_parse : forall k z, alookup k (s_parse st) = Some z ->
                 k < lenN f /\ line_beg f k = k /\ dated (slice f k (line_end f k + 1)) = Some z }.

  (* rebuild the invariant after a change of the inner LineReader, the LRU caches or the counters *)
  Lemma sr_inv_upd st l lru on p pon nid cnt : sr_inv st -> LI l ->
    (forall k r, alookup k lru = Some r -> sres_entry_ok k r) ->
    (forall k z, alookup k p = Some z -> k < lenN f /\ line_beg f k = k /\ dated (slice f k (line_end f k + 1)) = Some z) ->
    sr_inv (mkSR l (s_syslines st) (s_range st) lru on p pon nid cnt).
  Proof. intros [I1 I2 I3 I4 I5] L A B. split; cbn; assumption. Qed.

  Lemma sr_inv_cnt d st : sr_inv st -> sr_inv (sr_cnt d st).
  Proof. intro I. unfold sr_cnt. apply sr_inv_upd; try exact I; [apply (si_lr _ I)|apply (si_lru _ I)|apply (si_parse _ I)]. Qed.

  Lemma sr_inv_set_lr l st : sr_inv st -> LI l -> sr_inv (sr_set_lr l st).
  Proof. intros I L. unfold sr_set_lr. apply sr_inv_upd; try exact I; [exact L|apply (si_lru _ I)|apply (si_parse _ I)]. Qed.

  Lemma sr_put_always_inv st fo r : sr_inv st -> sres_entry_ok fo r -> sr_inv (sr_put_always st fo r).
  Proof.
    intros I R. unfold sr_put_always. apply sr_inv_cnt. unfold sr_set_lru.
    apply sr_inv_upd; try exact I; [apply (si_lr _ I)| |apply (si_parse _ I)].
    intros k x X. apply lru_put_lookup in X as [[-> ->]|[_ X]]; [exact R|]. eapply si_lru; eauto.
  Qed.

  Lemma sr_put_inv st fo r : sr_inv st -> sres_entry_ok fo r -> sr_inv (sr_put st fo r).
  Proof. intros I R. unfold sr_put. destruct (s_on st); [apply sr_put_always_inv; assumption|exact I]. Qed.

  (* the fields that the searches never change *)
  Definition frame (st st' : sr_state) : Prop :=
    s_syslines st' = s_syslines st /\ s_range st' = s_range st /\ s_on st' = s_on st.

  Lemma frame_refl st : frame st st. Proof. repeat split. Qed.
  Lemma frame_trans a b c : frame a b -> frame b c -> frame a c.
  Proof. intros (A1 & A2 & A3) (B1 & B2 & B3). repeat split; congruence. Qed.

  (* ---------------------------------------------------------------- parse cache *)

  Lemma sr_parse_ok st s b e st' o : sr_inv st -> sline_ok s b e -> sr_parse dated bs f st s = (st', o) ->
    sr_inv st' /\ o = dated (slice f b (e + 1)) /\ frame st st' /\ s_lru st' = s_lru st.
  Proof.
    intros I S. destruct (line_ok_facts bs f _ _ _ S) as (LB & _ & BY & _).
    destruct S as [SP _]. destruct (span_in f b e b SP ltac:(lia) ltac:(destruct SP; lia)) as [LBB LEB].
    assert (LT : b < lenN f) by (destruct SP as (? & ? & _); lia).
    unfold sr_parse. rewrite BY. destruct (s_parse_on st).
    - unfold sl_parts in *. rewrite LB.
      destruct (lru_get b (s_parse st)) as [[z|] c] eqn:G.
      + apply lru_get_Some in G as [A B]. intro H; injection H as <- <-.
        destruct (si_parse _ I _ _ A) as (_ & _ & D). rewrite LEB in D.
        split; [|split; [congruence|split; [repeat split|reflexivity]]].
        apply sr_inv_cnt. unfold sr_set_parse. apply sr_inv_upd; try exact I; [apply (si_lr _ I)|apply (si_lru _ I)|].
        intros k x X. apply (si_parse _ I). auto.
      + destruct (dated (slice f b (e + 1))) as [z|] eqn:D; intro H; injection H as <- <-.
        * split; [|split; [reflexivity|split; [repeat split|reflexivity]]].
          unfold sr_set_parse. pose proof (sr_inv_cnt d_parse_miss st I) as I'.
          apply sr_inv_upd; [exact I'|apply (si_lr _ I')|apply (si_lru _ I')|].
          intros k x X. apply lru_put_lookup in X as [[-> ->]|[_ X]].
          -- rewrite LEB. auto.
          -- apply (si_parse _ I'). exact X.
        * split; [apply sr_inv_cnt; exact I|]. split; [reflexivity|split; [repeat split|reflexivity]].
    - intro H; injection H as <- <-. split; [exact I|]. split; [reflexivity|split; [repeat split|reflexivity]].
  Qed.

  (* ---------------------------------------------------------------- check_store, insert_sysline *)

  (* the range map answers for a sysline that drop_sysline removed *)
  Definition dropped_at (st : sr_state) (fo : N) : Prop :=
    exists v, range_get (s_range st) fo = Some v /\ alookup v (s_syslines st) = None.

  Definition sres_ok (st : sr_state) (fo : N) (r : res (N * ssl)) : Prop :=
    match r with
    | Found (n, s) => exists b g, is_group b g /\ ssl_ok s b g /\ spec_find_sysline dated f fo = Some (n, b, g)
    | Done => spec_find_sysline dated f fo = None
    | Panic => dropped_at st fo
    | OutOfFuel => False
    end.

  Lemma entry_sres_ok st fo r : sres_entry_ok fo r -> sres_ok st fo (sres_result r).
  Proof. destruct r; cbn; auto. Qed.

  Lemma on_put_always st fo r : s_on (sr_put_always st fo r) = s_on st.
  Proof. reflexivity. Qed.
  Lemma on_put st fo r : s_on (sr_put st fo r) = s_on st.
  Proof. unfold sr_put. destruct (s_on st) eqn:E; [rewrite on_put_always|]; exact E || reflexivity. Qed.
  Lemma on_cnt d st : s_on (sr_cnt d st) = s_on st.
  Proof. reflexivity. Qed.
  Lemma sys_put st fo r : s_syslines (sr_put st fo r) = s_syslines st.
  Proof. unfold sr_put. destruct (s_on st); reflexivity. Qed.
  Lemma range_put st fo r : s_range (sr_put st fo r) = s_range st.
  Proof. unfold sr_put. destruct (s_on st); reflexivity. Qed.

  Lemma sr_check_store_ok st fo o st2 : sr_inv st -> sr_check_store bs f st fo = (o, st2) ->
    match o with
    | Some (st', r, _) => sr_inv st' /\ sres_ok st fo r /\ s_syslines st' = s_syslines st /\ s_range st' = s_range st /\
                          s_on st' = s_on st
    | None => sr_inv st2 /\ frame st st2 /\ s_lru st2 = s_lru st /\ range_get (s_range st) fo = None
    end.
  Proof.
    intros I. unfold sr_check_store.
    set (step := if s_on st then _ else _).
    assert (ST : exists x st1, step = (x, st1) /\ sr_inv st1 /\ frame st st1 /\
                 match x with Some r => sres_entry_ok fo r | None => s_lru st1 = s_lru st end).
    { subst step. destruct (s_on st).
      - destruct (lru_get fo (s_lru st)) as [[r|] c] eqn:G.
        + apply lru_get_Some in G as [A B]. eexists _, _. split; [reflexivity|].
          split; [|split; [repeat split|eapply si_lru; eauto]].
          apply sr_inv_cnt. unfold sr_set_lru. apply sr_inv_upd; try exact I; [apply (si_lr _ I)| |apply (si_parse _ I)].
          intros k x X. eapply si_lru; eauto.
        + eexists _, _. split; [reflexivity|]. split; [apply sr_inv_cnt; exact I|]. split; [repeat split|reflexivity].
      - eexists _, _. split; [reflexivity|]. split; [exact I|]. split; [repeat split|reflexivity]. }
    destruct ST as (x & st1 & -> & I1 & (F1 & F2 & F3) & X).
    destruct x as [r|].
    { intro H; injection H as <- <-. split; [exact I1|]. split; [apply entry_sres_ok; exact X|]. repeat split; assumption. }
    destruct (range_get (s_range st1) fo) as [v|] eqn:RG.
    - pose proof RG as RG'. rewrite F2 in RG'.
      apply range_get_Some in RG as (a & b & IN & A1 & A2).
      destruct (si_range _ I1 _ _ _ IN) as (g & G & -> & ->).
      pose proof (spec_at_group dated f _ _ _ G A1 A2) as SPEC.
      cbn [s_syslines sr_cnt].
      destruct (alookup v (s_syslines st1)) as [s|] eqn:LK.
      + destruct (si_sys _ I1 _ _ LK) as (g' & G' & OK).
        pose proof (is_group_unique dated f _ _ _ G G'). subst g'.
        destruct (is_group_pos dated f _ _ G) as (P & _).
        destruct (ssl_ok_facts _ _ _ OK P) as (_ & EN & _). rewrite EN.
        replace (v + glen g - 1 + 1) with (v + glen g) by lia.
        intro H; injection H as <- <-. split.
        * apply sr_put_always_inv; [apply sr_inv_cnt; exact I1|]. exists v, g. auto.
        * split; [exists v, g; auto|]. repeat split; assumption.
      + intro H; injection H as <- <-. split; [apply sr_inv_cnt; exact I1|].
        split; [exists v; rewrite <- F1; auto|]. repeat split; assumption.
    - cbn [s_syslines sr_cnt].
      destruct (alookup fo (s_syslines st1)) as [s|] eqn:LK.
      + destruct (si_sys _ I1 _ _ LK) as (g & G & OK).
        destruct (is_group_pos dated f _ _ G) as (P & _).
        destruct (ssl_ok_facts _ _ _ OK P) as (_ & EN & _). rewrite EN.
        replace (fo + glen g - 1 + 1) with (fo + glen g) by lia.
        pose proof (spec_at_group dated f _ _ fo G ltac:(lia) ltac:(lia)) as SPEC.
        assert (EOK : sres_entry_ok fo (SF (fo + glen g) s)) by (exists fo, g; auto).
        intro H; injection H as <- <-. split.
        * destruct (is_sysline_last bs f (ss_sysline s));
            [apply sr_put_always_inv|apply sr_put_inv]; first [exact EOK|apply sr_inv_cnt; apply sr_inv_cnt; exact I1].
        * split; [exists fo, g; auto|].
          destruct (is_sysline_last bs f (ss_sysline s)); rewrite ?on_put, ?sys_put, ?range_put; cbn;
            repeat split; assumption.
      + intro H; injection H as <- <-. split; [apply sr_inv_cnt; apply sr_inv_cnt; exact I1|].
        split; [repeat split; assumption|]. split; [exact X|]. rewrite <- F2. exact RG.
  Qed.

  Lemma range_cut_exact a g st : sr_inv st -> is_group a g ->
    forall x, In x (range_cut a (a + glen g) (s_range st)) ->
    exists a' b' v, x = (a', b', v) /\ exists g', is_group v g' /\ a' = v /\ b' = v + glen g'.
  Proof.
    intros I G x IN.
    destruct (In_range_cut _ _ _ _ IN) as (s & e & v & INR & C).
    destruct (si_range _ I _ _ _ INR) as (g' & G' & -> & ->).
    destruct (is_group_pos dated f _ _ G) as (P & _). destruct (is_group_pos dated f _ _ G') as (P' & _).
    destruct (with_offsets_disjoint _ _ _ _ _ _ G G') as [E|[E|E]].
    - inversion E; subst. destruct C as [[_ C]|[_ C]]; lia.
    - destruct C as [[_ C]|[-> C]]; [lia|].
      exists (N.max v (a + glen g)), (v + glen g'), v. split; [reflexivity|]. exists g'. repeat split; auto. lia.
    - destruct C as [[-> C]|[_ C]]; [|lia].
      exists v, (N.min (v + glen g') a), v. split; [reflexivity|]. exists g'. repeat split; auto. lia.
  Qed.

  Lemma sr_insert_ok st dt lns b g : sr_inv st -> is_group b g -> ssl_ok (s_nid st, dt, lns) b g ->
    exists st', sr_insert bs st dt lns = Some (st', (s_nid st, dt, lns)) /\ sr_inv st' /\
      s_syslines st' = ainsert b (s_nid st, dt, lns) (s_syslines st) /\
      s_range st' = range_insert b (b + glen g) b (s_range st) /\
      s_on st' = s_on st /\ s_lru st' = s_lru st.
  Proof.
    intros I G OK. destruct (is_group_pos dated f _ _ G) as (P & _).
    destruct (ssl_ok_facts _ _ _ OK P) as (BG & EN & _).
    unfold sr_insert. rewrite BG, EN. replace (b + glen g - 1 + 1) with (b + glen g) by lia.
    eexists. split; [reflexivity|]. split; [|repeat split].
    split; cbn.
    - apply (si_lr _ I).
    - intros k s. rewrite alookup_ainsert. destruct (N.eqb_spec k b).
      + intro H; inversion H; subst. exists g. auto.
      + apply (si_sys _ I).
    - intros a' b' v IN. unfold range_insert in IN. destruct (N.ltb_spec b (b + glen g)); [|lia].
      destruct IN as [IN|IN].
      + inversion IN; subst. exists g. auto.
      + destruct (range_cut_exact b g st I G _ IN) as (a2 & b2 & v2 & E & g' & G' & -> & ->).
        inversion E; subst. exists g'. auto.
    - apply (si_lru _ I).
    - apply (si_parse _ I).
  Qed.


End SyslineReaderProofs.

(* ================================================================ the reader of a file whose blocks can all be read *)

Section SysPlain.
  Variable dated : list N -> option Z.
  Variable bs : N.
  Variable f : file.
  Hypothesis Hbs : 0 < bs.

  Local Notation sline_ok := (sline_ok bs f).
  Local Notation lr_inv := (lr_inv bs f).
  Local Notation is_group := (is_group dated f).
  Local Notation sr_inv := (@sr_inv dated bs f lr_inv).
  Local Notation consec := (consec bs f).
  Local Notation consec_app := (consec_app bs f).
  Local Notation consec_end := (consec_end bs f Hbs).
  Local Notation consec_begin := (consec_begin bs f).
  Local Notation sbytes := (sbytes bs f).
  Local Notation ssl_ok := (ssl_ok bs f).
  Local Notation ssl_ok_facts := (ssl_ok_facts bs f Hbs).
  Local Notation sres_entry_ok := (sres_entry_ok dated bs f).
  Local Notation sres_ok := (sres_ok dated bs f).
  Local Notation si_lr := (si_lr dated bs f).
  Local Notation si_range := (si_range dated bs f).
  Local Notation sr_inv_set_lr := (sr_inv_set_lr dated bs f).
  Local Notation sr_put_inv := (sr_put_inv dated bs f).
  Local Notation sr_parse_ok := (sr_parse_ok dated bs f Hbs).
  Local Notation sr_check_store_ok := (sr_check_store_ok dated bs f Hbs).
  Local Notation sr_insert_ok := (sr_insert_ok dated bs f Hbs).

  Lemma sr_inv_init : sr_inv sr_init.
  Proof. split; cbn; intros; try discriminate; try contradiction. apply lr_inv_init. Qed.

  Lemma sr_find_line_ok st acc fo st' r : sr_inv st -> sr_find_line bs f st acc fo = (st', r) ->
    sr_inv st' /\ lres_ok bs f fo r /\ frame st st' /\ s_lru st' = s_lru st.
  Proof.
    intros I. unfold sr_find_line. destruct (c_find_line bs f _ fo) as [[l r'] p] eqn:C.
    intro H; injection H as <- <-.
    destruct (c_find_line_ok bs f Hbs _ _ _ _ _ (lr_set_ext_inv bs f _ _ (si_lr _ I)) C) as [L R].
    split; [apply sr_inv_set_lr; assumption|]. split; [exact R|]. split; [repeat split|reflexivity].
  Qed.

  (* ---------------------------------------------------------------- simulation of the pure loops *)

  Definition line_sim (s : sline) (ln : line) : Prop :=
    bytes_of bs f (sl_parts s) = bytes_of bs f ln /\
    line_fo_begin bs (sl_parts s) = line_fo_begin bs ln /\
    line_fo_end bs (sl_parts s) = line_fo_end bs ln.

  Lemma lres_ok_pure fo r : lres_ok bs f fo r ->
    (fo < lenN f /\ exists s ln, r = Found (line_end f fo + 1, s) /\
        find_line_m bs f fo = Found (line_end f fo + 1, ln) /\ line_sim s ln /\
        sline_ok s (line_beg f fo) (line_end f fo)) \/
    (lenN f <= fo /\ r = Done /\ find_line_m bs f fo = Done).
  Proof.
    unfold lres_ok. destruct (N.ltb_spec fo (lenN f)) as [L|L].
    - intros (s & -> & S). left. split; [exact L|].
      destruct (find_line_correct bs f fo Hbs L) as (ps & R & _ & BY & BG & EN).
      exists s, ps. split; [reflexivity|]. split; [exact R|]. split; [|exact S].
      destruct (line_ok_facts bs f _ _ _ S) as (B1 & E1 & Y1 & _).
      unfold line_sim. rewrite B1, E1, Y1, BY, BG, EN. auto.
    - intros ->. right. split; [exact L|]. split; [reflexivity|]. apply find_line_done. exact L.
  Qed.

  Definition undated_from (a fo : N) : Prop :=
    forall x, a <= x -> x <= fo -> line_beg f x = x -> dated (slice f x (line_end f x + 1)) = None.

  Definition back_phase (fo1 fo : N) : Prop :=
    fo1 = fo \/ (fo1 + 1 <= fo /\ fo < lenN f /\ line_beg f (fo1 + 1) = fo1 + 1 /\ undated_from (fo1 + 1) fo).

  Lemma back_phase_step fo1 fo : fo1 < lenN f -> back_phase fo1 fo ->
    dated (slice f (line_beg f fo1) (line_end f fo1 + 1)) = None ->
    fo < lenN f /\ line_beg f fo1 <= fo /\ undated_from (line_beg f fo1) fo.
  Proof.
    intros L BP UD. destruct (span_of f fo1 L) as (SP & B1 & B2).
    assert (KEY : forall x, line_beg f fo1 <= x -> x <= line_end f fo1 -> line_beg f x = x ->
                  dated (slice f x (line_end f x + 1)) = None).
    { intros x X1 X2 X3. destruct (span_in f _ _ x SP X1 X2) as [A B]. rewrite B. rewrite X3 in A. subst x. exact UD. }
    destruct BP as [->|(P1 & P2 & P3 & P4)].
    - split; [exact L|]. split; [exact B1|]. intros x X1 X2 X3. apply KEY; auto. lia.
    - assert (LE1 : line_end f fo1 = fo1).
      { apply line_end_char. destruct (line_beg_is_beg f (fo1 + 1) ltac:(lia)) as (_ & _ & Z).
        rewrite P3 in Z. destruct Z as [Z|Z]; [lia|]. replace (fo1 + 1 - 1) with fo1 in Z by lia.
        unfold is_end. repeat split; [lia|exact L|intros k K1 K2; lia|left; exact Z]. }
      split; [exact P2|]. split; [lia|]. intros x X1 X2 X3.
      destruct (N.le_gt_cases x fo1) as [C|C].
      + apply KEY; auto. lia.
      + apply P4; auto. lia.
  Qed.

  Definition loop_a_rel (r : res (Z * sline * N)) (p : res (Z * line * N)) : Prop :=
    match r, p with
    | Found (dt, s, n), Found (dt', ln, n') =>
        dt = dt' /\ n = n' /\ line_sim s ln /\
        exists b e, sline_ok s b e /\ n = e + 1 /\ dated (slice f b (e + 1)) = Some dt
    | Done, Done => True
    | OutOfFuel, OutOfFuel => True
    | _, _ => False
    end.

  Lemma sim_dated s ln b e : line_sim s ln -> sline_ok s b e -> dated (bytes_of bs f ln) = dated (slice f b (e + 1)).
  Proof.
    intros (A & _) S. destruct (line_ok_facts bs f _ _ _ S) as (_ & _ & BY & _). rewrite <- A, BY. reflexivity.
  Qed.

  Lemma c_loop_a_sim fuel : forall st fo fo1 tried mx st' r,
    sr_inv st -> range_get (s_range st) fo = None -> (tried = false -> back_phase fo1 fo) ->
    (loop_a dated fuel bs f fo1 tried mx = Done -> spec_find_sysline dated f fo = None) ->
    c_loop_a dated fuel bs f st fo fo1 tried mx = (st', r) ->
    sr_inv st' /\ frame st st' /\ loop_a_rel r (loop_a dated fuel bs f fo1 tried mx).
  Proof.
    induction fuel as [|k IH]; intros st fo fo1 tried mx st' r I RG BP HD; cbn [c_loop_a loop_a].
    { intro H; injection H as <- <-. split; [exact I|]. split; [apply frame_refl|exact Logic.I]. }
    cbn [loop_a] in HD.
    destruct (sr_find_line bs f st [] fo1) as [st1 r1] eqn:FL.
    destruct (sr_find_line_ok _ _ _ _ _ I FL) as (I1 & R1 & F1 & _).
    destruct (lres_ok_pure _ _ R1) as [(L & s & ln & -> & PU & SIM & S)|(L & -> & PU)]; rewrite PU in *.
    2:{ intro H; injection H as <- <-. split.
        - apply sr_put_inv; [exact I1|]. cbn. apply HD. reflexivity.
        - split; [|exact Logic.I]. unfold sr_put. destruct (s_on st1); [|exact F1].
          destruct F1 as (A & B & C). repeat split; cbn; assumption. }
    destruct (sr_parse dated bs f st1 s) as [st2 o] eqn:PA.
    destruct (sr_parse_ok _ _ _ _ _ _ I1 S PA) as (I2 & -> & F2 & _).
    pose proof (frame_trans _ _ _ F1 F2) as F12.
    rewrite (sim_dated _ _ _ _ SIM S) in *.
    destruct (line_ok_facts bs f _ _ _ S) as (LB & LE & _).
    destruct SIM as (Y1 & Y2 & Y3). unfold sl_parts in *. rewrite <- Y2, <- Y3, LB, LE in *.
    destruct (dated (slice f (line_beg f fo1) (line_end f fo1 + 1))) as [dt|] eqn:D.
    - intro H; injection H as <- <-. split; [exact I2|]. split; [exact F12|].
      cbn. split; [reflexivity|]. split; [reflexivity|].
      split; [unfold line_sim, sl_parts; repeat split; congruence|].
      exists (line_beg f fo1), (line_end f fo1). auto.
    - assert (RG2 : range_get (s_range st2) fo = None).
      { destruct F12 as (_ & B & _). rewrite B. exact RG. }
      assert (BPT : forall x, true = false -> back_phase x fo) by (intros x Q; discriminate Q).
      destruct tried.
      + intro H. destruct (IH _ _ _ _ _ _ _ I2 RG2 (BPT _) HD H) as (I3 & F3 & R3).
        split; [exact I3|]. split; [eapply frame_trans; eauto|exact R3].
      + destruct (back_phase_step fo1 fo L (BP eq_refl) D) as (LT & BL & UF).
        destruct (N.ltb_spec 1 (line_beg f fo1)) as [C|C].
        * destruct (range_get (s_range st2) (line_beg f fo1 - 1)) as [v|] eqn:RGV.
          -- exfalso.
             apply range_get_Some in RGV as (a & b & IN & A1 & A2).
             destruct (si_range _ I2 _ _ _ IN) as (g & G & -> & ->).
             destruct (syslines_at_fact dated f _ _ G) as (_ & GE & GN).
             destruct (N.le_gt_cases (v + glen g) fo) as [Q|Q].
             ++ destruct (GN ltac:(lia)) as (GB & GD). apply GD. apply UF; [lia|exact Q|exact GB].
             ++ apply (range_get_In _ fo _ _ _ IN); [lia|exact Q|exact RG2].
          -- intro H.
             assert (SPL : span f (line_beg f fo1) (line_end f fo1)) by (destruct S; assumption).
             destruct (span_in f _ _ (line_beg f fo1) SPL ltac:(lia) ltac:(destruct SPL; lia)) as [LBB _].
             assert (BP2 : false = false -> back_phase (line_beg f fo1 - 1) fo).
             { intros _. right. replace (line_beg f fo1 - 1 + 1) with (line_beg f fo1) by lia.
               split; [lia|]. split; [exact LT|]. split; [exact LBB|exact UF]. }
             destruct (IH _ _ _ _ _ _ _ I2 RG2 BP2 HD H)
               as (I3 & F3 & R3).
             split; [exact I3|]. split; [eapply frame_trans; eauto|exact R3].
        * intro H. destruct (IH _ _ _ _ _ _ _ I2 RG2 (BPT _) HD H) as (I3 & F3 & R3).
          split; [exact I3|]. split; [eapply frame_trans; eauto|exact R3].
  Qed.

  Definition loop_b_rel (b0 : N) (r : res (N * list sline)) (p : res (N * list line)) : Prop :=
    match r, p with
    | Found (n, lns), Found (n', lnsp) => n = n' /\ Forall2 line_sim lns lnsp /\ consec lns b0 n /\ lns <> []
    | OutOfFuel, OutOfFuel => True
    | _, _ => False
    end.

  Lemma c_loop_b_sim fuel : forall st fo1 acc accp b0 st' r,
    sr_inv st -> consec acc b0 fo1 -> acc <> [] -> Forall2 line_sim acc accp ->
    c_loop_b dated fuel bs f st fo1 acc = (st', r) ->
    sr_inv st' /\ frame st st' /\ s_lru st' = s_lru st /\ loop_b_rel b0 r (loop_b dated fuel bs f fo1 accp).
  Proof.
    induction fuel as [|k IH]; intros st fo1 acc accp b0 st' r I C NE SIM; cbn [c_loop_b loop_b].
    { intro H; injection H as <- <-. split; [exact I|]. split; [apply frame_refl|]. split; [reflexivity|exact Logic.I]. }
    destruct (sr_find_line bs f st acc fo1) as [st1 r1] eqn:FL.
    destruct (sr_find_line_ok _ _ _ _ _ I FL) as (I1 & R1 & F1 & U1).
    destruct (lres_ok_pure _ _ R1) as [(L & s & ln & -> & PU & SIMS & S)|(L & -> & PU)]; rewrite PU.
    2:{ intro H; injection H as <- <-. split; [exact I1|]. split; [exact F1|]. split; [exact U1|].
        cbn. split; [reflexivity|]. repeat split; assumption. }
    destruct (sr_parse dated bs f st1 s) as [st2 o] eqn:PA.
    destruct (sr_parse_ok _ _ _ _ _ _ I1 S PA) as (I2 & -> & F2 & U2).
    rewrite (sim_dated _ _ _ _ SIMS S).
    destruct (dated (slice f (line_beg f fo1) (line_end f fo1 + 1))) as [dt|] eqn:D.
    - intro H; injection H as <- <-. split; [exact I2|]. split; [eapply frame_trans; eauto|].
      split; [congruence|]. cbn. split; [reflexivity|]. repeat split; assumption.
    - intro H.
      destruct (consec_end _ _ _ C NE) as (sl & b' & e' & _ & SL & E & _).
      assert (LB : line_beg f fo1 = fo1).
      { destruct SL as [SP _]. pose proof (span_next_beg f b' e' SP ltac:(lia)) as X. rewrite E in X. exact X. }
      rewrite LB in S.
      assert (C2 : consec (acc ++ [s]) b0 (line_end f fo1 + 1)).
      { eapply consec_app; [exact C|]. cbn. exists (line_end f fo1). split; [exact S|reflexivity]. }
      destruct (IH _ _ _ (accp ++ [ln]) b0 _ _ I2 C2 ltac:(destruct acc; discriminate)
                   ltac:(apply Forall2_app; [exact SIM|constructor; [exact SIMS|constructor]]) H)
        as (I3 & F3 & U3 & R3).
      split; [exact I3|]. split; [eapply frame_trans; [eapply frame_trans|]; eauto|]. split; [congruence|exact R3].
  Qed.

  (* ---------------------------------------------------------------- the pure loops never run out of fuel *)

  Lemma loop_a_not_oof fo : loop_a dated (2 * length f + 3) bs f fo false 0 <> OutOfFuel.
  Proof.
    destruct (N.lt_ge_cases fo (lenN f)) as [L|L].
    2:{ replace (2 * length f + 3)%nat with (S (2 * length f + 2)) by lia. cbn [loop_a].
        rewrite find_line_done by exact L. discriminate. }
    pose proof (lines_wf f) as W. pose proof (lines_concat f) as CF.
    rewrite <- CF in L. destruct (locate (lines f) fo W L) as (before & l & after & E & L1 & L2).
    set (fuel := (2 * length f + 3)%nat).
    assert (LEN : (length (lines f) <= length f)%nat).
    { pose proof (wf_lines_len _ W) as X. rewrite CF in X. exact X. }
    pose proof (loop_a_bwd dated bs Hbs before l [] after fuel fo 0) as LA. cbn [app] in LA.
    rewrite <- E in LA. specialize (LA W ltac:(intros u [])).
    assert (FU : (length before + length after + 3 < fuel)%nat).
    { subst fuel. rewrite E in LEN. rewrite app_length in LEN. cbn [length] in LEN. lia. }
    specialize (LA FU). cbv zeta in LA. rewrite CF in LA. specialize (LA L1 L2).
    assert (ME : N.max 0 (lenN (concat before) + lenN l) = lenN (concat (before ++ [l]))).
    { rewrite concat_app_len. cbn [concat]. rewrite app_nil_r. lia. }
    specialize (LA ME).
    destruct (last_dated_total dated (before ++ [l])) as (ld & LD). specialize (LA ld LD).
    destruct ld as [[[p t] d]|].
    - destruct LA as (ln & RA & _). rewrite RA. discriminate.
    - unfold loop_a_spec in LA. destruct (snd (groups dated after)) as [|[t gl] gs].
      + rewrite LA. discriminate.
      + destruct LA as (l0 & ln & _ & RA & _). rewrite RA. discriminate.
  Qed.

  Lemma split_at_begin fo1 : fo1 = lenN f \/ (fo1 < lenN f /\ line_beg f fo1 = fo1) ->
    exists before after, lines f = before ++ after /\ lenN (concat before) = fo1.
  Proof.
    pose proof (lines_wf f) as W. pose proof (lines_concat f) as CF.
    intros [->|[L LB]].
    - exists (lines f), []. rewrite app_nil_r, CF. auto.
    - rewrite <- CF in L. destruct (locate (lines f) fo1 W L) as (before & l & after & E & L1 & L2).
      exists before, (l :: after). split; [exact E|].
      rewrite E in W. destruct (line_at before l after fo1 W L1 L2) as (A & _).
      rewrite <- E, CF in A. congruence.
  Qed.

  Lemma loop_b_not_oof fo1 acc : fo1 = lenN f \/ (fo1 < lenN f /\ line_beg f fo1 = fo1) ->
    loop_b dated (2 * length f + 3) bs f fo1 acc <> OutOfFuel.
  Proof.
    intro H. destruct (split_at_begin fo1 H) as (before & after & E & <-).
    pose proof (lines_wf f) as W. pose proof (lines_concat f) as CF.
    pose proof (loop_b_ok dated bs Hbs after before (2 * length f + 3) acc) as LB.
    rewrite <- E in LB. specialize (LB W).
    assert (FU : (length after < 2 * length f + 3)%nat).
    { pose proof (wf_lines_len _ W) as X. rewrite CF in X. rewrite E, app_length in X. lia. }
    specialize (LB FU). cbv zeta in LB. rewrite CF in LB. destruct LB as (lns & R & _). rewrite R. discriminate.
  Qed.

  (* ---------------------------------------------------------------- find_sysline *)

  (* what a call changed in the stored syslines / ranges *)
  Definition sys_step (st st' : sr_state) (r : res (N * ssl)) : Prop :=
    (s_syslines st' = s_syslines st /\ s_range st' = s_range st) \/
    (exists n s b g, r = Found (n, s) /\ is_group b g /\ ssl_ok s b g /\ n = b + glen g /\
       s_syslines st' = ainsert b s (s_syslines st) /\
       s_range st' = range_insert b (b + glen g) b (s_range st)).

  Lemma Forall2_sim_bytes lns lnsp : Forall2 line_sim lns lnsp -> map sbytes lns = map (bytes_of bs f) lnsp.
  Proof. induction 1 as [|s ln a c (A & _) _ IH]; cbn; [reflexivity|]. unfold sbytes at 1. rewrite A, IH. reflexivity. Qed.

  Theorem c_find_sysline_ok st fo st' r p : sr_inv st -> c_find_sysline dated bs f st fo = (st', r, p) ->
    sr_inv st' /\ sres_ok st fo r /\ sys_step st st' r /\ s_on st' = s_on st.
  Proof.
    intros I. unfold c_find_sysline.
    destruct (sr_check_store bs f st fo) as [[[[st1 r1] p1]|] st2] eqn:CS.
    - pose proof (sr_check_store_ok _ _ _ _ I CS) as (I1 & R1 & A & B & ON).
      intro H; injection H as <- <- <-. split; [exact I1|]. split; [exact R1|]. split; [left; split; assumption|exact ON].
    - pose proof (sr_check_store_ok _ _ _ _ I CS) as (I2 & F2 & _ & RG).
      assert (RG2 : range_get (s_range st2) fo = None) by (destruct F2 as (_ & B & _); rewrite B; exact RG).
      set (fuel := (2 * length f + 3)%nat).
      pose proof (find_sysline_correct dated bs f fo Hbs) as PURE.
      unfold find_sysline_m, find_sysline_fuel in PURE. fold fuel in PURE.
      destruct (c_loop_a dated fuel bs f st2 fo fo false 0) as [st3 ra] eqn:LA.
      assert (HD : loop_a dated fuel bs f fo false 0 = Done -> spec_find_sysline dated f fo = None).
      { intro E. rewrite E in PURE. cbn in PURE. congruence. }
      destruct (c_loop_a_sim fuel _ _ _ _ _ _ _ I2 RG2 (fun _ => or_introl eq_refl) HD LA) as (I3 & F3 & RA).
      pose proof (frame_trans _ _ _ F2 F3) as F23.
      destruct ra as [[[dt s] fo1]| | |]; destruct (loop_a dated fuel bs f fo false 0) as [[[dt' ln] fo1']| | |] eqn:PA;
        cbn in RA; try contradiction.
      + destruct RA as (<- & <- & SIM & b & e & S & E1 & DD).
        destruct (c_loop_b dated fuel bs f st3 fo1 [s]) as [st4 rb] eqn:LB.
        assert (C0 : consec [s] b fo1) by (cbn; exists e; split; [exact S|lia]).
        destruct (c_loop_b_sim fuel _ _ _ [ln] b _ _ I3 C0 ltac:(discriminate)
                    ltac:(constructor; [exact SIM|constructor]) LB) as (I4 & F4 & U4 & RB).
        destruct rb as [[fo_b lns]| | |]; destruct (loop_b dated fuel bs f fo1 [ln]) as [[fo_b' lnsp]| | |] eqn:PB;
          cbn in RB; try contradiction.
        * destruct RB as (<- & SIMS & CC & NE).
          (* the pure result is the spec group *)
          destruct lns as [|l0 lr] eqn:LNS; [congruence|]. rewrite <- LNS in *.
          destruct lnsp as [|p0 pr]; [subst lns; inversion SIMS|].
          assert (SIM0 : line_sim l0 p0) by (subst lns; inversion SIMS; assumption).
          destruct (consec_begin _ _ _ _ _ CC LNS) as (e0 & S0).
          destruct (line_ok_facts bs f _ _ _ S0) as (B0 & _).
          destruct SIM0 as (_ & SB & _).
          cbn [obs_find_sysline sysline_fo_begin snd] in PURE. unfold sl_parts in *. rewrite <- SB, B0 in PURE.
          symmetry in PURE. destruct (spec_In dated f _ _ _ _ PURE) as (G & NN & _).
          unfold obs_sysline in G, NN, PURE. cbn [fst snd] in *.
          rewrite <- (Forall2_sim_bytes _ _ SIMS) in *.
          set (g := (dt, map sbytes lns)) in *.
          assert (OK : ssl_ok (s_nid st4, dt, lns) b g).
          { unfold ssl_ok. cbn. split; [reflexivity|]. split; [reflexivity|]. split; [rewrite <- NN; exact CC|exact NE]. }
          unfold sr_store_found.
          destruct (sr_insert_ok st4 dt lns b g I4 G OK) as (st5 & INS & I5 & Y1 & Y2 & Y3 & Y4). rewrite INS.
          intro H; injection H as <- <- <-.
          assert (EOK : sres_entry_ok fo (SF fo_b (s_nid st4, dt, lns))) by (exists b, g; auto).
          split; [apply sr_put_inv; assumption|]. split; [exists b, g; auto|].
          assert (FR : frame st st4) by (eapply frame_trans; eauto).
          destruct FR as (Z1 & Z2 & Z3).
          split.
          -- right. exists fo_b, (s_nid st4, dt, lns), b, g. split; [reflexivity|]. split; [exact G|]. split; [exact OK|].
             split; [exact NN|]. unfold sr_put. destruct (s_on st5); cbn; rewrite Y1, Y2, Z1, Z2; auto.
          -- unfold sr_put. destruct (s_on st5) eqn:O5; cbn; rewrite ?O5; congruence.
        * exfalso. apply (loop_b_not_oof fo1 [ln]); [|exact PB].
          subst fo1. destruct S as [SP _]. pose proof SP as (_ & EL & _).
          destruct (N.eq_dec (e + 1) (lenN f)) as [Q|Q]; [left; exact Q|right].
          split; [lia|]. apply (span_next_beg f b e SP). lia.
      + intro H; injection H as <- <- <-. split; [exact I3|]. split; [apply HD; reflexivity|].
        destruct F23 as (Z1 & Z2 & Z3). split; [left; split; assumption|exact Z3].
      + exfalso. exact (loop_a_not_oof fo PA).
  Qed.
End SysPlain.
