(* Proofs/PrintVariants.v — every dispatched print variant equals the canonical
   decoration (C13 variants_agree), except the one recorded as finding F11. *)
From S4.Base Require Import Bytes.
From S4.Model Require Import Strftime Print.
From S4.Proofs Require Import PrintSem.
Open Scope nat_scope.

(* ---------------------------------------------------------------- line parts *)
(* a Line's parts are non-empty slices (debug_assert in the Rust macro) *)
Definition wf_line (l : line) : Prop := Forall (fun s => s <> []) l.

Definition wf_sys (m : msg) : Prop := Forall wf_line (m_lines m) /\ m_beg m <= m_end m.

Definition wf_full (m : msg) : Prop :=
  wf_msg m /\ match m_kind m with KSys => wf_sys m | _ => True end.

Lemma cls_eqb_refl c : cls_eqb c c = true.
Proof. destruct c; reflexivity. Qed.

Lemma guarded_app c x y : peq (guarded c (x ++ y)) (guarded c x ++ guarded c y).
Proof.
  unfold guarded. destruct x as [|a x]; simpl; [apply peq_refl|].
  destruct y as [|b y]; simpl.
  - rewrite app_nil_r. apply peq_refl.
  - intro l. cbn [sem app]. destruct (last_is l c) eqn:E.
    + change (a :: x ++ b :: y) with ((a :: x) ++ b :: y).
      rewrite (obs_app (a :: x) (b :: y)), <- app_assoc. reflexivity.
    + cbn [last_is]. rewrite cls_eqb_refl. change (a :: x ++ b :: y) with ((a :: x) ++ b :: y).
      rewrite (obs_app (a :: x) (b :: y)), <- app_assoc. reflexivity.
Qed.

Lemma guarded_nil c : guarded c [] = [].
Proof. reflexivity. Qed.

Lemma guarded_ne c s : s <> [] -> guarded c s = [C c; W s; F].
Proof. destruct s; [congruence|reflexivity]. Qed.

Lemma slice_0 s b : slice s 0 b = firstn b s.
Proof. unfold slice. rewrite Nat.sub_0_r. reflexivity. Qed.

(* flat colouring seen from line index [a] *)
Definition flatpaint (a dbeg dend : nat) (l : bytes) : prog :=
  guarded CText (firstn (dbeg - a) l) ++ guarded CDate (slice l (dbeg - a) (dend - a))
  ++ guarded CText (skipn (dend - a) l).

Lemma firstn_app_le {A} n (x y : list A) : n <= length x -> firstn n (x ++ y) = firstn n x.
Proof.
  intro H. rewrite firstn_app. replace (n - length x) with 0 by lia. simpl. apply app_nil_r.
Qed.
Lemma firstn_app_ge {A} n (x y : list A) : length x <= n -> firstn n (x ++ y) = x ++ firstn (n - length x) y.
Proof. intro H. rewrite firstn_app. rewrite firstn_all2 by lia. reflexivity. Qed.
Lemma skipn_app_le {A} n (x y : list A) : n <= length x -> skipn n (x ++ y) = skipn n x ++ y.
Proof. intro H. rewrite skipn_app. replace (n - length x) with 0 by lia. reflexivity. Qed.
Lemma skipn_app_ge {A} n (x y : list A) : length x <= n -> skipn n (x ++ y) = skipn (n - length x) y.
Proof. intro H. rewrite skipn_app. rewrite skipn_all2 by lia. reflexivity. Qed.

Lemma peq_app3 a a' b b' c c' : peq a a' -> peq b b' -> peq c c' -> peq (a ++ b ++ c) (a' ++ b' ++ c').
Proof. intros. apply peq_app; [|apply peq_app]; assumption. Qed.

Lemma hl_step a dbeg dend s r :
  s <> [] -> dbeg <= dend ->
  peq (hl_part a dbeg dend s ++ flatpaint (a + length s) dbeg dend r) (flatpaint a dbeg dend (s ++ r)).
Proof.
  intros Hs Hbe. unfold hl_part, flatpaint.
  assert (Hlen : 0 < length s) by (destruct s; [congruence|simpl; lia]).
  destruct ((a <=? dbeg) && (dend <? a + length s)) eqn:E1.
  { apply andb_true_iff in E1 as [H1 H2]. apply Nat.leb_le in H1. apply Nat.ltb_lt in H2.
    rewrite slice_0.
    replace (dbeg - (a + length s)) with 0 by lia. replace (dend - (a + length s)) with 0 by lia.
    unfold slice. simpl firstn. simpl skipn. rewrite !guarded_nil. simpl app.
    rewrite (firstn_app_le (dbeg - a)) by lia.
    rewrite (skipn_app_le (dbeg - a)) by lia.
    rewrite (firstn_app_le (dend - a - (dbeg - a))) by (rewrite skipn_length; lia).
    rewrite (skipn_app_le (dend - a)) by lia.
    rewrite <- !app_assoc.
    apply peq_app; [apply peq_refl|]. apply peq_app; [apply peq_refl|].
    apply peq_sym, guarded_app. }
  destruct ((a <=? dbeg) && (dbeg <? a + length s) && (a + length s <=? dend)) eqn:E2.
  { apply andb_true_iff in E2 as [E2 H3]. apply andb_true_iff in E2 as [H1 H2].
    apply Nat.leb_le in H1. apply Nat.ltb_lt in H2. apply Nat.leb_le in H3.
    rewrite slice_0.
    replace (dbeg - (a + length s)) with 0 by lia.
    unfold slice. simpl firstn at 3. rewrite guarded_nil. simpl app.
    rewrite (firstn_app_le (dbeg - a)) by lia.
    rewrite (skipn_app_le (dbeg - a)) by lia.
    rewrite (firstn_app_ge (dend - a - (dbeg - a))) by (rewrite skipn_length; lia).
    rewrite (skipn_app_ge (dend - a)) by lia.
    rewrite skipn_length. simpl skipn.
    replace (dend - a - (dbeg - a) - (length s - (dbeg - a))) with (dend - (a + length s) - 0) by lia.
    replace (dend - a - length s) with (dend - (a + length s)) by lia.
    rewrite <- !app_assoc.
    apply peq_app; [apply peq_refl|].
    rewrite app_assoc. apply peq_app; [|apply peq_refl].
    apply peq_sym, guarded_app. }
  destruct ((dbeg <? a) && (a <=? dend) && (dend <=? a + length s)) eqn:E3.
  { apply andb_true_iff in E3 as [E3 H3]. apply andb_true_iff in E3 as [H1 H2].
    apply Nat.ltb_lt in H1. apply Nat.leb_le in H2. apply Nat.leb_le in H3.
    rewrite slice_0.
    replace (dbeg - (a + length s)) with 0 by lia. replace (dend - (a + length s)) with 0 by lia.
    replace (dbeg - a) with 0 by lia.
    unfold slice. simpl firstn. simpl skipn. rewrite !guarded_nil. simpl app.
    rewrite Nat.sub_0_r.
    rewrite (firstn_app_le (dend - a)) by lia.
    rewrite (skipn_app_le (dend - a)) by lia.
    rewrite <- !app_assoc.
    apply peq_app; [apply peq_refl|]. apply peq_sym, guarded_app. }
  destruct ((dbeg <? a) && (a + length s <=? dend)) eqn:E4.
  { apply andb_true_iff in E4 as [H1 H2]. apply Nat.ltb_lt in H1. apply Nat.leb_le in H2.
    rewrite <- (guarded_ne CDate s Hs).
    replace (dbeg - (a + length s)) with 0 by lia. replace (dbeg - a) with 0 by lia.
    unfold slice. simpl firstn at 1 3. simpl skipn at 1 3. rewrite !guarded_nil. simpl app.
    rewrite !Nat.sub_0_r.
    rewrite (firstn_app_ge (dend - a)) by lia.
    rewrite (skipn_app_ge (dend - a)) by lia.
    replace (dend - a - length s) with (dend - (a + length s)) by lia.
    rewrite app_assoc. apply peq_app; [|apply peq_refl].
    apply peq_sym, guarded_app. }
  (* remaining: the whole part is before or after the datetime *)
  assert (Hcase : a + length s <= dbeg \/ dend < a).
  { destruct (Nat.leb_spec a dbeg), (Nat.ltb_spec dend (a + length s)), (Nat.ltb_spec dbeg (a + length s)),
             (Nat.leb_spec (a + length s) dend), (Nat.ltb_spec dbeg a), (Nat.leb_spec a dend),
             (Nat.leb_spec dend (a + length s)); simpl in *; try discriminate; lia. }
  rewrite <- (guarded_ne CText s Hs).
  destruct Hcase as [Hc|Hc].
  - unfold slice.
    rewrite (firstn_app_ge (dbeg - a)) by lia.
    rewrite (skipn_app_ge (dbeg - a)) by lia.
    rewrite (skipn_app_ge (dend - a)) by lia.
    replace (dbeg - a - length s) with (dbeg - (a + length s)) by lia.
    replace (dend - a - length s) with (dend - (a + length s)) by lia.
    replace (dend - a - (dbeg - a)) with (dend - (a + length s) - (dbeg - (a + length s))) by lia.
    rewrite app_assoc. apply peq_app; [|apply peq_refl].
    apply peq_sym, guarded_app.
  - replace (dbeg - (a + length s)) with 0 by lia. replace (dend - (a + length s)) with 0 by lia.
    replace (dbeg - a) with 0 by lia. replace (dend - a) with 0 by lia.
    unfold slice. simpl firstn. simpl skipn. rewrite !guarded_nil. simpl app.
    apply peq_sym, guarded_app.
Qed.

Lemma hl_parts_flat dbeg dend l : wf_line l -> dbeg <= dend ->
  forall a, peq (hl_parts a dbeg dend l) (flatpaint a dbeg dend (concat l)).
Proof.
  intros Hwf Hbe. induction Hwf as [|s r Hs Hr IH]; intro a; simpl.
  - unfold flatpaint, slice. rewrite !firstn_nil, !skipn_nil, firstn_nil. apply peq_refl.
  - eapply peq_trans; [apply peq_app; [apply peq_refl | apply IH]|].
    apply hl_step; assumption.
Qed.

Lemma hl_parts_hl_flat m l : wf_line l -> m_beg m <= m_end m ->
  peq (hl_parts 0 (m_beg m) (m_end m) l) (hl_flat m (concat l)).
Proof.
  intros. eapply peq_trans; [apply hl_parts_flat; assumption|].
  unfold flatpaint, hl_flat. rewrite !Nat.sub_0_r, slice_0. apply peq_refl.
Qed.

(* ---------------------------------------------------------------- no colour *)
Lemma wbytes_flat_map_lines (pre : bytes) (lines : list line) (f : line -> prog) :
  (forall l, wbytes (f l) = pre ++ concat l) ->
  wbytes (flat_map f lines) = wbytes (map (fun l => W (pre ++ l)) (map (@concat N) lines)).
Proof.
  intro H. induction lines as [|l r IH]; simpl; [reflexivity|].
  rewrite wbytes_app, H, IH. reflexivity.
Qed.

Lemma no_C_flat_map {A} (f : A -> prog) ls : (forall x, no_C (f x) = true) -> no_C (flat_map f ls) = true.
Proof. intro H. induction ls; simpl; [reflexivity|]. rewrite no_C_app, H, IHls. reflexivity. Qed.

Lemma no_C_mapW l : no_C (map W l) = true.
Proof. induction l; simpl; auto. Qed.

Lemma no_C_map_Wf {A} (g : A -> bytes) ls : no_C (map (fun l => W (g l)) ls) = true.
Proof. induction ls; simpl; auto. Qed.

Lemma peq_no_C p q : no_C p = true -> no_C q = true -> wbytes p = wbytes q -> peq p q.
Proof. intros Hp Hq H l. rewrite (sem_no_C p l Hp), (sem_no_C q l Hq), H. reflexivity. Qed.

Ltac nocol := apply peq_no_C;
  [ rewrite ?no_C_app; repeat (apply andb_true_intro; split); try reflexivity;
    try (apply no_C_flat_map; intro; unfold p_line; simpl; rewrite ?no_C_mapW; reflexivity)
  | apply no_C_map_Wf
  | ].

Lemma sys_plain o m : o_colour o = false -> peq (print_sysline o m) (decorate o m).
Proof.
  intro Hc. unfold print_sysline, decorate, decorate_plain, flat_lines, prefix. rewrite Hc.
  destruct (o_file o), (o_date o).
  - unfold print_sysline_prependfile_prependdate. nocol. rewrite wbytes_app. simpl. rewrite app_nil_r.
    apply wbytes_flat_map_lines. intro l. simpl. unfold p_line. rewrite wbytes_mapW, app_assoc. reflexivity.
  - unfold print_sysline_prependfile. nocol. rewrite wbytes_app. simpl. rewrite !app_nil_r.
    apply wbytes_flat_map_lines. intro l. simpl. unfold p_line. rewrite wbytes_mapW. reflexivity.
  - unfold print_sysline_prependdate. nocol. rewrite wbytes_app. simpl. rewrite !app_nil_r.
    apply wbytes_flat_map_lines. intro l. simpl. unfold p_line. rewrite wbytes_mapW. reflexivity.
  - unfold print_sysline_. nocol. rewrite wbytes_app. simpl. rewrite !app_nil_r.
    apply (wbytes_flat_map_lines []). intro l. unfold p_line. rewrite wbytes_mapW. reflexivity.
Qed.

Lemma fixed_plain o m : o_colour o = false -> m_kind m = KFixed ->
  (exists l, m_lines m = [l]) -> peq (print_fixedstruct o m) (decorate o m).
Proof.
  intros Hc Hk [l Hl].
  unfold print_fixedstruct, decorate, decorate_plain, prefix. rewrite Hc.
  destruct (o_file o), (o_date o);
    unfold print_fixedstruct_, print_fixedstruct_prependdate, print_fixedstruct_prependfile,
      print_fixedstruct_prependfile_prependdate, m_data, flat_lines;
    rewrite Hl; simpl; rewrite ?app_nil_r;
    apply peq_by_norm; simpl; rewrite ?app_nil_r, <- ?app_assoc; reflexivity.
Qed.

Lemma data_plain_prepend (ff df : bytes) (dof dod : bool) (ls : list bytes) :
  wbytes (flat_map (fun l => (if dof then [W ff] else []) ++ (if dod then [W df] else []) ++ [W l]) ls)
  = wbytes (map (fun l => W (((if dof then ff else []) ++ (if dod then df else [])) ++ l)) ls).
Proof.
  induction ls as [|l r IH]; simpl; [reflexivity|].
  rewrite !wbytes_app, IH. destruct dof, dod; simpl; rewrite ?app_nil_r, <- ?app_assoc; reflexivity.
Qed.

Lemma concat_flat_lines_W (ls : list bytes) :
  concat ls = wbytes (map (fun l => W ([] ++ l)) ls).
Proof. induction ls as [|a ls IH]; simpl in *; [reflexivity | rewrite <- IH; reflexivity]. Qed.

Lemma prepend_plain (ff df : bytes) (f d : bool) (ls : list bytes) :
  peq (flat_map (fun l => (if f then [W ff] else []) ++ (if d then [W df] else []) ++ [W l]) ls ++ [F])
      (map (fun l => W (((if f then ff else []) ++ (if d then df else [])) ++ l)) ls).
Proof.
  apply peq_no_C.
  - rewrite no_C_app; apply andb_true_intro; split; [|reflexivity].
    apply no_C_flat_map; intro. destruct f, d; reflexivity.
  - apply no_C_map_Wf.
  - rewrite wbytes_app; simpl; rewrite app_nil_r. apply data_plain_prepend.
Qed.

Lemma evtx_plain o m : o_colour o = false -> nl_split [] (m_data m) = flat_lines m ->
  peq (print_evtx o m) (decorate o m).
Proof.
  intros Hc Hwf. unfold print_evtx, decorate, decorate_plain, prefix. rewrite Hc.
  destruct (o_file o) eqn:Ef, (o_date o) eqn:Ed;
    [ unfold print_evtx_prepend; rewrite Hwf;
      exact (prepend_plain (o_ff o) (date_field o (m_t m)) true true (flat_lines m))
    | unfold print_evtx_prepend; rewrite Hwf;
      exact (prepend_plain (o_ff o) (date_field o (m_t m)) true false (flat_lines m))
    | unfold print_evtx_prepend; rewrite Hwf;
      exact (prepend_plain (o_ff o) (date_field o (m_t m)) false true (flat_lines m))
    | ].
  unfold print_evtx_. apply peq_no_C; [reflexivity | apply no_C_map_Wf |].
  simpl. rewrite app_nil_r. unfold m_data. apply concat_flat_lines_W.
Qed.

Lemma journal_plain o m : o_colour o = false -> nl_split [] (m_data m) = flat_lines m ->
  peq (print_journalentry o m) (decorate o m).
Proof.
  intros Hc Hwf. unfold print_journalentry, decorate, decorate_plain, prefix. rewrite Hc.
  destruct (o_file o) eqn:Ef, (o_date o) eqn:Ed;
    [ unfold print_journalentry_prepend; rewrite Hwf;
      exact (prepend_plain (o_ff o) (date_field o (m_t m)) true true (flat_lines m))
    | unfold print_journalentry_prepend; rewrite Hwf;
      exact (prepend_plain (o_ff o) (date_field o (m_t m)) true false (flat_lines m))
    | unfold print_journalentry_prepend; rewrite Hwf;
      exact (prepend_plain (o_ff o) (date_field o (m_t m)) false true (flat_lines m))
    | ].
  unfold print_journalentry_. apply peq_no_C; [reflexivity | apply no_C_map_Wf |].
  simpl. rewrite app_nil_r. unfold m_data. apply concat_flat_lines_W.
Qed.

(* ---------------------------------------------------------------- colour *)
Lemma color_body_peq m first l : wf_line l -> m_beg m <= m_end m ->
  peq (color_body m first l) (if first then hl_flat m (concat l) else [W (concat l)]).
Proof.
  intros Hl Hbe. unfold color_body. destruct first.
  - apply hl_parts_hl_flat; assumption.
  - unfold p_color_line. apply peq_mapW.
Qed.

Lemma sys_colour o m : o_colour o = true -> m_kind m = KSys -> wf_sys m -> peq (print_sysline o m) (decorate o m).
Proof.
  intros Hc Hk [Hwf Hbe]. unfold print_sysline, decorate, decorate_colour, has_prefix, prefix, flat_lines.
  rewrite Hc, Hk. rewrite map_first_map.
  assert (Hin : forall x, In x (m_lines m) -> wf_line x) by (apply Forall_forall; exact Hwf).
  destruct (o_file o), (o_date o); simpl orb; cbv iota; rewrite ?app_nil_l.
  - unfold print_sysline_prependfile_prependdate_color.
    apply peq_app; [|apply peq_refl]. apply peq_map_first. intros b x Hx.
    apply peq_app; [apply peq_by_norm; reflexivity|]. apply color_body_peq; auto.
  - unfold print_sysline_prependfile_color.
    apply peq_app; [|apply peq_refl]. apply peq_map_first. intros b x Hx.
    apply peq_app; [apply peq_by_norm; simpl; rewrite app_nil_r; reflexivity|]. apply color_body_peq; auto.
  - unfold print_sysline_prependdate_color.
    apply peq_app; [|apply peq_refl]. apply peq_map_first. intros b x Hx.
    apply peq_app; [apply peq_by_norm; reflexivity|]. apply color_body_peq; auto.
  - unfold print_sysline_color.
    apply peq_app; [apply peq_refl|]. apply peq_app; [|apply peq_refl].
    apply peq_map_first. intros b x Hx. simpl app. apply color_body_peq; auto.
Qed.

Lemma fixed_colour o m : o_colour o = true -> m_kind m = KFixed -> peq (print_fixedstruct o m) (decorate o m).
Proof.
  intros Hc Hk. unfold print_fixedstruct, decorate, decorate_colour, has_prefix, prefix. rewrite Hc, Hk.
  destruct (o_file o), (o_date o); simpl orb; cbv iota.
  - unfold print_fixedstruct_prependfile_prependdate_color.
    apply peq_app; [apply peq_by_norm; reflexivity | apply peq_refl].
  - unfold print_fixedstruct_prependfile_color.
    apply peq_app; [apply peq_by_norm; simpl; rewrite app_nil_r; reflexivity | apply peq_refl].
  - unfold print_fixedstruct_prependdate_color.
    apply peq_app; [apply peq_by_norm; reflexivity | apply peq_refl].
  - apply peq_refl.
Qed.

Lemma evtx_colour o m : o_colour o = true -> m_kind m = KEvtx ->
  nl_split [] (m_data m) = flat_lines m -> peq (print_evtx o m) (decorate o m).
Proof.
  intros Hc Hk Hwf. unfold print_evtx, decorate, decorate_colour, has_prefix, prefix. rewrite Hc, Hk.
  destruct (o_file o), (o_date o); simpl orb; cbv iota;
    try (unfold print_evtx_prepend_color; rewrite Hwf; apply peq_app; [|apply peq_refl];
         apply peq_loop_at; intros a x; rewrite !app_assoc; apply peq_app; [|apply peq_refl];
         apply peq_by_norm; simpl; rewrite ?app_nil_r; reflexivity).
  apply peq_refl.
Qed.

Lemma journal_colour o m : o_colour o = true -> m_kind m = KJournal ->
  nl_split [] (m_data m) = flat_lines m -> peq (print_journalentry o m) (decorate o m).
Proof.
  intros Hc Hk Hwf. unfold print_journalentry, decorate, decorate_colour, has_prefix, prefix. rewrite Hc, Hk.
  destruct (o_file o), (o_date o); simpl orb; cbv iota;
    try (unfold print_journalentry_prepend_color; rewrite Hwf; apply peq_app; [|apply peq_refl];
         apply peq_loop_at; intros a x; rewrite !app_assoc; apply peq_app; [|apply peq_refl];
         apply peq_by_norm; simpl; rewrite ?app_nil_r; reflexivity).
  apply peq_refl.
Qed.

(* ---------------------------------------------------------------- C13 variants_agree *)
Theorem variants_agree_peq o m : wf_full m -> peq (print_msg o m) (decorate o m).
Proof.
  intros [Hwf Hsys]. unfold print_msg. unfold wf_msg in Hwf.
  destruct (m_kind m) eqn:Hk; destruct (o_colour o) eqn:Hc.
  - apply sys_colour; assumption.
  - apply sys_plain; assumption.
  - apply fixed_colour; assumption.
  - apply fixed_plain; assumption.
  - apply evtx_colour; assumption.
  - apply evtx_plain; assumption.
  - apply journal_colour; assumption.
  - apply journal_plain; assumption.
Qed.

(* regression: the variant as it was before /repo commit e7fb2a14 (datetime field written before
   the file field) did NOT agree with the canonical decoration *)
Definition old_print_fixedstruct_prependfile_prependdate (o : popts) (m : msg) : prog :=
  [W (date_field o (m_t m)); W (o_ff o); W (m_data m); F].

Definition f11_o : popts :=
  {| o_colour := false; o_file := true; o_date := true; o_ff := [102;58]%N; o_fmt := [37;89;58]%N; o_off := 0%Z |}.
Definition f11_m : msg :=
  {| m_kind := KFixed; m_t := 0%Z; m_lines := [[[120;10]%N]]; m_beg := 0; m_end := 0 |}.

Lemma old_fixedstruct_variant_refuted :
  wf_full f11_m /\
  sem_out (old_print_fixedstruct_prependfile_prependdate f11_o f11_m) None <> sem_out (decorate f11_o f11_m) None /\
  payload (sem_out (old_print_fixedstruct_prependfile_prependdate f11_o f11_m) None) = [49;57;55;48;58;102;58;120;10]%N /\
  payload (sem_out (print_msg f11_o f11_m) None) = [102;58;49;57;55;48;58;120;10]%N /\
  payload (sem_out (decorate f11_o f11_m) None) = [102;58;49;57;55;48;58;120;10]%N.
Proof.
  split; [|split; [|split; [|split]]].
  - split; [exists [[120;10]%N]; reflexivity | exact I].
  - vm_compute. discriminate.
  - vm_compute. reflexivity.
  - vm_compute. reflexivity.
  - vm_compute. reflexivity.
Qed.
