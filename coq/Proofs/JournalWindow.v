(* Proofs/JournalWindow.v — the reader's seek + enumeration loop selects exactly
   the window, for every journal whose receive times are non-decreasing. *)
From S4.Base Require Import Bytes.
From S4.Model Require Import Journal.
From S4.Spec Require Import JournalSpec.
Open Scope Z_scope.

Lemma nondec_tail x l : nondecreasing (x :: l) -> nondecreasing l.
Proof. simpl. tauto. Qed.

Lemma nondec_head_le l : forall x, nondecreasing (x :: l) -> forall y, In y l -> x <= y.
Proof.
  induction l as [|z l IH]; intros x H y Hy.
  - destruct Hy.
  - destruct H as [Hxz Hr]. destruct Hy as [->|Hy].
    + exact Hxz.
    + specialize (IH z Hr y Hy). lia.
Qed.

Lemma nondecreasingb_ok l : nondecreasingb l = true <-> nondecreasing l.
Proof.
  induction l as [|x l IH]; simpl.
  - tauto.
  - rewrite andb_true_iff, IH. destruct l; [tauto|]. rewrite Z.leb_le. tauto.
Qed.

Lemma filter_none {A} (f : A -> bool) l : (forall x, In x l -> f x = false) -> filter f l = [].
Proof.
  induction l as [|a l IH]; intro H; simpl; [reflexivity|].
  rewrite (H a (or_introl eq_refl)). apply IH. intros x Hx. apply H. right. exact Hx.
Qed.

Lemma filter_all {A} (f : A -> bool) l : (forall x, In x l -> f x = true) -> filter f l = l.
Proof.
  induction l as [|a l IH]; intro H; simpl; [reflexivity|].
  rewrite (H a (or_introl eq_refl)). f_equal. apply IH. intros x Hx. apply H. right. exact Hx.
Qed.

Lemma in_times e j : In e j -> In (e_time e) (times j).
Proof. intro H. unfold times. apply in_map. exact H. Qed.

(* the clamped conversion selects the same entries as the bound itself, for valid
   (positive) receive times *)
Lemma realtime_of_i64_max x : x < 18446744073709551616 -> realtime_of_i64 x = Z.max 0 x.
Proof. intro H. unfold realtime_of_i64, u64_of_i64. apply Z.mod_small. lia. Qed.

Lemma in_window_clamp A B t :
  0 < t -> bound_rep A -> bound_rep B ->
  in_window (bound_us A) (bound_us B) t = in_window A B t.
Proof.
  intros Ht HA HB. unfold in_window. f_equal.
  - destruct A as [a|]; [|reflexivity]. cbn [bound_us option_map]. cbn in HA.
    rewrite (realtime_of_i64_max _ HA).
    destruct (a <=? t) eqn:E; [apply Z.leb_le in E; apply Z.leb_le; lia|apply Z.leb_gt in E; apply Z.leb_gt; lia].
  - destruct B as [b|]; [|reflexivity]. cbn [bound_us option_map]. cbn in HB.
    rewrite (realtime_of_i64_max _ HB).
    destruct (t <=? b) eqn:E; [apply Z.leb_le in E; apply Z.leb_le; lia|apply Z.leb_gt in E; apply Z.leb_gt; lia].
Qed.

(* non-negative bounds are not changed by either conversion *)
Lemma bound_us_ok b : bound_ok b -> bound_us b = b.
Proof.
  destruct b as [x|]; simpl; intro H; [|reflexivity].
  rewrite realtime_of_i64_max by lia. f_equal. lia.
Qed.

Definition lower (A : option Z) (t : Z) : bool := match A with None => true | Some a => a <=? t end.
Definition upper (B : option Z) (t : Z) : bool := match B with None => true | Some b => t <=? b end.

(* the strict stop test on a non-decreasing pending list keeps exactly the entries
   up to and including the bound *)
Lemma next_loop_stop_after B : forall l,
  nondecreasing (times l) ->
  next_loop stop_after B l = filter (fun e => upper B (e_time e)) l.
Proof.
  induction l as [|e r IH]; intro Hs; [reflexivity|].
  cbn [next_loop filter]. destruct B as [b|]; cbn [stop_after upper].
  - destruct (b <? e_time e) eqn:Hc.
    + apply Z.ltb_lt in Hc.
      replace (e_time e <=? b) with false by (symmetry; apply Z.leb_gt; lia).
      symmetry. apply filter_none. intros x Hx.
      pose proof (nondec_head_le _ _ Hs _ (in_times _ _ Hx)). apply Z.leb_gt. lia.
    + apply Z.ltb_ge in Hc.
      replace (e_time e <=? b) with true by (symmetry; apply Z.leb_le; lia).
      f_equal. apply IH. exact (nondec_tail _ _ Hs).
  - f_equal. apply IH. exact (nondec_tail _ _ Hs).
Qed.

(* seek (all entries at or after the lower bound) followed by the loop *)
Lemma loop_after_seek A B : forall j,
  nondecreasing (times j) ->
  next_loop stop_after B (filter (fun e => lower A (e_time e)) j)
  = filter (fun e => in_window A B (e_time e)) j.
Proof.
  induction j as [|e r IH]; intro Hs; [reflexivity|].
  cbn [filter]. unfold in_window at 1. fold (lower A (e_time e)). fold (upper B (e_time e)).
  destruct (lower A (e_time e)) eqn:Hl; cbn [andb].
  - cbn [next_loop]. destruct B as [b|]; cbn [stop_after upper].
    + destruct (b <? e_time e) eqn:Hc.
      * apply Z.ltb_lt in Hc.
        replace (e_time e <=? b) with false by (symmetry; apply Z.leb_gt; lia).
        symmetry. apply filter_none. intros x Hx.
        pose proof (nondec_head_le _ _ Hs _ (in_times _ _ Hx)).
        unfold in_window. replace (e_time x <=? b) with false by (symmetry; apply Z.leb_gt; lia).
        apply andb_false_r.
      * apply Z.ltb_ge in Hc.
        replace (e_time e <=? b) with true by (symmetry; apply Z.leb_le; lia).
        f_equal. apply IH. exact (nondec_tail _ _ Hs).
    + f_equal. apply IH. exact (nondec_tail _ _ Hs).
  - apply IH. exact (nondec_tail _ _ Hs).
Qed.

Section WithOracle.
  Variable sd_seek_head : journal -> list entry.
  Variable sd_seek_realtime : journal -> Z -> list entry.
  (* oracle contract J1 (libsystemd) *)
  Hypothesis J1 : J1_contract sd_seek_head sd_seek_realtime.

  Lemma analyze_is_filter j A :
    nondecreasing (times j) ->
    analyze sd_seek_head sd_seek_realtime j A = filter (fun e => lower A (e_time e)) j.
  Proof.
    intro Hs. destruct J1 as [Hh Hr]. destruct A as [a|]; cbn [analyze lower].
    - apply Hr. exact Hs.
    - rewrite Hh. symmetry. apply filter_all. reflexivity.
  Qed.

  Theorem journal_out_correct_l : forall j A B,
    nondecreasing (times j) -> valid_realtimes (times j) -> bound_rep A -> bound_rep B ->
    journal_run sd_seek_head sd_seek_realtime stop_after A B j = window e_time A B j.
  Proof.
    intros j A B Hs Hv HA HB. unfold journal_run, window.
    rewrite (analyze_is_filter _ _ Hs), (loop_after_seek _ _ _ Hs).
    apply filter_ext_in. intros e He. apply in_window_clamp; [|exact HA|exact HB].
    apply Hv. apply in_times. exact He.
  Qed.

  (* each in-window entry is printed, nothing else is, and nothing is printed twice *)
  Theorem journal_out_each_once_l : forall j A B,
    nondecreasing (times j) -> valid_realtimes (times j) -> bound_rep A -> bound_rep B ->
    let out := journal_run sd_seek_head sd_seek_realtime stop_after A B j in
    (forall e, In e out <-> In e j /\ in_window A B (e_time e) = true) /\
    (NoDup j -> NoDup out) /\
    length out = length (window_idx A B (times j)).
  Proof.
    intros j A B Hs Hv HA HB out. subst out. rewrite (journal_out_correct_l _ _ _ Hs Hv HA HB).
    unfold window. split; [|split].
    - intro e. apply filter_In.
    - apply NoDup_filter.
    - unfold window_idx. generalize 0%N. clear Hs Hv. induction j as [|e r IH]; intro i; [reflexivity|].
      cbn [times map filter window_idx_from]. destruct (in_window A B (e_time e)); cbn [length]; rewrite (IH (i + 1)%N); reflexivity.
  Qed.

  (* bytes on stdout, any rendering *)
  Theorem journal_stdout_correct_l : forall r j A B,
    nondecreasing (times j) -> valid_realtimes (times j) -> bound_rep A -> bound_rep B ->
    journal_stdout sd_seek_head sd_seek_realtime stop_after r A B j
    = concat (map (render r) (window e_time A B j)).
  Proof.
    intros. unfold journal_stdout. rewrite journal_out_correct_l by assumption. reflexivity.
  Qed.
End WithOracle.

(* the reference oracle satisfies J1: the contract is satisfiable *)
Lemma ref_oracle_J1 : J1_contract ref_seek_head ref_seek_realtime.
Proof.
  split; [reflexivity|].
  induction j as [|e r IH]; intros a Hs; [reflexivity|].
  cbn [ref_seek_realtime filter]. destruct (a <=? e_time e) eqn:Hc.
  - f_equal. symmetry. apply filter_all. intros x Hx.
    pose proof (nondec_head_le _ _ Hs _ (in_times _ _ Hx)). apply Z.leb_le in Hc. apply Z.leb_le. lia.
  - apply IH. exact (nondec_tail _ _ Hs).
Qed.

(* ---- refuted: the stop test before the repair (F2) makes the upper bound exclusive *)
Definition w_entry (t : Z) : entry := mkEntry t [] None [].
Definition w_journal : journal := [w_entry 5; w_entry 7].

Lemma journal_upper_bound_refuted_l :
  exists j A B, nondecreasing (times j) /\ bound_ok A /\ bound_ok B /\
    journal_run ref_seek_head ref_seek_realtime stop_at_or_after A B j <> window e_time A B j.
Proof.
  exists w_journal, (Some 5), (Some 5). repeat split; try (cbn; lia).
  vm_compute. discriminate.
Qed.

(* with the repaired test the same witness is handled (regression) *)
Example journal_upper_bound_witness_repaired :
  journal_run ref_seek_head ref_seek_realtime stop_after (Some 5) (Some 5) w_journal = [w_entry 5].
Proof. vm_compute. reflexivity. Qed.

(* ---- regression: with the conversion before the repair (`as u64` without the clamp) a
   bound before 1970 wrapped, and every entry was dropped *)
Lemma journal_pre_epoch_bound_refuted_l :
  exists j A B, nondecreasing (times j) /\ valid_realtimes (times j) /\ bound_rep A /\ bound_rep B /\
    journal_run_wrapping ref_seek_head ref_seek_realtime stop_after A B j <> window e_time A B j.
Proof.
  exists w_journal, (Some (-1)), None. split; [cbn; lia|]. split.
  - intros t [<-|[<-|[]]]; cbn; lia.
  - split; [cbn; lia|]. split; [exact I|]. vm_compute. discriminate.
Qed.

(* with the clamp the same witness is handled *)
Example journal_pre_epoch_witness_repaired :
  journal_run ref_seek_head ref_seek_realtime stop_after (Some (-1)) None w_journal = w_journal
  /\ journal_run ref_seek_head ref_seek_realtime stop_after None (Some (-1)) w_journal = [].
Proof. split; vm_compute; reflexivity. Qed.

(* [valid_realtimes] is needed: an (invalid) entry stamped exactly 0 would be printed
   for an upper bound before 1970 *)
Lemma journal_zero_time_refuted_l :
  exists j A B, nondecreasing (times j) /\ bound_rep A /\ bound_rep B /\
    journal_run ref_seek_head ref_seek_realtime stop_after A B j <> window e_time A B j.
Proof.
  exists [w_entry 0], None, (Some (-1)). split; [cbn; lia|]. split; [exact I|]. split; [cbn; lia|].
  vm_compute. discriminate.
Qed.

(* hypotheses of journal_out_correct are satisfiable, non-trivially *)
Example journal_out_example :
  nondecreasing (times [w_entry 1; w_entry 5; w_entry 5; w_entry 9]) /\
  valid_realtimes (times [w_entry 1; w_entry 5; w_entry 5; w_entry 9]) /\
  journal_run ref_seek_head ref_seek_realtime stop_after (Some 5) (Some 5)
    [w_entry 1; w_entry 5; w_entry 5; w_entry 9] = [w_entry 5; w_entry 5].
Proof. split; [cbn; lia|]. split; [intros t [<-|[<-|[<-|[<-|[]]]]]; cbn; lia | vm_compute; reflexivity]. Qed.
