(* Proofs/EvtxProofs.v — C10: insert keyed (timestamp, enumeration index) + pop_first prints
   the stable sort by creation time of the records inside the window, each once. *)
From Coq Require Import List NArith ZArith Bool Lia Sorted Permutation.
Import ListNotations.
From S4.Spec Require Import RecordsSpec.
From S4.Model Require Import Records Evtx.
From S4.Proofs Require Import StableSort KeyedMap.
Open Scope N_scope.

Lemma ts_pass_keep lo hi i t : ts_pass lo hi t = ev_keep lo hi (mkev i t).
Proof.
  unfold ts_pass, ev_keep, in_window, Z.ltb. simpl.
  destruct lo as [a|], hi as [b|]; simpl;
    try rewrite (Z.compare_antisym t a); try rewrite (Z.compare_antisym t b);
    unfold cmp_leb;
    try destruct (t ?= a)%Z; simpl; try destruct (t ?= b)%Z; reflexivity.
Qed.

Lemma ev_keep_inclusive lo hi e :
  ev_keep lo hi e = true <->
  (forall a, lo = Some a -> (a <= e_ts e)%Z) /\ (forall b, hi = Some b -> (e_ts e <= b)%Z).
Proof.
  unfold ev_keep, in_window. rewrite andb_true_iff.
  assert (Hc : forall x y : Z, cmp_leb (x ?= y)%Z = true <-> (x <= y)%Z).
  { intros x y. unfold Z.le, cmp_leb. destruct (x ?= y)%Z; split; congruence. }
  split.
  - intros [H1 H2]. split.
    + intros a ->. apply Hc. exact H1.
    + intros b ->. apply Hc. exact H2.
  - intros [H1 H2]. split.
    + destruct lo as [a|]; [apply Hc; apply H1; reflexivity|reflexivity].
    + destruct hi as [b|]; [apply Hc; apply H2; reflexivity|reflexivity].
Qed.

Definition keyE (e : ev) : EK := (e_ts e, e_idx e).
Definition decoE (e : ev) : EK * N := deco keyE e_idx e.
Definition ins_ev (acc : list ev) (x : ev) : list ev := insert_after ev_tle x acc.

Lemma ek_insert_agrees x l :
  Forall (fun y => e_idx y < e_idx x) l ->
  minsert ek_cmp (keyE x) (e_idx x) (map decoE l) = map decoE (insert_after ev_tle x l).
Proof.
  intro H. apply (minsert_insert_after ev EK N ek_cmp keyE e_idx ev_tle).
  intros y Hy. rewrite Forall_forall in H. specialize (H y Hy).
  unfold ek_cmp, pair_cmp, keyE, ev_tle, Z.leb. simpl.
  rewrite (Z.compare_antisym (e_ts x) (e_ts y)).
  destruct (e_ts x ?= e_ts y)%Z; simpl; try reflexivity.
  apply N.compare_gt_iff. exact H.
Qed.

Lemma index_evs_bound i rs e : In e (index_evs i rs) -> i <= e_idx e.
Proof.
  revert i; induction rs as [|[t|] r IH]; intros i H; simpl in H.
  - contradiction.
  - destruct H as [<-|H]; [simpl; lia|]. apply IH in H. lia.
  - apply IH in H. lia.
Qed.

Lemma analyze_spec lo hi i rs acc :
  Forall (fun y => e_idx y < i) acc ->
  analyze lo hi i rs (map decoE acc)
  = map decoE (fold_left ins_ev (filter (ev_keep lo hi) (index_evs i rs)) acc).
Proof.
  revert i acc. induction rs as [|[t|] r IH]; intros i acc Hacc; simpl.
  - reflexivity.
  - rewrite (ts_pass_keep lo hi i t).
    destruct (ev_keep lo hi (mkev i t)) eqn:Ek.
    + cbn [fold_left]. unfold ins_ev at 2.
      change (t, i) with (keyE (mkev i t)).
      change i with (e_idx (mkev i t)) at 3.
      rewrite ek_insert_agrees by exact Hacc.
      apply IH. apply Forall_forall. intros y Hy.
      apply (insert_after_in ev ev_tle) in Hy as [->|Hy].
      * simpl. lia.
      * rewrite Forall_forall in Hacc. specialize (Hacc y Hy). lia.
    + apply IH. eapply Forall_impl; [|exact Hacc]. simpl. intros; lia.
  - apply IH. eapply Forall_impl; [|exact Hacc]. simpl. intros; lia.
Qed.

Lemma drain_all (m : kmap EK N) acc :
  drain (length m) m acc = DDone (rev acc ++ map snd m).
Proof.
  revert acc; induction m as [|[k v] r IH]; intro acc; simpl.
  - rewrite app_nil_r. reflexivity.
  - rewrite IH. simpl. rewrite <- app_assoc. reflexivity.
Qed.

Lemma ev_tle_total a b : ev_tle a b = true \/ ev_tle b a = true.
Proof. unfold ev_tle. rewrite !Z.leb_le. lia. Qed.
Lemma ev_tle_trans a b c : ev_tle a b = true -> ev_tle b c = true -> ev_tle a c = true.
Proof. unfold ev_tle. rewrite !Z.leb_le. lia. Qed.

(* main theorem of C10: for every enumeration (any order, equal times, undecodable records
   in between) and every window, `next` is called |map| + 1 times (fuel = |map| suffices)
   and the records sent are the spec's, in the spec's order *)
Theorem evtx_out_correct lo hi rs :
  evtx_out lo hi rs = DDone (map e_idx (spec_events lo hi (index_evs 0 rs))).
Proof.
  unfold evtx_out.
  pose proof (analyze_spec lo hi 0 rs [] (Forall_nil _)) as Hm. simpl map in Hm at 1.
  rewrite drain_all. rewrite Hm, map_map. reflexivity.
Qed.

Theorem evtx_map_size lo hi rs :
  length (analyze lo hi 0 rs []) = length (filter (ev_keep lo hi) (index_evs 0 rs)).
Proof.
  pose proof (analyze_spec lo hi 0 rs [] (Forall_nil _)) as Hm. simpl map in Hm at 1.
  rewrite Hm, map_length.
  change (fold_left ins_ev (filter (ev_keep lo hi) (index_evs 0 rs)) [])
    with (stable_sort ev_tle (filter (ev_keep lo hi) (index_evs 0 rs))).
  apply (stable_sort_length ev ev_tle).
Qed.

Theorem spec_events_perm lo hi evs :
  Permutation (spec_events lo hi evs) (filter (ev_keep lo hi) evs).
Proof. apply (stable_sort_perm ev ev_tle). Qed.

Theorem spec_events_sorted lo hi evs :
  StronglySorted (fun a b => (e_ts a <= e_ts b)%Z) (spec_events lo hi evs).
Proof.
  pose proof (stable_sort_sorted ev ev_tle ev_tle_total ev_tle_trans (filter (ev_keep lo hi) evs)) as H.
  unfold sorted in H. unfold spec_events.
  induction H; constructor; [assumption|].
  eapply Forall_impl; [|eassumption]. intros x Hx. unfold le_prop, ev_tle in Hx.
  apply Z.leb_le. exact Hx.
Qed.

Lemma same_is_ts_eqb z x : same ev ev_tle z x = Z.eqb (e_ts z) (e_ts x).
Proof.
  unfold same, ev_tle. destruct (Z.eqb_spec (e_ts z) (e_ts x)) as [E|E].
  - rewrite E, Z.leb_refl. reflexivity.
  - destruct (Z.leb_spec (e_ts z) (e_ts x)); destruct (Z.leb_spec (e_ts x) (e_ts z)); simpl; try reflexivity; lia.
Qed.

(* stability: records of one creation time appear in file (enumeration) order *)
Theorem spec_events_stable lo hi evs t :
  filter (fun e => Z.eqb t (e_ts e)) (spec_events lo hi evs)
  = filter (fun e => Z.eqb t (e_ts e)) (filter (ev_keep lo hi) evs).
Proof.
  pose proof (stable_sort_stable ev ev_tle ev_tle_total ev_tle_trans (mkev 0 t)
                                 (filter (ev_keep lo hi) evs)) as H.
  rewrite !(filter_ext (same ev ev_tle (mkev 0 t)) (fun e => Z.eqb t (e_ts e))) in H
    by (intro x; apply same_is_ts_eqb).
  exact H.
Qed.

Lemma index_evs_nodup i rs : NoDup (map e_idx (index_evs i rs)).
Proof.
  revert i; induction rs as [|[t|] r IH]; intro i; simpl.
  - constructor.
  - constructor; [|apply IH].
    intro H. apply in_map_iff in H as [e [E He]]. apply index_evs_bound in He. lia.
  - apply IH.
Qed.

Theorem evtx_out_nodup lo hi rs : NoDup (map e_idx (spec_events lo hi (index_evs 0 rs))).
Proof.
  apply (Permutation_NoDup (l := map e_idx (filter (ev_keep lo hi) (index_evs 0 rs)))).
  - apply Permutation_map. apply Permutation_sym. apply spec_events_perm.
  - pose proof (index_evs_nodup 0 rs) as H.
    induction (index_evs 0 rs) as [|e l IH]; simpl; [constructor|].
    inversion H as [|? ? Hn Hl]; subst.
    destruct (ev_keep lo hi e); simpl; [|apply IH; exact Hl].
    constructor; [|apply IH; exact Hl].
    intro G. apply Hn. apply in_map_iff in G as [e' [E G]]. apply filter_In in G as [G _].
    apply in_map_iff. exists e'. split; assumption.
Qed.

Example evtx_out_example :
  evtx_out (Some 10%Z) (Some 20%Z) [Some 20; Some 10; None; Some 15; Some 10; Some 21; Some 9; Some 20]%Z
  = DDone [1; 4; 3; 0; 7].
Proof. vm_compute. reflexivity. Qed.
