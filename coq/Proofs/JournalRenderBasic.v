(* Proofs/JournalRenderBasic.v — the ten renderings: structure of a run.
   * the output of a run is the concatenation, over exactly the in-window entries in journal
     order, of a function of the single entry (and of the run's zone / host bit): no state is
     carried from one entry to the next;
   * the entries handed to the renderer do not depend on the rendering; with an accepted
     configuration nine renderings print every one of them (never an empty text), `cat` prints
     exactly those that carry its key;
   * no panic for an accepted configuration;
   * which renderings depend on the host bit (get_monotonic_usec), which do not;
   * the time shown is the receive time under the current DT_USES_SOURCE_OVERRIDE. *)
From Coq Require Import String.
From S4.Base Require Import Bytes.
From S4.Model Require Import PrintCal Strftime Journal JournalRender.
From S4.Spec Require Import JournalSpec.
From S4.Proofs Require Import JournalWindow JournalExport.
Open Scope N_scope.

(* ------------------------------------------------------------------ acceptance of a format does not depend on the instant *)

Lemma strftime_some_iff fmt t off t' off' :
  is_some (strftime fmt t off) = is_some (strftime fmt t' off').
Proof. unfold strftime. destruct (parse_fmt fmt); reflexivity. Qed.

Lemma fmt_seg_some_iff t off t' off' s :
  is_some (fmt_seg t off s) = is_some (fmt_seg t' off' s).
Proof. destruct s; cbn [fmt_seg is_some]; try reflexivity. apply strftime_some_iff. Qed.

Lemma concat_opt_some_iff (l l' : list (option bytes)) :
  map is_some l = map is_some l' -> is_some (concat_opt l) = is_some (concat_opt l').
Proof.
  revert l'. induction l as [|a l IH]; intros [|b l'] H; try discriminate; [reflexivity|].
  cbn [map] in H. injection H as Hab Hl. specialize (IH l' Hl).
  destruct a, b; cbn [is_some] in Hab; try discriminate; cbn [concat_opt]; [|reflexivity].
  destruct (concat_opt l), (concat_opt l'); cbn [is_some] in *; try discriminate; reflexivity.
Qed.

Lemma jstrftime_some_iff fmt t off t' off' :
  is_some (jstrftime fmt t off) = is_some (jstrftime fmt t' off').
Proof.
  unfold jstrftime. apply concat_opt_some_iff. rewrite !map_map.
  apply map_ext. intro s. apply fmt_seg_some_iff.
Qed.

Lemma fmt_accepted_some fmt t off : fmt_accepted fmt = true -> exists s, jstrftime fmt t off = Some s.
Proof.
  unfold fmt_accepted. rewrite (jstrftime_some_iff fmt 0 0 t off).
  destruct (jstrftime fmt t off) as [s|]; [intros _; exists s; reflexivity|discriminate].
Qed.

Lemma in_all_outputs o : In o all_outputs.
Proof. destruct o; cbn; tauto. Qed.

Lemma cfg_ok_formats cfg : cfg_ok cfg = true -> cfg_formats_ok cfg = true.
Proof.
  unfold cfg_ok. intro H. do 7 (apply andb_true_iff in H as [H _]). exact H.
Qed.

Lemma formats_ok_dispatch cfg o fmt :
  cfg_formats_ok cfg = true -> cfg_dispatch cfg o = DShort fmt false -> fmt_accepted fmt = true.
Proof.
  unfold cfg_formats_ok. intros H Hd. apply andb_true_iff in H as [H _].
  rewrite forallb_forall in H. specialize (H o (in_all_outputs o)). rewrite Hd in H. exact H.
Qed.

Lemma formats_ok_verbose cfg : cfg_formats_ok cfg = true -> fmt_accepted (cfg_fmt_verbose cfg) = true.
Proof. unfold cfg_formats_ok. intro H. apply andb_true_iff in H as [_ H]. exact H. Qed.

(* ------------------------------------------------------------------ what each dispatch arm returns *)

Lemma short_tail_ends st : exists b, short_tail st = b ++ [NL].
Proof. unfold short_tail. rewrite !app_assoc. eexists. reflexivity. Qed.

Lemma render_short_found cfg ev fmt mono e :
  (mono = false -> fmt_accepted fmt = true) ->
  exists b, render_short cfg ev fmt mono e = Some (b ++ [NL]).
Proof.
  intro Hf. unfold render_short, short_head. destruct (short_tail_ends (short_found cfg e)) as [tl Htl].
  destruct mono.
  - eexists. rewrite Htl, app_assoc. reflexivity.
  - unfold entry_dt_text. destruct (fmt_accepted_some fmt (shown_us cfg e * 1000)%Z (env_off ev) (Hf eq_refl)) as [s Hs].
    rewrite Hs, Htl, app_assoc. eexists. reflexivity.
Qed.

Lemma render_verbose_found cfg ev e :
  fmt_accepted (cfg_fmt_verbose cfg) = true ->
  exists ts, entry_dt_text cfg ev (cfg_fmt_verbose cfg) e = Some ts /\
             render_verbose cfg ev e = Some (ts ++ SP :: bracketed (e_cursor e) ++ NL :: verbose_body cfg (verbose_map cfg ev e)).
Proof.
  intro Hf. unfold render_verbose, entry_dt_text.
  destruct (fmt_accepted_some _ (shown_us cfg e * 1000)%Z (env_off ev) Hf) as [s Hs].
  exists s. rewrite Hs. split; reflexivity.
Qed.

Lemma render_export_ends e : exists b, render_export e = b ++ [NL].
Proof. unfold render_export, print_export_with. rewrite app_assoc. eexists. reflexivity. Qed.

(* a text that is empty or ends with a newline *)
Definition nl_ended (b : bytes) : Prop := b = [] \/ exists x, b = x ++ [NL].

Lemma nl_ended_app a b : nl_ended a -> nl_ended b -> nl_ended (a ++ b).
Proof.
  intros Ha [->|[y ->]]; [rewrite app_nil_r; exact Ha|].
  right. exists (a ++ y). rewrite app_assoc. reflexivity.
Qed.

Lemma vline_nl cfg k v : nl_ended (vline cfg k v).
Proof.
  right. exists (cfg_field_beg cfg ++ k ++ EQ :: v). unfold vline. rewrite <- !app_assoc. cbn [app]. reflexivity.
Qed.

Lemma concat_nl (l : list bytes) : (forall x, In x l -> nl_ended x) -> nl_ended (concat l).
Proof.
  induction l as [|x l IH]; intro H; [left; reflexivity|].
  cbn [concat]. apply nl_ended_app; [apply H; left; reflexivity|apply IH; intros y Hy; apply H; right; exact Hy].
Qed.

Lemma vlines_nl cfg k vs : nl_ended (vlines cfg k vs).
Proof. unfold vlines. apply concat_nl. intros x Hx. apply in_map_iff in Hx as [v [<- _]]. apply vline_nl. Qed.

Lemma take_ordered_nl cfg : forall order m out m', take_ordered cfg order m = (out, m') -> nl_ended out.
Proof.
  induction order as [|k r IH]; intros m out m' H; cbn [take_ordered] in H.
  - injection H as <- _. left. reflexivity.
  - destruct (vm_take k m) as [vs m1]. destruct (take_ordered cfg r m1) as [out' m''] eqn:Ht. injection H as <- _.
    apply nl_ended_app; [apply vlines_nl|exact (IH _ _ _ Ht)].
Qed.

Lemma verbose_body_nl cfg m : nl_ended (verbose_body cfg m).
Proof.
  unfold verbose_body. destruct (vm_take (cfg_k_source_rt cfg) m) as [src m1].
  destruct (take_ordered cfg (cfg_order cfg) m1) as [out m2] eqn:Ht.
  apply nl_ended_app; [exact (take_ordered_nl _ _ _ _ _ Ht)|]. apply nl_ended_app.
  - apply concat_nl. intros x Hx. apply in_map_iff in Hx as [f [<- _]]. apply vline_nl.
  - apply vlines_nl.
Qed.

(* no panic: every format of an accepted configuration is formatted *)
Theorem next_entry_no_panic_l cfg ev o e :
  cfg_formats_ok cfg = true -> next_entry cfg ev o e <> NPanic.
Proof.
  intro Hok. unfold next_entry. destruct (cfg_dispatch cfg o) as [fmt mono| | |] eqn:Hd.
  - destruct (render_short_found cfg ev fmt mono e) as [b Hb];
      [intro; subst mono; exact (formats_ok_dispatch cfg o fmt Hok Hd)|].
    rewrite Hb. discriminate.
  - destruct (render_verbose_found cfg ev e (formats_ok_verbose cfg Hok)) as [ts [_ Hr]]. rewrite Hr. discriminate.
  - discriminate.
  - destruct (get_data (cfg_k_cat cfg) e); discriminate.
Qed.

(* nine renderings always print the entry, the text ends with a newline (so it is never empty);
   cat prints exactly when its key is present *)
Theorem next_entry_found_l cfg ev o e :
  cfg_formats_ok cfg = true ->
  (is_cat (cfg_dispatch cfg o) = false -> exists b, next_entry cfg ev o e = NFound (b ++ [NL])) /\
  (is_cat (cfg_dispatch cfg o) = true ->
     match get_data (cfg_k_cat cfg) e with
     | Some m => next_entry cfg ev o e = NFound (m ++ [NL])
     | None => next_entry cfg ev o e = NErrIgnore
     end).
Proof.
  intro Hok. unfold next_entry. destruct (cfg_dispatch cfg o) as [fmt mono| | |] eqn:Hd; cbn [is_cat]; split; try discriminate; intros _.
  - destruct (render_short_found cfg ev fmt mono e) as [b Hb];
      [intro; subst mono; exact (formats_ok_dispatch cfg o fmt Hok Hd)|].
    rewrite Hb. exists b. reflexivity.
  - destruct (render_verbose_found cfg ev e (formats_ok_verbose cfg Hok)) as [ts [_ Hr]]. rewrite Hr.
    cbn [of_opt].
    destruct (verbose_body_nl cfg (verbose_map cfg ev e)) as [Hb|[b Hb]]; rewrite Hb.
    + exists (ts ++ SP :: bracketed (e_cursor e)). rewrite <- app_assoc. reflexivity.
    + exists (ts ++ SP :: bracketed (e_cursor e) ++ NL :: b).
      rewrite <- !app_assoc. cbn [app]. rewrite <- !app_assoc. reflexivity.
  - destruct (render_export_ends (host_view cfg ev e)) as [b Hb]. rewrite Hb. exists b. reflexivity.
  - destruct (get_data (cfg_k_cat cfg) e); reflexivity.
Qed.

(* ------------------------------------------------------------------ a run *)

Lemma emit_no_panic rs :
  (forall r, In r rs -> r <> NPanic) -> emit rs = concat (map entry_bytes rs).
Proof.
  induction rs as [|r rs IH]; intro H; [reflexivity|].
  cbn [emit map concat]. destruct r; try (rewrite IH by (intros x Hx; apply H; right; exact Hx); reflexivity).
  exfalso. apply (H NPanic); [left; reflexivity|reflexivity].
Qed.

Section WithOracle.
  Variable sd_head : journal -> list entry.
  Variable sd_rt : journal -> Z -> list entry.
  Hypothesis J1 : J1_contract sd_head sd_rt.

  (* the window never looks at the rendering: the entries handed to the renderer are the in-window
     entries, each once, in journal order — for every one of the ten renderings *)
  Theorem journal_trace10_entries_l cfg ev o j A B :
    nondecreasing (times j) -> valid_realtimes (times j) -> bound_rep A -> bound_rep B ->
    map fst (journal_trace10 sd_head sd_rt stop_after cfg ev o A B j) = window e_time A B j.
  Proof.
    intros Hs Hv HA HB. unfold journal_trace10.
    rewrite (journal_out_correct_l sd_head sd_rt J1 j A B Hs Hv HA HB), map_map. cbn [fst]. apply map_id.
  Qed.

  (* stdout is a function of the in-window entries alone, entry by entry *)
  Theorem journal_stdout10_correct_l cfg ev o j A B :
    nondecreasing (times j) -> valid_realtimes (times j) -> bound_rep A -> bound_rep B ->
    journal_stdout10 sd_head sd_rt stop_after cfg ev o A B j
    = emit (map (next_entry cfg ev o) (window e_time A B j)).
  Proof.
    intros Hs Hv HA HB. unfold journal_stdout10.
    rewrite (journal_out_correct_l sd_head sd_rt J1 j A B Hs Hv HA HB). reflexivity.
  Qed.

  Theorem journal_stdout10_concat_l cfg ev o j A B :
    cfg_formats_ok cfg = true ->
    nondecreasing (times j) -> valid_realtimes (times j) -> bound_rep A -> bound_rep B ->
    journal_stdout10 sd_head sd_rt stop_after cfg ev o A B j
    = concat (map (fun e => entry_bytes (next_entry cfg ev o e)) (window e_time A B j)).
  Proof.
    intros Hok Hs Hv HA HB. rewrite (journal_stdout10_correct_l cfg ev o j A B Hs Hv HA HB).
    rewrite emit_no_panic, map_map; [reflexivity|].
    intros r Hr. apply in_map_iff in Hr as [e [<- _]]. apply next_entry_no_panic_l. exact Hok.
  Qed.

  (* number of records printed: all in-window entries for nine renderings, those with the key for cat *)
  Theorem journal_printed10_l cfg ev o j A B :
    cfg_formats_ok cfg = true ->
    nondecreasing (times j) -> valid_realtimes (times j) -> bound_rep A -> bound_rep B ->
    journal_printed10 sd_head sd_rt stop_after cfg ev o A B j
    = if is_cat (cfg_dispatch cfg o)
      then length (filter (fun e => is_some (get_data (cfg_k_cat cfg) e)) (window e_time A B j))
      else length (window e_time A B j).
  Proof.
    intros Hok Hs Hv HA HB. unfold journal_printed10.
    rewrite (journal_out_correct_l sd_head sd_rt J1 j A B Hs Hv HA HB).
    generalize (window e_time A B j) as l. intro l.
    destruct (is_cat (cfg_dispatch cfg o)) eqn:Hc.
    - induction l as [|e l IH]; [reflexivity|]. cbn [map filter].
      pose proof (proj2 (next_entry_found_l cfg ev o e Hok) Hc) as H.
      destruct (get_data (cfg_k_cat cfg) e); rewrite H; cbn [is_found is_some length]; rewrite IH; reflexivity.
    - induction l as [|e l IH]; [reflexivity|]. cbn [map filter].
      destruct (proj1 (next_entry_found_l cfg ev o e Hok) Hc) as [b H]. rewrite H. cbn [is_found length]. rewrite IH. reflexivity.
  Qed.
End WithOracle.

(* the same number of records, in the same order, for any two renderings other than cat *)
Corollary journal_printed10_same_l sd_head sd_rt cfg ev o1 o2 j A B :
  J1_contract sd_head sd_rt -> cfg_formats_ok cfg = true ->
  is_cat (cfg_dispatch cfg o1) = false -> is_cat (cfg_dispatch cfg o2) = false ->
  nondecreasing (times j) -> valid_realtimes (times j) -> bound_rep A -> bound_rep B ->
  journal_printed10 sd_head sd_rt stop_after cfg ev o1 A B j = journal_printed10 sd_head sd_rt stop_after cfg ev o2 A B j
  /\ map fst (journal_trace10 sd_head sd_rt stop_after cfg ev o1 A B j)
     = map fst (journal_trace10 sd_head sd_rt stop_after cfg ev o2 A B j).
Proof.
  intros J1 Hok H1 H2 Hs Hv HA HB. split.
  - rewrite !(journal_printed10_l sd_head sd_rt J1) by assumption. rewrite H1, H2. reflexivity.
  - rewrite !(journal_trace10_entries_l sd_head sd_rt J1) by assumption. reflexivity.
Qed.

(* ------------------------------------------------------------------ the host bit *)

(* renderings that never ask for the monotonic time do not depend on the host *)
Theorem host_independent_l cfg off b1 b2 o e :
  match cfg_dispatch cfg o with DShort _ false | DCat => True | _ => False end ->
  next_entry cfg (mkEnv off b1) o e = next_entry cfg (mkEnv off b2) o e.
Proof.
  unfold next_entry. destruct (cfg_dispatch cfg o) as [fmt [|]| | |]; intro H; try contradiction; reflexivity.
Qed.

(* when sd_id128_get_boot succeeds, or is not called at all, the entry is seen as stored *)
Lemma host_view_ok cfg ev e : cfg_mono_needs_host cfg = false \/ env_boot_ok ev = true -> host_view cfg ev e = e.
Proof.
  intro H. unfold host_view, mono_usec. destruct e.
  destruct H as [-> | ->]; [reflexivity|rewrite andb_false_r; reflexivity].
Qed.

(* without that call no rendering depends on the host *)
Theorem host_independent_all_l cfg off b1 b2 o e :
  cfg_mono_needs_host cfg = false ->
  next_entry cfg (mkEnv off b1) o e = next_entry cfg (mkEnv off b2) o e.
Proof.
  intro H. unfold next_entry, render_short, short_head, render_verbose, verbose_map, host_view, mono_usec, entry_dt_text.
  rewrite H. reflexivity.
Qed.

(* ------------------------------------------------------------------ which instant is shown (Issue #101) *)

Theorem shown_is_receive_time_l cfg e :
  cfg_override cfg = Some DsRealtime -> shown_us cfg e = e_time e.
Proof. unfold shown_us. intros ->. reflexivity. Qed.
