(* Proofs/CliDtScanLemmas.v — general lemmas about the scanner of Model/CliDt.v on inputs of
   ARBITRARY length (digit runs of any length, any remainder): used by the universal theorems of
   C14 (Proofs/CliDtUniversal.v, CliDtLanguage.v, CliDtNamed.v) and by the print-then-parse
   round trip of C13 (Proofs/StrftimeRoundtrip.v). *)
From Coq Require Import ZArith Lia List Bool.
From S4.Base Require Import Bytes.
From S4.Model Require Import Calendar CliDt.
Import ListNotations.
Open Scope Z_scope.

(* ------------------------------------------------------------------ symbols *)
Definition head_nondigit (s : list sym) : Prop := match s with Dg _ :: _ => False | _ => True end.
Definition head_nondigitb (s : list sym) : bool := match s with Dg _ :: _ => false | _ => true end.

Lemma head_nondigitb_ok s : head_nondigitb s = true -> head_nondigit s.
Proof. destruct s as [|[v|c] r]; cbn; auto; discriminate. Qed.

Lemma head_nondigit_nil : head_nondigit [].
Proof. exact I. Qed.
Lemma head_nondigit_ch c r : head_nondigit (Ch c :: r).
Proof. exact I. Qed.

Definition digit_byte (d : N) : N := (48 + d)%N.

Lemma classify1_digit d : (d < 10)%N -> classify1 (digit_byte d) = Dg d.
Proof.
  intros H. unfold classify1, digit_byte.
  replace ((48 <=? 48 + d)%N && (48 + d <=? 57)%N) with true.
  - f_equal. lia.
  - symmetry. apply andb_true_iff. split; apply N.leb_le; lia.
Qed.

Lemma classify_digits ds : Forall (fun d => (d < 10)%N) ds -> classify (map digit_byte ds) = map Dg ds.
Proof.
  induction 1 as [|d r Hd _ IH]; [reflexivity|].
  cbn [map classify]. unfold classify in IH. rewrite IH, classify1_digit by assumption. reflexivity.
Qed.

Lemma classify_app a b : classify (a ++ b) = classify a ++ classify b.
Proof. apply map_app. Qed.

Lemma classify1_nondigit c : (c < 48)%N \/ (57 < c)%N -> classify1 c = Ch c.
Proof.
  intros H. unfold classify1.
  destruct (N.leb_spec 48 c), (N.leb_spec c 57); cbn [andb]; try reflexivity. lia.
Qed.

Lemma sym_is_classify1 b : sym_is (classify1 b) b = true.
Proof.
  unfold classify1.
  destruct (N.leb_spec 48 b) as [A|A], (N.leb_spec b 57) as [B|B]; cbn [andb sym_is].
  - rewrite (proj2 (N.leb_le 48 b) A), (proj2 (N.leb_le b 57) B). cbn [andb]. apply N.eqb_refl.
  - apply N.eqb_refl.
  - apply N.eqb_refl.
  - apply N.eqb_refl.
Qed.

(* ------------------------------------------------------------------ take_digits *)
Lemma take_digits_all ds s n :
  (length ds <= n)%nat -> head_nondigit s -> take_digits n (map Dg ds ++ s) = (ds, s).
Proof.
  revert n. induction ds as [|d r IH]; intros n Hn Hs.
  - cbn [map app]. destruct n; [reflexivity|]. destruct s as [|[v|c] t]; [reflexivity|destruct Hs|reflexivity].
  - destruct n; [cbn in Hn; lia|]. cbn [map app take_digits].
    rewrite IH by (cbn in Hn; lia || assumption). reflexivity.
Qed.

Lemma take_digits_exact ds s : take_digits (length ds) (map Dg ds ++ s) = (ds, s).
Proof.
  induction ds as [|d r IH]; [reflexivity|]. cbn [length map app take_digits]. rewrite IH. reflexivity.
Qed.

Lemma take_digits_more ds s n :
  (length ds <= n)%nat -> head_nondigit s -> take_digits n (map Dg ds ++ s) = (ds, s).
Proof. apply take_digits_all. Qed.

(* what take_digits returns, whatever the input: digits then the rest *)
Lemma take_digits_split n s ds r : take_digits n s = (ds, r) -> s = map Dg ds ++ r /\ (length ds <= n)%nat.
Proof.
  revert s ds r. induction n as [|n IH]; intros s ds r H.
  - cbn in H. inversion H; subst. split; [reflexivity|cbn; lia].
  - destruct s as [|[v|c] t]; cbn [take_digits] in H; try (inversion H; subst; split; [reflexivity|cbn; lia]).
    destruct (take_digits n t) as [ds' r'] eqn:E. inversion H; subst.
    destruct (IH _ _ _ E) as [-> L]. split; [reflexivity|cbn; lia].
Qed.

Lemma take_digits_stop n s ds r :
  take_digits n s = (ds, r) -> (length ds < n)%nat -> head_nondigit r.
Proof.
  revert s ds r. induction n as [|n IH]; intros s ds r H L; [lia|].
  destruct s as [|[v|c] t]; cbn [take_digits] in H.
  - inversion H; subst. exact I.
  - destruct (take_digits n t) as [ds' r'] eqn:E. inversion H; subst. cbn in L.
    eapply IH; [exact E|lia].
  - inversion H; subst. exact I.
Qed.

(* ------------------------------------------------------------------ whitespace *)
Lemma trim_ws_digit v r : trim_ws (Dg v :: r) = Dg v :: r.
Proof. reflexivity. Qed.

Lemma trim_ws_idem s : trim_ws (trim_ws s) = trim_ws s.
Proof.
  induction s as [|x r IH]; [reflexivity|]. cbn [trim_ws]. destruct (sym_ws x) eqn:E; [exact IH|].
  cbn [trim_ws]. rewrite E. reflexivity.
Qed.

Definition head_nonws (s : list sym) : Prop := match s with x :: _ => sym_ws x = false | [] => True end.

Lemma trim_ws_nonws s : head_nonws s -> trim_ws s = s.
Proof. destruct s as [|x r]; [reflexivity|]. cbn. intros ->. reflexivity. Qed.

Lemma trim_ws_head s : head_nonws (trim_ws s).
Proof.
  induction s as [|x r IH]; [exact I|]. cbn [trim_ws]. destruct (sym_ws x) eqn:E; [exact IH|exact E].
Qed.

(* ------------------------------------------------------------------ numbers *)
Lemma dnum_app a b : dnum (a ++ b) = fold_left (fun x d => 10 * x + Z.of_N d) b (dnum a).
Proof. unfold dnum. apply fold_left_app. Qed.

Lemma dnum_snoc a d : dnum (a ++ [d]) = 10 * dnum a + Z.of_N d.
Proof. rewrite dnum_app. reflexivity. Qed.

Lemma dnum_zero_cons r : dnum (0%N :: r) = dnum r.
Proof. reflexivity. Qed.

(* digit VALUES of the k low decimal digits of v, most significant first *)
Fixpoint dvals (k : nat) (v : Z) : list N :=
  match k with
  | O => []
  | S k' => dvals k' (v / 10) ++ [Z.to_N (v mod 10)]
  end.

Lemma dvals_length k v : length (dvals k v) = k.
Proof. revert v. induction k; intros; cbn; [reflexivity|]. rewrite app_length, IHk. cbn. lia. Qed.

Lemma dvals_lt10 k v : Forall (fun d => (d < 10)%N) (dvals k v).
Proof.
  revert v. induction k as [|k IH]; intros v; cbn [dvals]; [constructor|].
  apply Forall_app. split; [apply IH|]. constructor; [|constructor].
  pose proof (Z.mod_pos_bound v 10 ltac:(lia)). lia.
Qed.

Lemma dnum_dvals k v : dnum (dvals k v) = v mod 10 ^ Z.of_nat k.
Proof.
  revert v. induction k as [|k IH]; intros v.
  - cbn. rewrite Z.mod_1_r. reflexivity.
  - cbn [dvals]. rewrite dnum_snoc, IH. rewrite Nat2Z.inj_succ, Z.pow_succ_r by lia.
    rewrite Z2N.id by (apply Z.mod_pos_bound; lia).
    rewrite (Z.rem_mul_r v 10 (10 ^ Z.of_nat k)) by lia. lia.
Qed.

Lemma dnum_dvals_small k v : 0 <= v < 10 ^ Z.of_nat k -> dnum (dvals k v) = v.
Proof. intros H. rewrite dnum_dvals. apply Z.mod_small. exact H. Qed.

(* ------------------------------------------------------------------ first_some *)
Lemma first_some_none {A B} (f : A -> option B) l :
  (forall x, In x l -> f x = None) -> first_some f l = None.
Proof.
  induction l as [|x r IH]; intros H; [reflexivity|]. cbn [first_some].
  rewrite (H x (or_introl eq_refl)). apply IH. intros y Hy. apply H. right. exact Hy.
Qed.

Lemma first_some_app {A B} (f : A -> option B) l1 l2 :
  first_some f l1 = None -> first_some f (l1 ++ l2) = first_some f l2.
Proof.
  induction l1 as [|x r IH]; intros H; [reflexivity|]. cbn [first_some app] in *.
  destruct (f x); [discriminate|]. apply IH. exact H.
Qed.

Lemma first_some_some {A B} (f : A -> option B) l v :
  first_some f l = Some v -> exists x, In x l /\ f x = Some v.
Proof.
  induction l as [|x r IH]; intros H; [discriminate|]. cbn [first_some] in H.
  destruct (f x) eqn:E.
  - inversion H; subst. exists x. split; [left; reflexivity|exact E].
  - destruct (IH H) as [y [Hy Ey]]. exists y. split; [right; exact Hy|exact Ey].
Qed.

Lemma first_some_exists {A B} (f : A -> option B) l :
  first_some f l <> None <-> exists x, In x l /\ f x <> None.
Proof.
  split.
  - intros H. destruct (first_some f l) as [v|] eqn:E; [|contradiction].
    destruct (first_some_some _ _ _ E) as [x [Hx Ex]]. exists x. split; [exact Hx|]. rewrite Ex. discriminate.
  - intros [x [Hx Ex]] E. induction l as [|y r IH]; [destruct Hx|].
    cbn [first_some] in E. destruct (f y) eqn:Ey; [discriminate|].
    destruct Hx as [->|Hx]; [contradiction|]. exact (IH Hx E).
Qed.
