(* Proofs/CachesRunProofs.v — operation sequences on the cached readers.

   Part 6  drops and switches preserve the invariant
   Part 7  the stage driver over the cached reader: emits exactly the spec groups for every
           drop plan; its calls never hit a dropped range (no Panic)
   Part 8  arbitrary operation sequences: every answer is the spec answer (refinement), the only
           other outcome is the documented Panic after a drop; block-size independence *)
From S4.Base Require Import Bytes Chunk.
From S4.Spec Require Import LinesSpec.
From S4.Model Require Import Lines Syslines Caches.
From S4.Proofs Require Import LinesProofs SyslinesProofs CachesProofs CachesSysProofs.
Open Scope N_scope.

(* ================================================================ keys of association lists *)

Section Keys.
  Context {V : Type}.
  Implicit Types m : list (N * V).

  (* strictly ascending keys (what a BTreeMap iterates) *)
  Fixpoint asc m : Prop :=
    match m with
    | [] => True
    | (k, _) :: r => (forall k' v', In (k', v') r -> k < k') /\ asc r
    end.

  Lemma asc_ainsert k v m : asc m -> asc (ainsert k v m).
  Proof.
    induction m as [|[k' v'] m IH]; cbn; intro A.
    - split; [intros ? ? []|exact I].
    - destruct A as [A1 A2]. destruct (N.ltb_spec k k') as [L|L].
      + cbn. split; [|split; assumption].
        intros k2 v2 [E|E]; [inversion E; subst; exact L|]. specialize (A1 _ _ E). lia.
      + destruct (N.eqb_spec k k') as [E|E].
        * subst k'. cbn. split; assumption.
        * cbn. split; [|apply IH; exact A2].
          intros k2 v2 I2. apply In_ainsert in I2 as [I2|I2]; [inversion I2; subst; lia|eauto].
  Qed.

  Lemma asc_aremove k m : asc m -> asc (aremove k m).
  Proof.
    induction m as [|[k' v'] m IH]; cbn; intro A; [exact I|].
    destruct A as [A1 A2]. destruct (k =? k'); [apply IH; exact A2|].
    cbn. split; [|apply IH; exact A2]. intros k2 v2 I2. apply In_aremove in I2. eauto.
  Qed.

  Lemma asc_In_alookup k v m : asc m -> In (k, v) m -> alookup k m = Some v.
  Proof.
    induction m as [|[k' v'] m IH]; cbn; intros A I0; [contradiction|].
    destruct A as [A1 A2]. destruct I0 as [E|I0].
    - inversion E; subst. rewrite N.eqb_refl. reflexivity.
    - specialize (A1 _ _ I0). destruct (N.eqb_spec k k'); [lia|]. apply IH; assumption.
  Qed.
End Keys.

(* block of the first / last byte of a chain *)
Lemma chain_first_bo bs ps lo hi : 0 < bs -> chain bs ps lo hi -> lo < hi -> line_bo_first ps = Some (lo / bs).
Proof.
  intros H C L. destruct ps as [|p ps]; [cbn in C; lia|]. destruct C as (A1 & A2 & A3 & _).
  cbn. f_equal. unfold part_fo, file_offset_at_block_offset_index, file_offset_at_block_offset in A1.
  rewrite <- A1. symmetry. apply div_unique_bs. lia.
Qed.

Lemma chain_last_bo bs ps lo hi : 0 < bs -> chain bs ps lo hi -> lo < hi -> line_bo_last ps = Some ((hi - 1) / bs).
Proof.
  intros H C L. unfold line_bo_last.
  assert (NE : ps <> []) by (eapply chain_nonempty; eauto).
  destruct (exists_last NE) as (q & p & ->). rewrite rev_unit. f_equal.
  clear NE L. revert lo C. induction q as [|x q IH]; intros lo C.
  - cbn in C. destruct C as (A1 & A2 & A3 & A4).
    replace (hi - 1) with (part_bo p * bs + (part_end p - 1)) by lia. symmetry. apply div_unique_bs. lia.
  - cbn [app chain] in C. destruct C as (_ & _ & _ & C). eapply IH. exact C.
Qed.

(* ================================================================ Part 6: drops, switches
   generic in the invariant LI of the inner LineReader (CachesSysProofs), given that LineReader::drop_line
   preserves it *)

Section DropsGeneric.
  Variable dated : list N -> option Z.
  Variable bs : N.
  Variable f : file.
  Hypothesis Hbs : 0 < bs.
  Context {LI : lr_state -> Prop}.
  Hypothesis LI_drop : forall l e s x, LI l -> LI (lr_drop_line bs (lr_set_ext e l) s x).

  Local Notation sr_inv := (@sr_inv dated bs f LI).
  Local Notation is_group := (is_group dated f).
  Local Notation ssl_ok := (ssl_ok bs f).

  Lemma drop_lines_inv lns : forall st, sr_inv st ->
    let st' := fold_left (fun st l => sr_set_lr (lr_drop_line bs (lr_set_ext (sr_held st []) (s_lr st)) l (line_refs st (sl_id l))) st) lns st in
    sr_inv st' /\ s_syslines st' = s_syslines st /\ s_range st' = s_range st /\ s_on st' = s_on st.
  Proof.
    induction lns as [|l lns IH]; intros st I; cbn [fold_left]; [auto|].
    set (st1 := sr_set_lr _ st).
    assert (I1 : sr_inv st1).
    { subst st1. apply sr_inv_set_lr; [exact I|]. apply LI_drop. apply (si_lr _ _ _ _ I). }
    destruct (IH st1 I1) as (A & B & C & D). cbv zeta in *. split; [exact A|]. rewrite B, C, D. auto.
  Qed.

  Lemma c_drop_sysline_ok st fo : sr_inv st ->
    let st' := c_drop_sysline bs st fo in
    sr_inv st' /\ s_syslines st' = aremove fo (s_syslines st) \/
    sr_inv st' /\ s_syslines st' = s_syslines st /\ alookup fo (s_syslines st) = None.
  Proof.
    intros I. unfold c_drop_sysline.
    destruct (alookup fo (s_syslines st)) as [s|] eqn:LK; [left|right; auto].
    set (lru := match ss_begin bs s with Some b => lru_pop b (s_lru st) | None => s_lru st end).
    set (st1 := mkSR (s_lr st) (aremove fo (s_syslines st)) (s_range st) lru (s_on st) (s_parse st) (s_parse_on st) (s_nid st) (s_cnt st)).
    assert (I1 : sr_inv st1).
    { destruct I as [J1 J2 J3 J4 J5]. split; cbn; auto.
      - intros k x X. apply alookup_aremove_Some in X. eauto.
      - intros k x X. apply J4. subst lru. destruct (ss_begin bs s); [apply lru_pop_lookup in X|]; exact X. }
    destruct (existsb _ (live_ssl st1)).
    - split; [apply sr_inv_cnt; exact I1|reflexivity].
    - destruct (drop_lines_inv (ss_lines s) (sr_cnt d_drop_ok st1) (sr_inv_cnt _ _ _ _ _ I1)) as (A & B & _).
      cbv zeta in A, B. split; [exact A|]. rewrite B. reflexivity.
  Qed.

  Lemma c_drop_sysline_inv st fo : sr_inv st -> sr_inv (c_drop_sysline bs st fo).
  Proof. intro I. destruct (c_drop_sysline_ok st fo I) as [[A _]|[A _]]; exact A. Qed.

  Lemma c_drop_sysline_range st fo : s_range (c_drop_sysline bs st fo) = s_range st.
  Proof.
    unfold c_drop_sysline. destruct (alookup fo (s_syslines st)) as [s|]; [|reflexivity].
    match goal with |- context [existsb ?p (live_ssl ?x)] => destruct (existsb p (live_ssl x)) end; [reflexivity|].
    match goal with |- s_range (fold_left ?g ?l ?x) = _ =>
      assert (E : forall lns st0, s_range (fold_left g lns st0) = s_range st0)
        by (induction lns as [|a lns IH]; intro st0; cbn [fold_left]; [reflexivity|rewrite IH; reflexivity]);
      rewrite E end. reflexivity.
  Qed.

  (* what a sequence of drop_sysline calls removes: only the listed keys *)
  Lemma drop_fold_ok keys : forall st, sr_inv st ->
    let st' := fold_left (c_drop_sysline bs) keys st in
    sr_inv st' /\ s_range st' = s_range st /\
    (forall k, alookup k (s_syslines st') <> alookup k (s_syslines st) -> In k keys) /\
    (forall k x, alookup k (s_syslines st') = Some x -> alookup k (s_syslines st) = Some x) /\
    (asc (s_syslines st) -> asc (s_syslines st')).
  Proof.
    induction keys as [|k0 keys IH]; intros st I; cbn [fold_left].
    - split; [exact I|]. split; [reflexivity|]. split; [intros k X; congruence|]. auto.
    - pose proof (c_drop_sysline_inv st k0 I) as I1.
      destruct (IH _ I1) as (A & B & C & D & E). cbv zeta in *.
      split; [exact A|]. split; [rewrite B; apply c_drop_sysline_range|].
      assert (STEP : s_syslines (c_drop_sysline bs st k0) = aremove k0 (s_syslines st) \/
                     s_syslines (c_drop_sysline bs st k0) = s_syslines st).
      { destruct (c_drop_sysline_ok st k0 I) as [[_ X]|[_ [X _]]]; auto. }
      split; [|split].
      + intros k X. destruct (N.eq_dec k k0) as [->|NE]; [left; reflexivity|right].
        apply C. intro Y. apply X. rewrite Y.
        destruct STEP as [S|S]; rewrite S; [|reflexivity]. rewrite alookup_aremove.
        destruct (N.eqb_spec k k0); [congruence|reflexivity].
      + intros k x X. apply D in X. destruct STEP as [S|S]; rewrite S in X; [|exact X].
        eapply alookup_aremove_Some; eauto.
      + intro AS. apply E. destruct STEP as [S|S]; rewrite S; [apply asc_aremove|]; exact AS.
  Qed.

  Lemma c_drop_data_ok st bo : sr_inv st -> asc (s_syslines st) ->
    let st' := c_drop_data bs st bo in
    sr_inv st' /\ s_range st' = s_range st /\ asc (s_syslines st') /\
    (forall k x, alookup k (s_syslines st') = Some x -> alookup k (s_syslines st) = Some x) /\
    (forall k s, alookup k (s_syslines st) = Some s -> alookup k (s_syslines st') = None ->
                 exists b, ss_bo_last s = Some b /\ b <= bo).
  Proof.
    intros I AS. unfold c_drop_data.
    set (keys := map fst (filter _ (s_syslines st))).
    destruct (drop_fold_ok keys st I) as (A & B & C & D & E). cbv zeta in *.
    split; [exact A|]. split; [exact B|]. split; [apply E; exact AS|]. split; [exact D|].
    intros k s L1 L2. assert (IN : In k keys) by (apply C; congruence).
    subst keys. apply in_map_iff in IN as ([k' s'] & <- & IN). apply filter_In in IN as [IN P].
    cbn [fst snd] in *. pose proof (asc_In_alookup _ _ _ AS IN) as L3. rewrite L1 in L3. inversion L3; subst s'.
    destruct (ss_bo_last s) as [b|]; [|discriminate]. exists b. split; [reflexivity|]. apply N.leb_le. exact P.
  Qed.

  Lemma sr_lru_enable_inv st : sr_inv st -> sr_inv (sr_lru_enable st).
  Proof.
    intros [J1 J2 J3 J4 J5]. unfold sr_lru_enable. split; cbn; auto.
    - destruct (s_on st); [exact J4|intros; discriminate].
    - destruct (s_parse_on st); [exact J5|intros; discriminate].
  Qed.

  Lemma sr_lru_disable_inv st : sr_inv st -> sr_inv (sr_lru_disable st).
  Proof. intros [J1 J2 J3 J4 J5]. split; cbn; auto; intros; discriminate. Qed.

  (* ================================================================ Part 7: the stage driver (invariants) *)

  Definition rinv (st : sr_state) : Prop := sr_inv st /\ asc (s_syslines st).

  (* every range whose sysline was dropped ends at or before fo *)
  Definition dangling_behind (st : sr_state) (fo : N) : Prop :=
    forall a b v, In (a, b, v) (s_range st) -> alookup v (s_syslines st) = None -> b <= fo.

  Lemma dangling_mono st fo fo' : dangling_behind st fo -> fo <= fo' -> dangling_behind st fo'.
  Proof using. clear Hbs LI_drop. intros D L a b v I1 I2. specialize (D a b v I1 I2). lia. Qed.

  (* what a find_sysline call that answered as the spec says (sres_ok) and changed the stored syslines as
     sys_step says does to the dropped ranges *)
  Lemma find_step_core st fo st' r : rinv st -> sr_inv st' -> sres_ok dated bs f st fo r ->
    sys_step dated bs f st st' r ->
    rinv st' /\ (dangling_behind st fo -> r <> Panic /\ dangling_behind st' fo).
  Proof.
    intros [I AS] I' R ST.
    assert (AS' : asc (s_syslines st')).
    { destruct ST as [[-> _]|(n & s & b & g & _ & _ & _ & _ & -> & _)]; [exact AS|apply asc_ainsert; exact AS]. }
    split; [split; assumption|]. intro D. split.
    - intro E. subst r. cbn in R. destruct R as (v & RG & LK).
      apply range_get_Some in RG as (a & b & IN & A1 & A2). specialize (D _ _ _ IN LK). lia.
    - destruct ST as [[E1 E2]|(n & s & b & g & _ & G & OK & _ & E1 & E2)].
      + intros a b v. rewrite E1, E2. apply D.
      + intros a' b' v. rewrite E1, E2. rewrite alookup_ainsert. unfold range_insert.
        destruct (is_group_pos dated f _ _ G) as (P & _). destruct (N.ltb_spec b (b + glen g)); [|lia].
        intros [IN|IN] LK.
        * inversion IN; subst. rewrite N.eqb_refl in LK. discriminate.
        * destruct (N.eqb_spec v b); [discriminate|].
          destruct (In_range_cut _ _ _ _ IN) as (s0 & e0 & v0 & IN0 & [[E _]|[E _]]); inversion E; subst;
            specialize (D _ _ _ IN0 LK); lia.
  Qed.

  Lemma ssl_bo s b g : ssl_ok s b g -> 0 < glen g ->
    ss_bo_first s = Some (b / bs) /\ ss_bo_last s = Some ((b + glen g - 1) / bs).
  Proof.
    intros (_ & _ & C & NE) P. split.
    - unfold ss_bo_first. destruct (ss_lines s) as [|l0 r] eqn:LS; [congruence|].
      destruct (consec_begin _ _ _ _ _ _ _ C eq_refl) as (e0 & [SP CH]).
      eapply chain_first_bo; [exact Hbs|exact CH|]. destruct SP as (? & _). lia.
    - destruct (consec_end _ _ Hbs _ _ _ C NE) as (sl & b' & e' & L & [SP CH] & E & _).
      unfold ss_bo_last. unfold slast in L. destruct (rev (ss_lines s)) as [|x xs]; [discriminate|].
      inversion L; subst x. rewrite (chain_last_bo bs _ _ _ Hbs CH ltac:(destruct SP as (? & _); lia)).
      do 2 f_equal. lia.
  Qed.

  Lemma drop_try_ok st fo p pb pg : rinv st -> ssl_ok p pb pg -> is_group pb pg -> pb <= fo ->
    rinv (c_drop_data_try bs st p) /\ (dangling_behind st fo -> dangling_behind (c_drop_data_try bs st p) fo).
  Proof.
    intros [I AS] OK G L. destruct (is_group_pos dated f _ _ G) as (P & _).
    destruct (ssl_bo _ _ _ OK P) as (BF & _). unfold c_drop_data_try. rewrite BF.
    destruct (N.ltb_spec 1 (pb / bs)) as [C|C]; [|split; [split; assumption|auto]].
    destruct (c_drop_data_ok st (pb / bs - 2) I AS) as (A & B & A' & D & E). cbv zeta in *.
    split; [split; assumption|]. intros DG a b v IN LK. rewrite B in IN.
    destruct (alookup v (s_syslines st)) as [s'|] eqn:LK0; [|exact (DG _ _ _ IN LK0)].
    destruct (E _ _ LK0 LK) as (bl & BL & LE).
    destruct (si_sys _ _ _ _ I _ _ LK0) as (g' & G' & OK').
    destruct (is_group_pos dated f _ _ G') as (P' & _).
    destruct (ssl_bo _ _ _ OK' P') as (_ & BL'). rewrite BL' in BL. inversion BL; subst bl.
    destruct (si_range _ _ _ _ I _ _ _ IN) as (g2 & G2 & -> & ->).
    pose proof (is_group_unique dated f _ _ _ G' G2). subst g2.
    destruct (N.lt_ge_cases (v + glen g' - 1) pb) as [Q|Q]; [lia|].
    pose proof (div_mono _ _ bs Hbs Q). lia.
  Qed.

End DropsGeneric.

Section RunProofs.
  Variable dated : list N -> option Z.
  Variable bs : N.
  Variable f : file.
  Hypothesis Hbs : 0 < bs.

  Local Notation lr_inv := (lr_inv bs f).
  Local Notation sr_inv := (@sr_inv dated bs f lr_inv).
  Local Notation is_group := (is_group dated f).
  Local Notation ssl_ok := (ssl_ok bs f).
  Local Notation rinv := (@rinv dated bs f lr_inv).

  Lemma lr_inv_drop : forall l e s x, lr_inv l -> lr_inv (lr_drop_line bs (lr_set_ext e l) s x).
  Proof. intros l e s x I. apply lr_drop_line_inv. apply lr_set_ext_inv. exact I. Qed.

  Local Notation c_drop_sysline_ok := (c_drop_sysline_ok dated bs f lr_inv_drop).
  Local Notation c_drop_sysline_inv := (c_drop_sysline_inv dated bs f lr_inv_drop).
  Local Notation c_drop_data_ok := (c_drop_data_ok dated bs f lr_inv_drop).
  Local Notation drop_try_ok := (drop_try_ok dated bs f Hbs lr_inv_drop).
  Local Notation sr_lru_enable_inv := (sr_lru_enable_inv dated bs f).
  Local Notation sr_lru_disable_inv := (sr_lru_disable_inv dated bs f).
  Local Notation ssl_bo := (ssl_bo bs f Hbs).

  Lemma find_step st fo st' r p : rinv st -> c_find_sysline dated bs f st fo = (st', r, p) ->
    rinv st' /\ sres_ok dated bs f st fo r /\ (dangling_behind st fo -> r <> Panic /\ dangling_behind st' fo).
  Proof.
    intros RI H. destruct (c_find_sysline_ok dated bs f Hbs _ _ _ _ _ (proj1 RI) H) as (I' & R & ST & _).
    destruct (find_step_core dated bs f Hbs _ _ _ _ RI I' R ST) as (A & B). auto.
  Qed.

  (* the groups still to be emitted, the first of which begins at o *)
  Definition glist_ok (o : N) (gs : list group) : Prop :=
    (forall b g, In (b, g) (with_offsets o gs) -> is_group b g) /\ o + total gs = lenN f.

  Lemma glist_all : glist_ok (first_dated_offset dated f) (syslines dated f).
  Proof.
    split; [intros b g IN; exact IN|].
    unfold first_dated_offset, leading, syslines. pose proof (groups_total dated (lines f)) as GT.
    rewrite lines_concat in GT. exact GT.
  Qed.

  Lemma glist_cons o g gs : glist_ok o (g :: gs) ->
    is_group o g /\ 0 < glen g /\ glist_ok (o + glen g) gs /\ (gs = [] <-> o + glen g = lenN f).
  Proof.
    intros [M T]. assert (G : is_group o g) by (apply M; left; reflexivity).
    destruct (is_group_pos dated f _ _ G) as (P & _).
    assert (TT : total (g :: gs) = glen g + total gs).
    { unfold total, glen. cbn [map concat]. apply lenN_app. }
    assert (GL : glist_ok (o + glen g) gs).
    { split; [intros b' g' IN; apply M; right; exact IN|]. lia. }
    split; [exact G|]. split; [exact P|]. split; [exact GL|]. split.
    - intros ->. unfold total in *. cbn in *. lia.
    - intro E. destruct gs as [|g2 gs]; [reflexivity|exfalso].
      assert (G2 : is_group (o + glen g) g2) by (apply (proj1 GL); left; reflexivity).
      destruct (is_group_pos dated f _ _ G2) as (P2 & B2 & _). lia.
  Qed.

  Lemma last_test s o g : ssl_ok s o g -> 0 < glen g -> o + glen g <= lenN f ->
    is_sysline_last bs f (ss_sysline s) = (o + glen g =? lenN f).
  Proof.
    intros OK P LE. destruct (ssl_ok_facts bs f Hbs _ _ _ OK P) as (_ & EN & _).
    unfold is_sysline_last. unfold ss_end in EN. rewrite EN. unfold fileoffset_last.
    destruct (N.eqb_spec (lenN f) 0); [lia|].
    destruct (N.eqb_spec (o + glen g - 1) (lenN f - 1)); destruct (N.eqb_spec (o + glen g) (lenN f)); auto; lia.
  Qed.

  Definition sobs (s : ssl) : group := obs_sysline bs f (ss_sysline s).

  Lemma sobs_ok s o g : ssl_ok s o g -> sobs s = g.
  Proof.
    intros (D & M & _). unfold sobs, obs_sysline, ss_sysline. cbn [fst snd]. rewrite map_map.
    change (map (fun x => bytes_of bs f (sl_parts x)) (ss_lines s)) with (map (sbytes bs f) (ss_lines s)).
    rewrite M, D. destruct g; reflexivity.
  Qed.

  (* one call of the driver at the begin of the next group *)
  Lemma stream_call st fo o g gs st' r p : rinv st -> glist_ok o (g :: gs) ->
    spec_find_sysline dated f fo = Some (o + glen g, o, g) ->
    c_find_sysline dated bs f st fo = (st', r, p) ->
    rinv st' /\ (dangling_behind st fo -> r <> Panic /\ dangling_behind st' fo) /\
    (r = Panic \/ exists s, r = Found (o + glen g, s) /\ ssl_ok s o g /\ is_group o g /\
                            is_sysline_last bs f (ss_sysline s) = match gs with [] => true | _ => false end).
  Proof.
    intros RI GL SP H. destruct (find_step _ _ _ _ _ RI H) as (RI' & R & D).
    split; [exact RI'|]. split; [exact D|].
    destruct (glist_cons _ _ _ GL) as (G & P & GL' & LAST).
    destruct r as [[n s]| | |]; cbn in R.
    - right. destruct R as (b' & g' & G' & OK & SP'). rewrite SP in SP'. inversion SP'; subst n b' g'.
      exists s. split; [reflexivity|]. split; [exact OK|]. split; [exact G|].
      destruct (is_group_pos dated f _ _ G) as (_ & LE & _).
      rewrite (last_test _ _ _ OK P LE).
      destruct gs; destruct (N.eqb_spec (o + glen g) (lenN f)) as [E|E]; auto.
      + exfalso. apply E. apply LAST. reflexivity.
      + apply LAST in E. discriminate.
    - rewrite SP in R. discriminate.
    - contradiction.
    - left. reflexivity.
  Qed.

  Definition prev_ok (prev : option ssl) (o : N) : Prop :=
    match prev with
    | Some p => exists pb pg, ssl_ok p pb pg /\ is_group pb pg /\ pb < o
    | None => True
    end.

  Lemma c_stream_loop_ok fuel : forall st o gs plan i prev acc st' r,
    rinv st -> glist_ok o gs -> (length gs < fuel)%nat -> prev_ok prev o ->
    c_stream_loop dated fuel bs f plan i st o prev acc = (st', r) ->
    rinv st' /\
    (r = Panic \/ exists sls, r = Found (acc ++ sls) /\ map sobs sls = gs) /\
    (dangling_behind st o -> r <> Panic).
  Proof.
    induction fuel as [|k IH]; intros st o gs plan i prev acc st' r RI GL FU PV; [lia|].
    cbn [c_stream_loop].
    destruct (c_find_sysline dated bs f st o) as [[st1 r1] p1] eqn:CF.
    destruct gs as [|g gs].
    - (* nothing left: the call is at the end of the file *)
      assert (SP : spec_find_sysline dated f o = None).
      { unfold spec_find_sysline, syslines_at. apply pick_group_none. destruct GL as [_ T].
        pose proof (proj2 glist_all). unfold total in *. cbn in T. lia. }
      destruct (find_step _ _ _ _ _ RI CF) as (RI1 & R1 & D1).
      destruct r1 as [[n s]| | |]; cbn in R1.
      + destruct R1 as (? & ? & _ & _ & X). rewrite SP in X. discriminate.
      + intro H; injection H as <- <-. split; [exact RI1|]. split; [|discriminate].
        right. exists []. rewrite app_nil_r. auto.
      + contradiction.
      + intro H; injection H as <- <-. split; [exact RI1|]. split; [left; reflexivity|]. intro D. exfalso. exact (proj1 (D1 D) eq_refl).
    - destruct (glist_cons _ _ _ GL) as (G & P & GL' & LAST).
      pose proof (spec_at_group dated f _ _ o G ltac:(lia) ltac:(lia)) as SP.
      destruct (stream_call _ _ _ _ _ _ _ _ RI GL SP CF) as (RI1 & D1 & [->|(s & -> & OK & _ & LT)]).
      + intro H; injection H as <- <-. split; [exact RI1|]. split; [left; reflexivity|]. intro D. exfalso. exact (proj1 (D1 D) eq_refl).
      + rewrite LT. destruct gs as [|g2 gs].
        * intro H; injection H as <- <-. split; [exact RI1|]. split; [|discriminate].
          right. exists [s]. split; [reflexivity|]. cbn. rewrite (sobs_ok _ _ _ OK). reflexivity.
        * assert (PV2 : prev_ok (Some s) (o + glen g)) by (exists o, g; split; [exact OK|]; split; [exact G|lia]).
          destruct prev as [pv|].
          -- destruct PV as (pb & pg & POK & PG & PL).
             destruct (drop_try_ok st1 (o + glen g) pv pb pg RI1 POK PG ltac:(lia)) as (RI2 & D2).
             set (st2 := if plan_at plan i then c_drop_data_try bs st1 pv else st1).
             assert (RI2' : rinv st2) by (subst st2; destruct (plan_at plan i); assumption).
             intro H. destruct (IH _ _ _ _ _ _ _ _ _ RI2' GL' ltac:(cbn in FU; cbn; lia) PV2 H) as (RI3 & R3 & D3).
             split; [exact RI3|]. split.
             ++ destruct R3 as [->|(sls & -> & M)]; [left; reflexivity|right].
                exists (s :: sls). rewrite <- app_assoc. split; [reflexivity|]. cbn. rewrite (sobs_ok _ _ _ OK), M. reflexivity.
             ++ intro D. apply D3. destruct (D1 D) as (_ & DD).
                assert (DD' : dangling_behind st1 (o + glen g)) by (eapply dangling_mono; [exact DD|lia]).
                subst st2. destruct (plan_at plan i); [apply D2|]; exact DD'.
          -- intro H. destruct (IH _ _ _ _ _ _ _ _ _ RI1 GL' ltac:(cbn in FU; cbn; lia) PV2 H) as (RI3 & R3 & D3).
             split; [exact RI3|]. split.
             ++ destruct R3 as [->|(sls & -> & M)]; [left; reflexivity|right].
                exists (s :: sls). rewrite <- app_assoc. split; [reflexivity|]. cbn. rewrite (sobs_ok _ _ _ OK), M. reflexivity.
             ++ intro D. apply D3. destruct (D1 D) as (_ & DD). eapply dangling_mono; [exact DD|lia].
  Qed.

  Definition rmap (r : res (list ssl)) : res (list sysline) :=
    match r with Found l => Found (map ss_sysline l) | Done => Done | OutOfFuel => OutOfFuel | Panic => Panic end.

  Lemma obs_rmap l : obs_stream bs f (rmap (Found l)) = Some (map sobs l).
  Proof. cbn. rewrite map_map. reflexivity. Qed.

  Theorem c_stream_ok st plan st' r : rinv st -> c_stream dated bs f plan st = (st', r) ->
    rinv st' /\ (r = Panic \/ obs_stream bs f (rmap r) = Some (syslines dated f)) /\
    (dangling_behind st 0 -> r <> Panic).
  Proof.
    intros RI. unfold c_stream.
    destruct (c_find_sysline dated bs f st 0) as [[st1 r1] p1] eqn:CF.
    pose proof glist_all as GL.
    assert (LEN : (length (syslines dated f) < S (S (length f)))%nat).
    { unfold syslines. pose proof (wf_lines_len _ (lines_wf f)) as X. rewrite lines_concat in X.
      assert (forall ls, (length (snd (groups dated ls)) <= length ls)%nat).
      { induction ls as [|l ls IHl]; [cbn; lia|]. rewrite groups_cons. destruct (dated l); cbn [snd length]; lia. }
      specialize (H (lines f)). lia. }
    destruct (syslines dated f) as [|g gs] eqn:SY.
    - assert (SP : spec_find_sysline dated f 0 = None).
      { unfold spec_find_sysline, syslines_at. rewrite SY. reflexivity. }
      destruct (find_step _ _ _ _ _ RI CF) as (RI1 & R1 & D1).
      destruct r1 as [[n s]| | |]; cbn in R1.
      + destruct R1 as (? & ? & _ & _ & X). rewrite SP in X. discriminate.
      + intro H; injection H as <- <-. split; [exact RI1|]. split; [right; reflexivity|discriminate].
      + contradiction.
      + intro H; injection H as <- <-. split; [exact RI1|]. split; [left; reflexivity|]. intro D. exfalso. exact (proj1 (D1 D) eq_refl).
    - destruct (glist_cons _ _ _ GL) as (G & P & GL' & LAST).
      assert (SP : spec_find_sysline dated f 0 = Some (first_dated_offset dated f + glen g, first_dated_offset dated f, g)).
      { unfold spec_find_sysline, syslines_at. rewrite SY. apply pick_group_first. unfold glen in P. lia. }
      destruct (stream_call _ _ _ _ _ _ _ _ RI GL SP CF) as (RI1 & D1 & [->|(s & -> & OK & _ & LT)]).
      + intro H; injection H as <- <-. split; [exact RI1|]. split; [left; reflexivity|]. intro D. exfalso. exact (proj1 (D1 D) eq_refl).
      + rewrite LT. destruct gs as [|g2 gs].
        * intro H; injection H as <- <-. split; [exact RI1|]. split; [|discriminate].
          right. rewrite obs_rmap. cbn [map]. rewrite (sobs_ok _ _ _ OK). reflexivity.
        * intro H.
          assert (FU2 : (length (g2 :: gs) < S (length f))%nat) by (cbn in LEN; cbn; lia).
          destruct (c_stream_loop_ok (S (length f)) st1 _ (g2 :: gs) plan 0%nat None [s] st' r RI1 GL' FU2 Logic.I H) as (RI3 & R3 & D3).
          split; [exact RI3|]. split.
          -- destruct R3 as [->|(sls & -> & M)]; [left; reflexivity|right].
             rewrite obs_rmap. cbn [app map]. rewrite (sobs_ok _ _ _ OK), M. reflexivity.
          -- intro D. apply D3. destruct (D1 D) as (_ & DD). eapply dangling_mono; [exact DD|lia].
  Qed.

  (* ================================================================ Part 8: operation sequences *)

  Definition cinv (st : cstate) : Prop := lr_inv (fst st) /\ rinv (snd st).

  Lemma cinv_init : cinv cinit.
  Proof. split; [apply lr_inv_init|]. split; [apply sr_inv_init|exact Logic.I]. Qed.

  Definition lmap (r : res (N * sline)) : res (N * line) :=
    match r with Found (n, s) => Found (n, sl_parts s) | Done => Done | OutOfFuel => OutOfFuel | Panic => Panic end.
  Definition smap (r : res (N * ssl)) : res (N * sysline) :=
    match r with Found (n, s) => Found (n, ss_sysline s) | Done => Done | OutOfFuel => OutOfFuel | Panic => Panic end.

  Lemma lres_ok_obs fo r : lres_ok bs f fo r -> obs_line bs f (lmap r) = spec_find_line f fo.
  Proof.
    unfold lres_ok, spec_find_line. destruct (fo <? lenN f).
    - intros (s & -> & S). destruct (line_ok_facts bs f _ _ _ S) as (B & E & Y & _).
      cbn. unfold sl_parts in *. rewrite B, E, Y. reflexivity.
    - intros ->. reflexivity.
  Qed.

  Lemma sres_ok_obs st fo r : sres_ok dated bs f st fo r -> r <> Panic ->
    obs_find_sysline bs f (smap r) = spec_find_sysline dated f fo.
  Proof.
    destruct r as [[n s]| | |]; cbn; intros R NP; try contradiction; try congruence.
    destruct R as (b & g & G & OK & ->). destruct (is_group_pos dated f _ _ G) as (P & _).
    destruct (ssl_ok_facts bs f Hbs _ _ _ OK P) as (_ & _ & O). apply O.
  Qed.

  (* what each operation must answer.  find_line_in_block may also answer Done (the line is not
     inside the block of the offset: its result depends on the history, by design of the code) *)
  Definition cres_spec (o : cop) (x : cres) : Prop :=
    match o, x with
    | OL fo, RL r _ => obs_line bs f (lmap r) = spec_find_line f fo
    | OLB fo, RLB r _ _ =>
        match r with
        | Found _ => obs_line bs f (lmap r) = spec_find_line f fo
        | Done => True
        | _ => False
        end
    | OS fo, RS r _ => r = Panic \/ obs_find_sysline bs f (smap r) = spec_find_sysline dated f fo
    | ORD _, RR r => r = Panic \/ obs_stream bs f (rmap r) = Some (syslines dated f)
    | OLE _, RU | OSE _, RU | ODD _, RU | ODS _, RU | OXD, RU => True
    | _, _ => False
    end.

  (* find_sysline_in_block shares its LRU cache with find_sysline and stores what it finds; see
     the refuted statements in CachesExamples.v.  The sequences of the theorems do not contain it. *)
  Definition op_safe (o : cop) : Prop := match o with OSB _ => False | _ => True end.

  Lemma lr_disable_drop_inv l : lr_inv l -> lr_inv (lr_set_blk (b_disable_drop (l_blk l)) l).
  Proof.
    intros [I T]. split; [eapply lr_inv0_maps; [| | |exact I]; reflexivity|].
    unfold lr_tot in *. cbn. destruct T as [T|[(T1 & KD & T2 & T3)|(T1 & KD)]]; [left; exact T|right; left; auto|right; right; auto].
  Qed.

  Lemma c_step_ok st o st' x : cinv st -> op_safe o -> c_step dated bs f st o = (st', x) ->
    cinv st' /\ cres_spec o x.
  Proof.
    destruct st as [l s]. intros [IL IS] SAFE. cbn [fst snd] in *. unfold c_step.
    destruct o as [fo|fo|on|fo|fo|on|bo|fo|plan|]; try contradiction.
    - destruct (c_find_line bs f l fo) as [[l' r] p] eqn:C. intro H; injection H as <- <-.
      destruct (c_find_line_ok bs f Hbs _ _ _ _ _ IL C) as [IL' R].
      split; [split; assumption|]. apply lres_ok_obs. exact R.
    - destruct (c_find_line_in_block bs f l fo) as [[l' [r part]] p] eqn:C. intro H; injection H as <- <-.
      destruct (c_find_line_in_block_ok bs f Hbs _ _ _ _ _ _ IL C) as [IL' R].
      split; [split; assumption|]. cbn. destruct r as [[n sl]| | |]; cbn in R; try exact R.
      apply (lres_ok_obs fo (Found (n, sl))). exact R.
    - intro H; injection H as <- <-. split; [|exact Logic.I]. split; [|exact IS].
      destruct on; [apply lr_lru_enable_inv|apply lr_lru_disable_inv]; exact IL.
    - destruct (c_find_sysline dated bs f s fo) as [[s' r] p] eqn:C. intro H; injection H as <- <-.
      destruct (find_step _ _ _ _ _ IS C) as (IS' & R & _).
      split; [split; assumption|]. cbn.
      destruct r as [[n x]| | |]; [right|right| |left; reflexivity].
      + apply (sres_ok_obs s fo (Found (n, x)) R). discriminate.
      + apply (sres_ok_obs s fo Done R). discriminate.
      + cbn in R. contradiction.
    - intro H; injection H as <- <-. split; [|exact Logic.I]. split; [exact IL|].
      destruct IS as [I AS]. split; [|destruct on; exact AS].
      destruct on; [apply sr_lru_enable_inv|apply sr_lru_disable_inv]; exact I.
    - intro H; injection H as <- <-. split; [|exact Logic.I]. split; [exact IL|].
      destruct IS as [I AS]. destruct (c_drop_data_ok s bo I AS) as (A & _ & B & _). split; assumption.
    - intro H; injection H as <- <-. split; [|exact Logic.I]. split; [exact IL|].
      destruct IS as [I AS]. split; [apply c_drop_sysline_inv; exact I|].
      destruct (c_drop_sysline_ok s fo I) as [[_ E]|[_ [E _]]]; cbv zeta in E; cbn [snd]; rewrite E; [apply asc_aremove|]; exact AS.
    - destruct (c_stream dated bs f plan s) as [s' r] eqn:C. intro H; injection H as <- <-.
      destruct (c_stream_ok _ _ _ _ IS C) as (IS' & R & _). split; [split; assumption|exact R].
    - intro H; injection H as <- <-. split; [|exact Logic.I]. split; [exact IL|].
      destruct IS as [I AS]. split; [|exact AS].
      apply sr_inv_set_lr; [exact I|]. apply lr_disable_drop_inv. apply (si_lr _ _ _ _ I).
  Qed.

  Fixpoint results_ok (ops : list cop) (xs : list cres) : Prop :=
    match ops, xs with
    | [], [] => True
    | o :: ops', x :: xs' => cres_spec o x /\ (if cres_panicked x then xs' = [] else results_ok ops' xs')
    | _, _ => False
    end.

  (* REFINEMENT: every operation sequence (find_line / find_line_in_block / find_sysline in any order,
     repeated, backward, LRU switched on and off, drops, the driver with any drop plan) on every file:
     every answer is the spec answer; the only other outcome is the Panic after a drop, which ends the run *)
  Theorem c_run_ok ops : forall st st' xs, cinv st -> Forall op_safe ops ->
    c_run dated bs f st ops = (st', xs) -> cinv st' /\ results_ok ops xs.
  Proof.
    induction ops as [|o ops IH]; intros st st' xs I SAFE; cbn [c_run].
    - intro H; injection H as <- <-. split; [exact I|exact Logic.I].
    - inversion SAFE as [|? ? S1 S2]; subst.
      destruct (c_step dated bs f st o) as [st1 x] eqn:C.
      destruct (c_step_ok _ _ _ _ I S1 C) as [I1 R1].
      destruct (cres_panicked x) eqn:PX.
      + intro H; injection H as <- <-. split; [exact I1|]. cbn. rewrite PX. auto.
      + destruct (c_run dated bs f st1 ops) as [st2 xs2] eqn:CR. intro H; injection H as <- <-.
        destruct (IH _ _ _ I1 S2 CR) as [I2 R2]. split; [exact I2|]. cbn. rewrite PX. auto.
  Qed.

  (* ---------------------------------------------------------------- without drops: no Panic *)

  (* no range answers for a dropped sysline *)
  Definition no_dangling (st : sr_state) : Prop := dangling_behind st 0.

  Definition op_nodrop (o : cop) : Prop :=
    match o with
    | OSB _ | ODD _ | ODS _ => False
    | ORD plan => plan = []
    | _ => True
    end.

  Lemma find_step0 st fo st' r p : rinv st -> no_dangling st -> c_find_sysline dated bs f st fo = (st', r, p) ->
    r <> Panic /\ no_dangling st'.
  Proof.
    intros RI ND H. destruct RI as [I AS].
    destruct (c_find_sysline_ok dated bs f Hbs _ _ _ _ _ I H) as (I' & R & ST & _). split.
    - intro E. subst r. cbn in R. destruct R as (v & RG & LK).
      apply range_get_Some in RG as (a & b & IN & A1 & A2). specialize (ND _ _ _ IN LK). lia.
    - destruct ST as [[E1 E2]|(n & s & b & g & _ & G & OK & _ & E1 & E2)].
      + intros a b v. rewrite E1, E2. apply ND.
      + intros a' b' v. rewrite E1, E2. rewrite alookup_ainsert. unfold range_insert.
        destruct (is_group_pos dated f _ _ G) as (P & _). destruct (N.ltb_spec b (b + glen g)); [|lia].
        intros [IN|IN] LK.
        * inversion IN; subst. rewrite N.eqb_refl in LK. discriminate.
        * destruct (N.eqb_spec v b); [discriminate|].
          destruct (In_range_cut _ _ _ _ IN) as (s0 & e0 & v0 & IN0 & [[E _]|[E _]]); inversion E; subst;
            specialize (ND _ _ _ IN0 LK); lia.
  Qed.

  Lemma stream_loop_nodrop fuel : forall st o i prev acc st' r, rinv st -> no_dangling st ->
    c_stream_loop dated fuel bs f [] i st o prev acc = (st', r) -> no_dangling st'.
  Proof.
    induction fuel as [|k IH]; intros st o i prev acc st' r RI ND; cbn [c_stream_loop].
    - intro H; injection H as <- <-. exact ND.
    - destruct (c_find_sysline dated bs f st o) as [[st1 r1] p1] eqn:CF.
      destruct (find_step0 _ _ _ _ _ RI ND CF) as (_ & ND1).
      destruct (find_step _ _ _ _ _ RI CF) as (RI1 & _).
      destruct r1 as [[n s]| | |]; try (intro H; injection H as <- <-; exact ND1).
      destruct (is_sysline_last bs f (ss_sysline s)); [intro H; injection H as <- <-; exact ND1|].
      destruct prev; cbn [plan_at]; apply IH; assumption.
  Qed.

  Lemma stream_nodrop st st' r : rinv st -> no_dangling st -> c_stream dated bs f [] st = (st', r) -> no_dangling st'.
  Proof.
    intros RI ND. unfold c_stream.
    destruct (c_find_sysline dated bs f st 0) as [[st1 r1] p1] eqn:CF.
    destruct (find_step0 _ _ _ _ _ RI ND CF) as (_ & ND1).
    destruct (find_step _ _ _ _ _ RI CF) as (RI1 & _).
    destruct r1 as [[n s]| | |]; try (intro H; injection H as <- <-; exact ND1).
    destruct (is_sysline_last bs f (ss_sysline s)); [intro H; injection H as <- <-; exact ND1|].
    apply stream_loop_nodrop; assumption.
  Qed.

  (* the observation of an answer, and what it must be: a function of the file, the oracle and
     the operation only (find_line_in_block is compared by cres_spec, not here) *)
  Inductive cobs : Type :=
  | CL (o : option (N * N * N * list N))
  | CS (o : option (N * N * group))
  | CR (o : option (list group))
  | CU.

  Definition obs_cres (x : cres) : cobs :=
    match x with
    | RL r _ => CL (obs_line bs f (lmap r))
    | RS r _ => CS (obs_find_sysline bs f (smap r))
    | RR r => CR (obs_stream bs f (rmap r))
    | _ => CU
    end.

  Definition spec_cobs (o : cop) : cobs :=
    match o with
    | OL fo => CL (spec_find_line f fo)
    | OS fo => CS (spec_find_sysline dated f fo)
    | ORD _ => CR (Some (syslines dated f))
    | _ => CU
    end.

  Lemma c_step_nodrop st o st' x : cinv st -> no_dangling (snd st) -> op_nodrop o ->
    c_step dated bs f st o = (st', x) ->
    cinv st' /\ no_dangling (snd st') /\ cres_panicked x = false /\ obs_cres x = spec_cobs o.
  Proof.
    intros I ND NDO H.
    assert (SAFE : op_safe o) by (destruct o; cbn in *; auto).
    destruct (c_step_ok _ _ _ _ I SAFE H) as [I' R]. split; [exact I'|].
    destruct st as [l s]. destruct I as [IL IS]. cbn [fst snd] in *. unfold c_step in H.
    destruct o as [fo|fo|on|fo|fo|on|bo|fo|plan|]; try contradiction.
    - destruct (c_find_line bs f l fo) as [[l' r] p] eqn:C. injection H as <- <-. cbn [snd].
      split; [exact ND|]. cbn in R. split.
      + destruct (c_find_line_total bs f Hbs _ _ _ _ _ IL C) as [NP _]. destruct r; cbn; congruence.
      + cbn. rewrite R. reflexivity.
    - destruct (c_find_line_in_block bs f l fo) as [[l' [r part]] p] eqn:C. injection H as <- <-. cbn [snd].
      split; [exact ND|]. cbn in R. split; [|reflexivity]. destruct r; cbn; auto; contradiction.
    - injection H as <- <-. cbn. auto.
    - destruct (c_find_sysline dated bs f s fo) as [[s' r] p] eqn:C. injection H as <- <-. cbn [snd].
      destruct (find_step0 _ _ _ _ _ IS ND C) as (NP & ND').
      split; [exact ND'|]. split; [destruct r; cbn; congruence|].
      cbn in R. destruct R as [R|R]; [contradiction|]. cbn. rewrite R. reflexivity.
    - injection H as <- <-. cbn [snd]. split; [|split; reflexivity].
      destruct on; exact ND.
    - destruct (c_stream dated bs f plan s) as [s' r] eqn:C. injection H as <- <-. cbn [snd].
      cbn in NDO. subst plan.
      destruct (c_stream_ok _ _ _ _ IS C) as (_ & R2 & NP).
      specialize (NP ND). split; [eapply stream_nodrop; eauto|].
      split; [destruct r; cbn; congruence|]. destruct R2 as [R2|R2]; [contradiction|]. cbn. rewrite R2. reflexivity.
    - injection H as <- <-. cbn [snd]. split; [exact ND|split; reflexivity].
  Qed.

  (* without drops the cached machine answers EVERY operation, and what the caller observes is the
     spec function of the operation: map observation (run ops) = map spec ops *)
  Theorem c_run_nodrop ops : forall st st' xs, cinv st -> no_dangling (snd st) -> Forall op_nodrop ops ->
    c_run dated bs f st ops = (st', xs) ->
    cinv st' /\ no_dangling (snd st') /\ map obs_cres xs = map spec_cobs ops /\
    forallb (fun x => negb (cres_panicked x)) xs = true.
  Proof.
    induction ops as [|o ops IH]; intros st st' xs I ND NDO; cbn [c_run].
    - intro H; injection H as <- <-. auto.
    - inversion NDO as [|? ? N1 N2]; subst.
      destruct (c_step dated bs f st o) as [st1 x] eqn:C.
      destruct (c_step_nodrop _ _ _ _ I ND N1 C) as (I1 & ND1 & PX & OB). rewrite PX.
      destruct (c_run dated bs f st1 ops) as [st2 xs2] eqn:CR. intro H; injection H as <- <-.
      destruct (IH _ _ _ I1 ND1 N2 CR) as (I2 & ND2 & M & FB).
      split; [exact I2|]. split; [exact ND2|]. cbn. rewrite OB, M, PX, FB. auto.
  Qed.

  Lemma no_dangling_init : no_dangling (snd cinit).
  Proof. intros a b v []. Qed.
End RunProofs.

(* ================================================================ corollaries for Props *)

(* the same, against the PURE block-wise functions of Model/{Lines,Syslines}.v *)
Definition pure_cobs (dated : list N -> option Z) (bs : N) (f : file) (o : cop) : cobs :=
  match o with
  | OL fo => CL (obs_line bs f (find_line_m bs f fo))
  | OS fo => CS (obs_find_sysline bs f (find_sysline_m dated bs f fo))
  | ORD _ => CR (obs_stream bs f (stream_m dated bs f))
  | _ => CU
  end.

Lemma pure_spec_cobs dated bs f o : 0 < bs -> pure_cobs dated bs f o = spec_cobs dated f o.
Proof.
  intro H. destruct o; cbn [pure_cobs spec_cobs]; try reflexivity.
  - rewrite find_line_spec by exact H. reflexivity.
  - rewrite find_sysline_correct by exact H. reflexivity.
  - rewrite stream_groups by exact H. reflexivity.
Qed.

Theorem cached_refines_pure dated bs f ops : 0 < bs -> Forall op_nodrop ops ->
  map (obs_cres bs f) (snd (c_run dated bs f cinit ops)) = map (pure_cobs dated bs f) ops /\
  length (snd (c_run dated bs f cinit ops)) = length ops.
Proof.
  intros H ND. destruct (c_run dated bs f cinit ops) as [st xs] eqn:R.
  destruct (c_run_nodrop dated bs f H ops _ _ _ (cinv_init dated bs f) (no_dangling_init) ND R) as (_ & _ & M & _).
  cbn [snd]. split.
  - rewrite M. apply map_ext. intro o. symmetry. apply pure_spec_cobs. exact H.
  - apply (f_equal (@length _)) in M. rewrite !map_length in M. exact M.
Qed.

Theorem cached_bs_independent dated bs1 bs2 f ops : 0 < bs1 -> 0 < bs2 -> Forall op_nodrop ops ->
  map (obs_cres bs1 f) (snd (c_run dated bs1 f cinit ops)) =
  map (obs_cres bs2 f) (snd (c_run dated bs2 f cinit ops)).
Proof.
  intros H1 H2 ND.
  destruct (c_run dated bs1 f cinit ops) as [st1 xs1] eqn:R1.
  destruct (c_run dated bs2 f cinit ops) as [st2 xs2] eqn:R2.
  destruct (c_run_nodrop dated bs1 f H1 ops _ _ _ (cinv_init dated bs1 f) no_dangling_init ND R1) as (_ & _ & M1 & _).
  destruct (c_run_nodrop dated bs2 f H2 ops _ _ _ (cinv_init dated bs2 f) no_dangling_init ND R2) as (_ & _ & M2 & _).
  cbn [snd]. rewrite M1, M2. reflexivity.
Qed.

(* the stage driver over the CACHED reader, after any history of reads without drops, with ANY
   drop plan: exactly the spec groups, no Panic, fuel suffices *)
Theorem cached_driver_complete dated bs f ops plan : 0 < bs -> Forall op_nodrop ops ->
  obs_stream bs f (rmap (snd (c_stream dated bs f plan (snd (fst (c_run dated bs f cinit ops)))))) =
  Some (syslines dated f).
Proof.
  intros H ND. destruct (c_run dated bs f cinit ops) as [st xs] eqn:R.
  destruct (c_run_nodrop dated bs f H ops _ _ _ (cinv_init dated bs f) no_dangling_init ND R) as ([_ RI] & NDG & _).
  cbn [fst snd]. destruct (c_stream dated bs f plan (snd st)) as [st' r] eqn:C.
  destruct (c_stream_ok dated bs f H _ _ _ _ RI C) as (_ & [E|E] & NP); [|exact E].
  exfalso. apply (NP NDG). exact E.
Qed.

(* every sequence, drops included: each answer is the spec answer or the documented Panic *)
Theorem cached_run_sound dated bs f ops : 0 < bs -> Forall op_safe ops ->
  results_ok dated bs f ops (snd (c_run dated bs f cinit ops)).
Proof.
  intros H S. destruct (c_run dated bs f cinit ops) as [st xs] eqn:R.
  destruct (c_run_ok dated bs f H ops _ _ _ (cinv_init dated bs f) S R) as [_ X]. exact X.
Qed.

(* without drops nothing panics *)
Theorem cached_nodrop_no_panic dated bs f ops : 0 < bs -> Forall op_nodrop ops ->
  forallb (fun x => negb (cres_panicked x)) (snd (c_run dated bs f cinit ops)) = true.
Proof.
  intros H ND. destruct (c_run dated bs f cinit ops) as [st xs] eqn:R.
  destruct (c_run_nodrop dated bs f H ops _ _ _ (cinv_init dated bs f) no_dangling_init ND R) as (_ & _ & _ & X). exact X.
Qed.

Theorem cached_driver_bs_independent dated bs1 bs2 f ops1 ops2 plan1 plan2 : 0 < bs1 -> 0 < bs2 ->
  Forall op_nodrop ops1 -> Forall op_nodrop ops2 ->
  obs_stream bs1 f (rmap (snd (c_stream dated bs1 f plan1 (snd (fst (c_run dated bs1 f cinit ops1)))))) =
  obs_stream bs2 f (rmap (snd (c_stream dated bs2 f plan2 (snd (fst (c_run dated bs2 f cinit ops2)))))).
Proof. intros. rewrite !cached_driver_complete by assumption. reflexivity. Qed.
