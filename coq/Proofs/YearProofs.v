(* Proofs/YearProofs.v — C11: properties of the backward year walk (Model/Year.v). *)
From Coq Require Import ZArith Bool List Lia.
From S4.Model Require Import Calendar Year.
From S4.Proofs Require Import CalendarExtra.
Import ListNotations.
Open Scope Z_scope.

Definition DAY : Z := 86400 * NS.
(* the largest gap between consecutive messages for which the walk is proved right:
   one common year minus the 25 h tolerance (strictly below) *)
Definition GAP : Z := 365 * DAY - TOL.

Definition wf_msg (m : ymsg) : Prop := 0 <= m_tod m < DAY.
Definition is_feb29 (m : ymsg) : bool := (m_mon m =? 2) && (m_day m =? 29).

Lemma with_year_inv off y m t :
  with_year off y m = Some t ->
  valid_date y (m_mon m) (m_day m) = true /\
  t = (days_from_civil y (m_mon m) (m_day m) * 86400 - off) * NS + m_tod m.
Proof.
  unfold with_year. destruct (valid_date y (m_mon m) (m_day m)); [|discriminate].
  intros E. inversion E. auto.
Qed.

(* a date of an earlier year is an earlier instant (same zone) *)
Lemma year_lt_instant off y m t y' m' t' :
  wf_msg m -> wf_msg m' -> with_year off y m = Some t -> with_year off y' m' = Some t' ->
  y < y' -> t < t'.
Proof.
  intros W W' H H' L. apply with_year_inv in H as [V ->]. apply with_year_inv in H' as [V' ->].
  pose proof (dfc_year_lt _ _ _ _ _ _ V V' L). unfold wf_msg, DAY, NS in *. lia.
Qed.

(* two years apart = more than 365 days apart *)
Lemma two_years_apart off y m t y' m' t' :
  wf_msg m -> wf_msg m' -> with_year off y m = Some t -> with_year off y' m' = Some t' ->
  y + 2 <= y' -> 365 * DAY < t' - t.
Proof.
  intros W W' H H' L. apply with_year_inv in H as [V ->]. apply with_year_inv in H' as [V' ->].
  pose proof (dfc_in_year _ _ _ V). pose proof (dfc_in_year _ _ _ V').
  pose proof (ystart_mono (y + 1) y' ltac:(lia)).
  unfold wf_msg, DAY, NS in *. lia.
Qed.

Lemma valid_next_year y m :
  valid_date y (m_mon m) (m_day m) = true -> is_feb29 m = false ->
  valid_date (y + 1) (m_mon m) (m_day m) = true.
Proof.
  intros V F. apply valid_date_inv in V as [Hm Hd]. unfold valid_date, is_feb29 in *.
  repeat (apply andb_true_iff; split); try (apply Z.leb_le; lia).
  apply Z.leb_le. pose proof (month_cases _ Hm) as C. unfold days_in_month in *.
  destruct C as [E|[E|[E|[E|[E|[E|[E|[E|[E|[E|[E|E]]]]]]]]]]]; rewrite E in *; try lia.
  destruct (Z.eqb_spec (m_day m) 29); cbn in F; [discriminate|].
  destruct (is_leap y), (is_leap (y + 1)); lia.
Qed.

Lemma shift_year_instant off y m t t' :
  with_year off y m = Some t -> with_year off (y + 1) m = Some t' ->
  365 * DAY <= t' - t.
Proof.
  intros H H'. apply with_year_inv in H as [V ->]. apply with_year_inv in H' as [V' ->].
  pose proof (dfc_shift_year _ _ _ V V'). unfold DAY, NS. lia.
Qed.

(* ------------------------------------------------------------------ what redate returns *)
Lemma redate_spec fuel off year p m y' t :
  redate fuel off year (Some p) m = Dated y' t ->
  y' <= year /\ with_year off y' m = Some t /\ t <= p + TOL /\
  (forall y, y' < y <= year -> exists t0, with_year off y m = Some t0 /\ p + TOL < t0).
Proof.
  revert year. induction fuel as [|f IH]; intros year H; [discriminate|].
  cbn [redate] in H. destruct (with_year off year m) as [t0|] eqn:E; [|discriminate].
  destruct ((p <? t0) && (TOL <? t0 - p)) eqn:C.
  - apply IH in H as [A [B [B' D]]]. repeat split; try assumption; try lia.
    intros y Hy. destruct (Z.eq_dec y year) as [->|N].
    + exists t0. split; [assumption|]. apply andb_true_iff in C as [_ C2]. apply Z.ltb_lt in C2. lia.
    + apply D. lia.
  - inversion H; subst. repeat split; try assumption; try lia.
    apply andb_false_iff in C as [C|C]; apply Z.ltb_ge in C; unfold TOL, NS in *; lia.
Qed.

Lemma redate_none fuel off year m y' t :
  redate (S fuel) off year None m = Dated y' t -> y' = year /\ with_year off year m = Some t.
Proof.
  cbn [redate]. destruct (with_year off year m); [|discriminate]. intros H. inversion H. auto.
Qed.

(* ------------------------------------------------------------------ walk: structural facts *)
Lemma walk_length fuel off year prev ms l :
  walk fuel off year prev ms = Some l -> length l = length ms.
Proof.
  revert year prev l. induction ms as [|m r IH]; intros year prev l H; cbn in H.
  - inversion H. reflexivity.
  - destruct (redate fuel off year prev m) as [y t| |]; try discriminate.
    destruct (walk fuel off y (Some t) r) eqn:E; [|discriminate]. inversion H. cbn. f_equal. eapply IH; eassumption.
Qed.

(* the walk on a prefix (= the messages from the end of the file up to an early stop at the
   --dt-after bound) assigns the same years as the full walk assigns to those messages *)
Lemma walk_prefix fuel off year prev a b l :
  walk fuel off year prev (a ++ b) = Some l ->
  walk fuel off year prev a = Some (firstn (length a) l).
Proof.
  revert year prev l. induction a as [|m r IH]; intros year prev l H; cbn in *.
  - reflexivity.
  - destruct (redate fuel off year prev m) as [y t| |]; try discriminate.
    destruct (walk fuel off y (Some t) (r ++ b)) eqn:E; [|discriminate]. inversion H; subst.
    rewrite (IH _ _ _ E). reflexivity.
Qed.

(* chain property, list from the last message upwards *)
Fixpoint chain_ok (prev : option Z) (l : list (Z * Z)) : Prop :=
  match l with
  | [] => True
  | (y, t) :: r => (match prev with Some p => t <= p + TOL | None => True end) /\ chain_ok (Some t) r
  end.

Lemma walk_chain fuel off year prev ms l :
  walk fuel off year prev ms = Some l -> chain_ok prev l.
Proof.
  revert year prev l. induction ms as [|m r IH]; intros year prev l H; cbn in H.
  - inversion H. exact I.
  - destruct (redate fuel off year prev m) as [y t| |] eqn:R; try discriminate.
    destruct (walk fuel off y (Some t) r) eqn:E; [|discriminate]. inversion H; subst. cbn. split.
    + destruct prev as [p|]; [|exact I]. apply redate_spec in R. tauto.
    + eapply IH; eassumption.
Qed.

Lemma chain_adjacent prev l l1 a b l2 :
  chain_ok prev l -> l = l1 ++ a :: b :: l2 -> snd b <= snd a + TOL.
Proof.
  revert prev l. induction l1 as [|x l1 IH]; intros prev l H E; subst l.
  - destruct a as [ya ta], b as [yb tb]. cbn in H. tauto.
  - destruct x as [yx tx]. cbn in H. destruct H as [_ H]. eapply IH; [exact H|reflexivity].
Qed.

Theorem assign_no_big_backstep_lemma fuel off Y msgs ys :
  assign_years fuel off Y msgs = Some ys ->
  forall l1 a b l2, ys = l1 ++ a :: b :: l2 -> snd a <= snd b + TOL.
Proof.
  unfold assign_years. destruct (walk fuel off Y None (rev msgs)) as [l|] eqn:W; [|discriminate].
  intros H; inversion H; subst ys. clear H. intros l1 a b l2 E.
  apply walk_chain in W.
  assert (E' : l = rev l2 ++ b :: a :: rev l1).
  { rewrite <- (rev_involutive l), E. rewrite rev_app_distr. cbn. rewrite <- !app_assoc. reflexivity. }
  eapply chain_adjacent in W; [|exact E']. exact W.
Qed.

Theorem assign_last_lemma fuel off Y msgs ys :
  assign_years fuel off Y msgs = Some ys -> msgs <> [] ->
  exists t, last ys (0, 0) = (Y, t).
Proof.
  unfold assign_years. intros H N.
  destruct (rev msgs) as [|m r] eqn:R.
  { exfalso. apply N. rewrite <- (rev_involutive msgs), R. reflexivity. }
  cbn in H. destruct fuel as [|f]; [discriminate|].
  destruct (redate (S f) off Y None m) as [y t| |] eqn:D; try discriminate.
  apply redate_none in D as [-> _].
  destruct (walk (S f) off Y (Some t) r); [|discriminate]. inversion H; subst.
  exists t. cbn. rewrite last_last. reflexivity.
Qed.

(* minimal steps, list from the last message upwards, paired with the messages *)
Fixpoint steps_ok (off year : Z) (prev : option Z) (ms : list ymsg) (l : list (Z * Z)) : Prop :=
  match ms, l with
  | m :: mr, (y, t) :: r =>
      y <= year /\ with_year off y m = Some t /\
      (forall p, prev = Some p -> forall y0, y < y0 <= year ->
                 exists t0, with_year off y0 m = Some t0 /\ p + TOL < t0) /\
      (prev = None -> y = year) /\
      steps_ok off y (Some t) mr r
  | [], [] => True
  | _, _ => False
  end.

Lemma walk_steps fuel off year prev ms l :
  walk fuel off year prev ms = Some l -> steps_ok off year prev ms l.
Proof.
  revert year prev l. induction ms as [|m r IH]; intros year prev l H; cbn in H.
  - inversion H. exact I.
  - destruct (redate fuel off year prev m) as [y t| |] eqn:R; try discriminate.
    destruct (walk fuel off y (Some t) r) eqn:E; [|discriminate]. inversion H; subst. cbn.
    destruct prev as [p|].
    + apply redate_spec in R as [A [B [_ D]]]. repeat split; try assumption.
      * intros p0 Hp. inversion Hp; subst. exact D.
      * discriminate.
      * eapply IH; eassumption.
    + destruct fuel as [|f]; [discriminate|]. apply redate_none in R as [-> B].
      repeat split; try assumption; try lia; try (intros; discriminate).
      eapply IH; eassumption.
Qed.

(* ------------------------------------------------------------------ fuel 2 always suffices *)
Lemma redate_fuel k off year p m m0 :
  wf_msg m -> wf_msg m0 -> with_year off year m0 = Some p ->
  redate (2 + k) off year (Some p) m = redate 2 off year (Some p) m.
Proof.
  intros W W0 P. cbn [redate Nat.add].
  destruct (with_year off year m) as [t|] eqn:E; [|reflexivity].
  destruct ((p <? t) && (TOL <? t - p)); [|reflexivity].
  destruct (with_year off (year - 1) m) as [t2|] eqn:E2; [|reflexivity].
  pose proof (year_lt_instant off (year - 1) m t2 year m0 p W W0 E2 P ltac:(lia)) as L.
  replace (p <? t2) with false by (symmetry; apply Z.ltb_ge; lia). cbn [andb]. reflexivity.
Qed.

Lemma walk_fuel k off year prev ms :
  Forall wf_msg ms ->
  (match prev with Some p => exists m0, wf_msg m0 /\ with_year off year m0 = Some p | None => True end) ->
  walk (2 + k) off year prev ms = walk 2 off year prev ms.
Proof.
  revert year prev. induction ms as [|m r IH]; intros year prev F P; [reflexivity|].
  inversion F as [|? ? Wm Fr]; subst.
  cbn [walk].
  assert (R : redate (2 + k) off year prev m = redate 2 off year prev m).
  { destruct prev as [p|]; [|cbn [Nat.add redate]; reflexivity]. destruct P as [m0 [W0 P0]]. exact (redate_fuel k off year p m m0 Wm W0 P0). }
  rewrite R. destruct (redate 2 off year prev m) as [y t| |] eqn:D; try reflexivity.
  rewrite IH; [reflexivity|assumption|].
  exists m. split; [assumption|].
  destruct prev as [p|].
  - apply redate_spec in D. tauto.
  - apply redate_none in D as [-> D]. exact D.
Qed.

Theorem assign_fuel_lemma k off Y msgs :
  Forall wf_msg msgs -> assign_years (2 + k) off Y msgs = assign_years 2 off Y msgs.
Proof.
  intros F. unfold assign_years. rewrite walk_fuel; [reflexivity| |exact I].
  apply Forall_rev. exact F.
Qed.

(* ------------------------------------------------------------------ true years *)
(* list from the LAST message upwards, each with its true year; [prev] = (true year, instant) of the
   message below *)
Fixpoint true_chain (off : Z) (prev : option (Z * Z)) (r : list (Z * ymsg)) : Prop :=
  match r with
  | [] => True
  | (y, m) :: r' =>
      wf_msg m /\
      exists t, with_year off y m = Some t /\
        (match prev with
         | None => True
         | Some (yp, p) => t <= p /\ p - t < GAP /\ (is_feb29 m = true -> yp = y)
         end) /\
        true_chain off (Some (y, t)) r'
  end.

Definition instant_of (off : Z) (ym : Z * ymsg) : Z :=
  match with_year off (fst ym) (snd ym) with Some t => t | None => 0 end.

Lemma redate_true off yp p m0 y m t :
  wf_msg m0 -> with_year off yp m0 = Some p ->
  wf_msg m -> with_year off y m = Some t ->
  t <= p -> p - t < GAP -> (is_feb29 m = true -> yp = y) ->
  redate 2 off yp (Some p) m = Dated y t.
Proof.
  intros W0 P W T Le G F.
  assert (Hy1 : y <= yp).
  { destruct (Z_le_gt_dec y yp); [assumption|].
    pose proof (year_lt_instant off yp m0 p y m t W0 W P T ltac:(lia)). lia. }
  assert (Hy2 : yp - 1 <= y).
  { destruct (Z_le_gt_dec (yp - 1) y); [assumption|].
    pose proof (two_years_apart off y m t yp m0 p W W0 T P ltac:(lia)). unfold GAP, TOL, DAY, NS in *. lia. }
  destruct (Z.eq_dec y yp) as [->|N].
  - cbn [redate]. rewrite T. replace (p <? t) with false by (symmetry; apply Z.ltb_ge; lia). reflexivity.
  - assert (yp = y + 1) by lia. subst yp.
    assert (Fb : is_feb29 m = false) by (destruct (is_feb29 m); [specialize (F eq_refl); lia|reflexivity]).
    pose proof (with_year_inv _ _ _ _ T) as [V _].
    pose proof (valid_next_year _ _ V Fb) as V'.
    cbn [redate]. unfold with_year at 1. rewrite V'.
    set (t' := (days_from_civil (y + 1) (m_mon m) (m_day m) * 86400 - off) * NS + m_tod m).
    assert (T' : with_year off (y + 1) m = Some t') by (unfold with_year; rewrite V'; reflexivity).
    pose proof (shift_year_instant _ _ _ _ _ T T') as S.
    replace (p <? t') with true by (symmetry; apply Z.ltb_lt; unfold GAP, TOL, DAY, NS in *; lia).
    replace (TOL <? t' - p) with true by (symmetry; apply Z.ltb_lt; unfold GAP, TOL, DAY, NS in *; lia).
    cbn [andb]. replace (y + 1 - 1) with y by lia. rewrite T.
    replace (p <? t) with false by (symmetry; apply Z.ltb_ge; lia). reflexivity.
Qed.

Lemma walk_true off r :
  forall prev year,
  true_chain off prev r ->
  (match prev with
   | Some (yp, p) => year = yp /\ exists m0, wf_msg m0 /\ with_year off yp m0 = Some p
   | None => match r with (y, _) :: _ => year = y | [] => True end
   end) ->
  walk 2 off year (option_map snd prev) (map snd r) = Some (map (fun ym => (fst ym, instant_of off ym)) r).
Proof.
  induction r as [|[y m] r IH]; intros prev year H P; [reflexivity|].
  cbn [true_chain] in H. destruct H as [W [t [T [C H]]]].
  cbn [map walk snd fst]. unfold instant_of at 1. cbn [fst snd]. rewrite T.
  assert (R : redate 2 off year (option_map snd prev) m = Dated y t).
  { destruct prev as [[yp p]|]; cbn [option_map snd].
    - destruct P as [-> [m0 [W0 P0]]]. destruct C as [C1 [C2 C3]]. eapply redate_true; eassumption.
    - subst year. cbn [redate]. rewrite T. reflexivity. }
  rewrite R.
  specialize (IH (Some (y, t)) y H). cbn [option_map snd] in IH.
  rewrite IH; [reflexivity|]. split; [reflexivity|]. exists m. auto.
Qed.

(* file-order statement of the hypotheses *)
Definition pair_ok (off : Z) (a b : Z * ymsg) : Prop :=
  (* a is the message directly above b *)
  instant_of off a <= instant_of off b /\
  instant_of off b - instant_of off a < GAP /\
  (is_feb29 (snd a) = true -> fst b = fst a).
Definition msg_ok (off : Z) (a : Z * ymsg) : Prop :=
  wf_msg (snd a) /\ exists t, with_year off (fst a) (snd a) = Some t.
Fixpoint seq_ok (off : Z) (tm : list (Z * ymsg)) : Prop :=
  match tm with
  | [] => True
  | a :: r => msg_ok off a /\ (match r with b :: _ => pair_ok off a b | [] => True end) /\ seq_ok off r
  end.

Lemma true_chain_app off prev l x :
  true_chain off prev l ->
  msg_ok off x ->
  (match l, prev with
   | [], None => True
   | [], Some (yp, p) => instant_of off x <= p /\ p - instant_of off x < GAP /\ (is_feb29 (snd x) = true -> yp = fst x)
   | _ :: _, _ => let b := last l x in
                  instant_of off x <= instant_of off b /\ instant_of off b - instant_of off x < GAP /\
                  (is_feb29 (snd x) = true -> fst b = fst x)
   end) ->
  true_chain off prev (l ++ [x]).
Proof.
  revert prev. induction l as [|[y m] l IH]; intros prev H [Wx [tx Tx]] C.
  - destruct x as [yx mx]. cbn in *. split; [assumption|]. exists tx. split; [assumption|]. split; [|exact I].
    unfold instant_of in C. cbn in C. rewrite Tx in C. destruct prev as [[yp p]|]; tauto.
  - cbn [true_chain app] in *. destruct H as [W [t [T [Cp H]]]]. split; [assumption|]. exists t.
    split; [assumption|]. split; [assumption|].
    apply IH; [assumption|split; [assumption|exists tx; assumption]|].
    destruct l as [|z l'].
    + assert (I1 : instant_of off (y, m) = t) by (unfold instant_of; cbn [fst snd]; rewrite T; reflexivity).
      cbv zeta in C. cbn [last] in C. rewrite I1 in C. exact C.
    + cbn [last] in C |- *. exact C.
Qed.

Lemma seq_ok_chain off tm : seq_ok off tm -> true_chain off None (rev tm).
Proof.
  induction tm as [|a r IH]; intros H; [exact I|].
  cbn [seq_ok] in H. destruct H as [Ma [P S]]. cbn [rev].
  apply true_chain_app; [apply IH; assumption|assumption|].
  destruct r as [|b r']; [exact I|].
  assert (L : last (rev (b :: r')) a = b) by (cbn [rev]; apply last_last).
  destruct (rev (b :: r')) eqn:E.
  - exfalso. apply (f_equal (@length _)) in E. cbn [rev] in E. rewrite app_length in E. cbn in E. lia.
  - cbv zeta. rewrite L. destruct P as [P1 [P2 P3]]. auto.
Qed.

Theorem assign_true_years_lemma off tm :
  seq_ok off tm ->
  assign_years 2 off (fst (last tm (0, mkMsg 0 0 0))) (map snd tm) =
  Some (map (fun ym => (fst ym, instant_of off ym)) tm).
Proof.
  intros S. pose proof (seq_ok_chain off tm S) as C. unfold assign_years.
  rewrite <- map_rev.
  assert (X : walk 2 off (fst (last tm (0, mkMsg 0 0 0))) None (map snd (rev tm)) =
              Some (map (fun ym => (fst ym, instant_of off ym)) (rev tm))).
  2: { rewrite X. cbn [option_map]. rewrite <- map_rev, rev_involutive. reflexivity. }
  apply (walk_true off (rev tm) None (fst (last tm (0, mkMsg 0 0 0))) C).
  destruct (rev tm) as [|[y m] l] eqn:E; [exact I|].
  assert (tm = rev l ++ [(y, m)]) by (rewrite <- (rev_involutive tm), E; reflexivity). subst tm.
  rewrite last_last. reflexivity.
Qed.

Theorem assign_minimal_steps_lemma fuel off Y msgs ys :
  assign_years fuel off Y msgs = Some ys -> steps_ok off Y None (rev msgs) (rev ys).
Proof.
  unfold assign_years. destruct (walk fuel off Y None (rev msgs)) as [l|] eqn:W; [|discriminate].
  intros H; inversion H; subst ys. rewrite rev_involutive. eapply walk_steps; eassumption.
Qed.

(* early stop at the window: the messages walked so far (from the end of the file up to the stop)
   have the years the full walk gives them *)
Theorem assign_early_stop_lemma fuel off Y below above l :
  walk fuel off Y None (below ++ above) = Some l ->
  walk fuel off Y None below = Some (firstn (length below) l).
Proof. apply walk_prefix. Qed.

(* the year of the modification time, read in the fallback zone *)
Theorem year_of_seconds_spec off secs :
  let y := year_of_seconds off secs in
  ystart y * 86400 - off <= secs < ystart (y + 1) * 86400 - off.
Proof.
  unfold year_of_seconds. destruct (civil_from_days ((secs + off) / 86400)) as [[y m] d] eqn:E.
  cbv zeta. pose proof (year_of_day _ _ _ _ E) as B. Z.div_mod_to_equations. lia.
Qed.

(* ------------------------------------------------------------------ witnesses and examples *)
(* the margin: a gap of exactly 365 d - 25 h (< one year) is already dated wrongly *)
Definition margin_tm : list (Z * ymsg) :=
  [(2021, mkMsg 3 1 0); (2022, mkMsg 2 27 (23 * 3600 * NS))].

Lemma assign_margin_witness_lemma :
  instant_of 0 (2022, mkMsg 2 27 (23 * 3600 * NS)) - instant_of 0 (2021, mkMsg 3 1 0) = GAP /\
  GAP < 365 * DAY /\
  option_map (map fst) (assign_years 2 0 2022 (map snd margin_tm)) = Some [2022; 2022] /\
  map fst margin_tm = [2021; 2022].
Proof. vm_compute. repeat split; reflexivity. Qed.

(* one nanosecond less and the hypothesis of assign_true_years holds *)
Definition margin_tm_ok : list (Z * ymsg) :=
  [(2021, mkMsg 3 1 1); (2022, mkMsg 2 27 (23 * 3600 * NS))].
Lemma margin_ok_lemma : seq_ok 0 margin_tm_ok.
Proof.
  cbn [seq_ok margin_tm_ok]. unfold msg_ok, pair_ok, wf_msg. cbn [fst snd m_tod].
  repeat split; try (eexists; vm_compute; reflexivity); try (vm_compute; congruence);
    try (vm_compute; reflexivity); try (intros X; vm_compute in X; discriminate).
Qed.

(* a log spanning two year boundaries, with a leap day inside *)
Definition example_tm : list (Z * ymsg) :=
  [(2019, mkMsg 11 30 (8 * 3600 * NS));
   (2019, mkMsg 12 31 (86399 * NS + 999999999));
   (2020, mkMsg 1 1 0);
   (2020, mkMsg 2 29 (12 * 3600 * NS));
   (2020, mkMsg 12 1 (12 * 3600 * NS));
   (2021, mkMsg 1 15 (3 * 3600 * NS))].

Lemma example_seq_ok : seq_ok (-12600) example_tm.
Proof.
  cbn [seq_ok example_tm]. unfold msg_ok, pair_ok, wf_msg. cbn [fst snd m_tod].
  repeat split; try (eexists; vm_compute; reflexivity); try (vm_compute; congruence);
    try (vm_compute; reflexivity); try (intros X; vm_compute in X; discriminate).
Qed.

Lemma example_two_boundaries_lemma :
  option_map (map fst) (assign_years 2 (-12600) 2021 (map snd example_tm)) =
  Some [2019; 2019; 2020; 2020; 2020; 2021].
Proof. vm_compute. reflexivity. Qed.

(* Issue #245 (excluded by the property): 29 Feb followed by a message of a later year is Undatable
   in the candidate year *)
Lemma issue245_outside_model :
  assign_years 2 0 2021 [mkMsg 2 29 0; mkMsg 1 5 0] = None.
Proof. vm_compute. reflexivity. Qed.
