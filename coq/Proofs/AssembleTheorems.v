(* Proofs/AssembleTheorems.v — the C05 theorems (statements re-exported by Props/C05.v). *)
From Coq Require Import String Lia ZifyN ZifyNat ZifyBool.
From S4.Base Require Import Bytes.
From S4.Spec Require Import AssembleSpec.
From S4.Model Require Import Assemble.
From S4.Proofs Require Import AssembleProofs.
Open Scope N_scope.

Definition declared_size_ok (n : N) (plain : list N) : Prop := n = len plain.
Definition in_range (n bs i : N) : bool := (0 <? n) && (i <=? blockoffset_last n bs).

(* ------------------------------------------------------------ concrete decoders satisfy the contract *)
Lemma sched_read_contract : contract sched_state sched_read sched_remaining.
Proof.
  split.
  - intros [rem sch] k. unfold sched_read, sched_remaining. cbn [fst snd].
    split; [apply firstn_skipn|].
    unfold len. pose proof (firstn_le_length (N.to_nat (match sch with [] => k | s :: _ => N.min k (N.max 1 s) end)) rem).
    destruct sch; lia.
  - intros [rem sch] k Hk Hrem. unfold sched_read, sched_remaining in *. cbn [fst snd] in *.
    destruct rem as [|x rem]; [congruence|].
    destruct (N.to_nat (match sch with [] => k | s :: _ => N.min k (N.max 1 s) end)) eqn:E.
    + destruct sch; lia.
    + simpl. discriminate.
Qed.

Lemma iblk_read_contract : contract iblk_state iblk_read iblk_remaining.
Proof.
  split.
  - intros d k. unfold iblk_remaining. induction d as [|b r IH]; [simpl; split; [reflexivity|unfold len; simpl; lia]|].
    destruct b as [|x b]; [exact IH|].
    cbn [iblk_read fst snd]. set (b' := x :: b). split.
    + destruct (skipn (N.to_nat k) b') eqn:Es.
      * cbn [concat]. rewrite <- (firstn_skipn (N.to_nat k) b') at 2. rewrite Es, app_nil_r. reflexivity.
      * cbn [concat]. rewrite <- Es, app_assoc, firstn_skipn. reflexivity.
    + unfold len. pose proof (firstn_le_length (N.to_nat k) b'). lia.
  - intros d k Hk. unfold iblk_remaining. induction d as [|b r IH]; [simpl; congruence|].
    destruct b as [|x b]; [exact IH|].
    intros _. cbn [iblk_read fst snd]. destruct (N.to_nat k) eqn:E; [lia|]. simpl. discriminate.
Qed.

(* ------------------------------------------------------------ the walk, generic filler *)
Section Gen.
  Variable dstate : Type.
  Variable read : dstate -> N -> dstate * list N.
  Variable remaining : dstate -> list N.
  Hypothesis HC : contract dstate read remaining.
  Variable filler : dstate -> N -> ares (dstate * list N).
  Variables bs n : N.
  Variable d0 : dstate.
  Variable plain : list N.
  Hypothesis Hbs : 0 < bs.
  Hypothesis Hd0 : remaining d0 = plain.

  Lemma in_range_false i : in_range n bs i = false ->
    assemble dstate filler bs n d0 i = ADone /\ assemble_tar dstate filler bs n d0 i = ADone.
  Proof.
    unfold in_range, assemble, assemble_tar. intro H.
    destruct (blockoffset_last n bs <? i) eqn:E1; [split; reflexivity|].
    destruct (n =? 0) eqn:E2; [split; reflexivity|].
    apply N.ltb_ge in E1. apply N.eqb_neq in E2.
    apply andb_false_iff in H. destruct H as [H|H]; [apply N.ltb_ge in H | apply N.leb_gt in H]; lia.
  Qed.

  Lemma assemble_declared_le : filler_ok_when_enough dstate remaining filler -> n <= len plain ->
    forall i, assemble dstate filler bs n d0 i
              = if in_range n bs i then AOk (blk bs (firstn (N.to_nat n) plain) i) else ADone.
  Proof.
    intros HF Hle i. destruct (in_range n bs i) eqn:Er; [|now apply in_range_false].
    unfold in_range in Er. apply andb_true_iff in Er. destruct Er as [Hn Hi].
    apply N.ltb_lt in Hn. apply N.leb_le in Hi.
    unfold assemble.
    replace (blockoffset_last n bs <? i) with false by (symmetry; apply N.ltb_ge; exact Hi).
    replace (n =? 0) with false by (symmetry; apply N.eqb_neq; lia).
    destruct (blocksz_at_min n bs i Hbs Hn Hi) as [Emin Hlt].
    destruct (assemble_from_fits dstate remaining filler plain bs n Hbs Hn HF (S (N.to_nat i)) d0 0 i)
      as (d' & Ea & _); try lia.
    - rewrite Hd0. reflexivity.
    - rewrite Ea. now rewrite exp_blk_eq.
  Qed.

  Lemma assemble_short : filler_ok dstate remaining filler -> len plain < n ->
    forall i, i <= blockoffset_last n bs ->
      (i * bs + blocksz_at n bs i <= len plain ->
         assemble dstate filler bs n d0 i = AOk (blk bs plain i) /\ len (blk bs plain i) = bs)
      /\ (len plain < i * bs + blocksz_at n bs i ->
         assemble dstate filler bs n d0 i = AErr EZeroRead).
  Proof.
    intros HF Hsh i Hi. assert (Hn : 0 < n) by lia.
    unfold assemble.
    replace (blockoffset_last n bs <? i) with false by (symmetry; apply N.ltb_ge; exact Hi).
    replace (n =? 0) with false by (symmetry; apply N.eqb_neq; lia).
    destruct (blocksz_at_min n bs i Hbs Hn Hi) as [Emin Hlt].
    split; intro H.
    - assert (Hnl : i <> blockoffset_last n bs).
      { intro; subst i.
        assert (~ (blockoffset_last n bs + 1) * bs < n).
        { intro Hc. apply (last_index_range n bs _ Hbs Hn) in Hc. lia. }
        lia. }
      rewrite (blocksz_at_not_last n bs i Hn Hnl) in *.
      destruct (assemble_from_fits dstate remaining filler plain bs n Hbs Hn
                  (filler_ok_weaken dstate remaining filler HF) (S (N.to_nat i)) d0 0 i)
        as (d' & Ea & _); try lia.
      + rewrite Hd0. reflexivity.
      + rewrite (blocksz_at_not_last n bs i Hn Hnl). exact H.
      + rewrite Ea. rewrite (blocksz_at_not_last n bs i Hn Hnl). split; [reflexivity|].
        unfold blk, len. rewrite firstn_length, skipn_length. unfold len in H. lia.
    - rewrite (assemble_from_short dstate remaining filler plain bs n Hbs Hn HF (S (N.to_nat i)) d0 0 i);
        try lia; try reflexivity.
      rewrite Hd0. reflexivity.
  Qed.

  Lemma assemble_short_last : filler_ok dstate remaining filler -> len plain < n ->
    assemble dstate filler bs n d0 (blockoffset_last n bs) = AErr EZeroRead.
  Proof.
    intros HF Hsh. assert (Hn : 0 < n) by lia.
    apply (assemble_short HF Hsh (blockoffset_last n bs) (N.le_refl _)).
    destruct (blocksz_at_min n bs _ Hbs Hn (N.le_refl (blockoffset_last n bs))) as [Emin Hlt].
    assert (~ (blockoffset_last n bs + 1) * bs < n).
    { intro Hc. apply (last_index_range n bs _ Hbs Hn) in Hc. lia. }
    lia.
  Qed.

  Lemma assemble_never_wrong : filler_ok dstate remaining filler ->
    forall i b, assemble dstate filler bs n d0 i = AOk b -> b = blk bs (firstn (N.to_nat n) plain) i.
  Proof.
    intros HF i b Hb. destruct (N.le_gt_cases n (len plain)) as [Hle|Hgt].
    - rewrite (assemble_declared_le (filler_ok_weaken dstate remaining filler HF) Hle) in Hb.
      destruct (in_range n bs i); congruence.
    - rewrite firstn_all2 by (unfold len in Hgt; lia).
      destruct (in_range n bs i) eqn:Er.
      + unfold in_range in Er. apply andb_true_iff in Er. destruct Er as [_ Hi]. apply N.leb_le in Hi.
        destruct (assemble_short HF Hgt i Hi) as [H1 H2].
        destruct (N.le_gt_cases (i * bs + blocksz_at n bs i) (len plain)) as [Hf|Hf].
        * destruct (H1 Hf) as [E _]. congruence.
        * rewrite (H2 Hf) in Hb. discriminate.
      + destruct (in_range_false i Er) as [E _]. congruence.
  Qed.

  Lemma assemble_tar_declared_le : filler_ok_when_enough dstate remaining filler -> n <= len plain ->
    forall i, assemble_tar dstate filler bs n d0 i
              = if in_range n bs i then AOk (blk bs (firstn (N.to_nat n) plain) i) else ADone.
  Proof.
    intros HF Hle i. destruct (in_range n bs i) eqn:Er; [|now apply in_range_false].
    unfold in_range in Er. apply andb_true_iff in Er. destruct Er as [Hn Hi].
    apply N.ltb_lt in Hn. apply N.leb_le in Hi.
    unfold assemble_tar.
    replace (blockoffset_last n bs <? i) with false by (symmetry; apply N.ltb_ge; exact Hi).
    replace (n =? 0) with false by (symmetry; apply N.eqb_neq; lia).
    rewrite (assemble_all_fits dstate remaining filler plain bs n Hbs Hn HF Hle) with (k := 0); try lia.
    - cbn [app]. replace (blockoffset_last n bs + 1 - 0) with (blockoffset_last n bs + 1) by lia.
      set (m := N.to_nat (blockoffset_last n bs + 1)).
      assert (Hm : (N.to_nat i < m)%nat) by (subst m; lia).
      erewrite map_nth_error with (d := N.to_nat i).
      + now rewrite N2Nat.id.
      + change (N.to_nat 0) with 0%nat. rewrite nth_error_nth' with (d := 0%nat) by (rewrite seq_length; exact Hm).
        now rewrite seq_nth by exact Hm.
    - intros _. rewrite Hd0. reflexivity.
  Qed.
End Gen.

(* ------------------------------------------------------------ C05 main statements *)
Theorem assemble_chunk_independent_thm :
  forall (dstate : Type) (read : dstate -> N -> dstate * list N) (remaining : dstate -> list N),
    contract dstate read remaining ->
    forall (buf : option N), buf_ok buf ->
    forall (bs n : N) (d0 : dstate) (plain : list N),
      0 < bs -> remaining d0 = plain -> declared_size_ok n plain ->
      forall i,
        assemble dstate (fill_block dstate read buf) bs n d0 i
        = if (N.to_nat i <? length (chunk bs plain))%nat
          then AOk (nth (N.to_nat i) (chunk bs plain) [])
          else ADone.
Proof.
  intros dstate read remaining HC buf Hbuf bs n d0 plain Hbs Hd0 Hn i.
  unfold declared_size_ok in Hn.
  rewrite (assemble_declared_le dstate remaining _ bs n d0 plain Hbs Hd0
             (filler_ok_weaken _ _ _ (fill_block_ok dstate read remaining HC buf Hbuf))) by lia.
  rewrite firstn_all2 by (unfold len in Hn; lia).
  rewrite nth_chunk by exact Hbs.
  destruct (N.to_nat i <? length (chunk bs plain))%nat eqn:E.
  - apply Nat.ltb_lt in E. apply chunk_index_range in E; [|exact Hbs].
    assert (0 < n) by lia.
    unfold in_range. replace (0 <? n) with true by (symmetry; apply N.ltb_lt; lia).
    replace (i <=? blockoffset_last n bs) with true; [reflexivity|].
    symmetry. apply N.leb_le. apply last_index_range; lia.
  - apply Nat.ltb_ge in E.
    assert (Hno : ~ i * bs < len plain) by (intro Hc; apply (chunk_index_range bs plain i Hbs) in Hc; lia).
    unfold in_range. destruct (0 <? n) eqn:E0; [|reflexivity]. apply N.ltb_lt in E0.
    replace (i <=? blockoffset_last n bs) with false; [reflexivity|].
    symmetry. apply N.leb_gt. apply N.lt_nge. intro Hc. apply last_index_range in Hc; lia.
Qed.

(* the stream is longer than declared: silently truncated to the declared size (not an error) *)
Theorem assemble_long_stream_thm :
  forall dstate read remaining, contract dstate read remaining ->
    forall buf, buf_ok buf ->
    forall bs n d0 plain, 0 < bs -> remaining d0 = plain -> n <= len plain ->
      forall i, assemble dstate (fill_block dstate read buf) bs n d0 i
                = if in_range n bs i then AOk (blk bs (firstn (N.to_nat n) plain) i) else ADone.
Proof.
  intros dstate read remaining HC buf Hbuf bs n d0 plain Hbs Hd0 Hle.
  apply (assemble_declared_le dstate remaining _ bs n d0 plain Hbs Hd0); [|exact Hle].
  apply filler_ok_weaken. now apply fill_block_ok.
Qed.

(* the stream is shorter than declared: blocks wholly inside the stream are right and full, every
   other block up to the last is Err; in particular the last block is always Err *)
Theorem assemble_short_stream_thm :
  forall dstate read remaining, contract dstate read remaining ->
    forall buf, buf_ok buf ->
    forall bs n d0 plain, 0 < bs -> remaining d0 = plain -> len plain < n ->
      (forall i, i <= blockoffset_last n bs ->
         (i * bs + blocksz_at n bs i <= len plain ->
            assemble dstate (fill_block dstate read buf) bs n d0 i = AOk (blk bs plain i)
            /\ len (blk bs plain i) = bs)
         /\ (len plain < i * bs + blocksz_at n bs i ->
            assemble dstate (fill_block dstate read buf) bs n d0 i = AErr EZeroRead))
      /\ assemble dstate (fill_block dstate read buf) bs n d0 (blockoffset_last n bs) = AErr EZeroRead.
Proof.
  intros dstate read remaining HC buf Hbuf bs n d0 plain Hbs Hd0 Hsh.
  pose proof (fill_block_ok dstate read remaining HC buf Hbuf) as HF.
  split.
  - intros i Hi. exact (assemble_short dstate remaining _ bs n d0 plain Hbs Hd0 HF Hsh i Hi).
  - exact (assemble_short_last dstate remaining _ bs n d0 plain Hbs Hd0 HF Hsh).
Qed.

(* whatever the declared size: a returned block is never wrong *)
Theorem assemble_never_wrong_thm :
  forall dstate read remaining, contract dstate read remaining ->
    forall buf, buf_ok buf ->
    forall bs n d0 plain, 0 < bs -> remaining d0 = plain ->
      forall i b, assemble dstate (fill_block dstate read buf) bs n d0 i = AOk b ->
                  b = blk bs (firstn (N.to_nat n) plain) i.
Proof.
  intros dstate read remaining HC buf Hbuf bs n d0 plain Hbs Hd0.
  apply (assemble_never_wrong dstate remaining _ bs n d0 plain Hbs Hd0).
  now apply fill_block_ok.
Qed.

(* lz4: the single-read assembly is right for decoders that never return short ... *)
Theorem assemble_lz4_full_reads_thm :
  forall dstate read remaining, contract dstate read remaining -> full_reads dstate read remaining ->
    forall bs n d0 plain, 0 < bs -> remaining d0 = plain -> declared_size_ok n plain ->
      forall i, assemble_lz4 dstate read bs n d0 i
                = if in_range n bs i then AOk (blk bs plain i) else ADone.
Proof.
  intros dstate read remaining HC HF bs n d0 plain Hbs Hd0 Hn i. unfold declared_size_ok in Hn.
  unfold assemble_lz4.
  rewrite (assemble_declared_le dstate remaining _ bs n d0 plain Hbs Hd0
             (fill_once_enough dstate read remaining HC HF)) by lia.
  now rewrite firstn_all2 by (unfold len in Hn; lia).
Qed.

(* ... and wrong for a decoder that satisfies the contract but returns short once: a block
   padded with zeros is returned as Found *)
Theorem assemble_lz4_refuted_thm :
  exists (plain : list N) (bs : N) (d0 : iblk_state) (i : N) (b : list N),
    contract iblk_state iblk_read iblk_remaining
    /\ iblk_remaining d0 = plain /\ 0 < bs /\ in_range (len plain) bs i = true
    /\ assemble_lz4 iblk_state iblk_read bs (len plain) d0 i = AOk b
    /\ b <> nth (N.to_nat i) (chunk bs plain) [].
Proof.
  exists [1; 2; 3; 4], 3, [[1; 2]; [3; 4]], 0, [1; 2; 0].
  split; [exact iblk_read_contract|].
  repeat split; try reflexivity. vm_compute. discriminate.
Qed.

(* tar: read_exact per block over the member's entry reader, all blocks on the first call *)
Theorem assemble_tar_member_thm :
  forall dstate read remaining, contract dstate read remaining ->
    forall bs n d0 plain, 0 < bs -> remaining d0 = plain -> declared_size_ok n plain ->
      forall i, assemble_tar_member dstate read bs n d0 i
                = if in_range n bs i then AOk (blk bs plain i) else ADone.
Proof.
  intros dstate read remaining HC bs n d0 plain Hbs Hd0 Hn i. unfold declared_size_ok in Hn.
  unfold assemble_tar_member.
  rewrite (assemble_tar_declared_le dstate remaining _ bs n d0 plain Hbs Hd0
             (filler_ok_weaken _ _ _ (fill_block_ok dstate read remaining HC None I))) by lia.
  now rewrite firstn_all2 by (unfold len in Hn; lia).
Qed.

(* drain loop: decompress_to_ntf writes exactly the plain bytes; the bz2/lz4 pre-pass measures
   the declared size, so declared_size_ok is a theorem for those two codecs *)
Theorem drain_thm :
  forall dstate read remaining, contract dstate read remaining ->
    forall buf d0, 0 < buf ->
      drain dstate read (S (length (remaining d0))) buf d0 [] = AOk (remaining d0)
      /\ prepass_size dstate read (S (length (remaining d0))) buf d0 = AOk (len (remaining d0)).
Proof.
  intros dstate read remaining HC buf d0 Hbuf.
  pose proof (drain_spec dstate read remaining HC buf Hbuf (S (length (remaining d0))) d0 [] ltac:(lia)) as H.
  unfold prepass_size. rewrite H. simpl. split; reflexivity.
Qed.

(* ------------------------------------------------------------ xz slicing *)
Lemma slice_blk bs buffer bo :
  slice buffer (bo * bs) (bo * bs + N.min bs (lenN buffer - bo * bs)) = blk bs buffer bo.
Proof.
  unfold slice, blk, lenN.
  replace (N.to_nat (bo * bs + N.min bs (N.of_nat (length buffer) - bo * bs) - bo * bs))
    with (Nat.min (N.to_nat bs) (length (skipn (N.to_nat (bo * bs)) buffer)))
    by (rewrite skipn_length; lia).
  apply firstn_min_len.
Qed.

Definition xz_expected (bs : N) (buffer : list N) (from cnt : nat) : list (N * list N) :=
  map (fun j => (N.of_nat j, blk bs buffer (N.of_nat j))) (seq from cnt).

Lemma xz_loop_spec bs buffer : 0 < bs ->
  forall fuel bo, bo <= lenN buffer / bs + 1 -> (N.to_nat (lenN buffer / bs + 1 - bo) < fuel)%nat ->
    xz_loop fuel bs buffer bo
    = Some (xz_expected bs buffer (N.to_nat bo) (N.to_nat (lenN buffer / bs + 1 - bo))).
Proof.
  intros Hbs. set (q := lenN buffer / bs).
  induction fuel as [|f IH]; intros bo Hbo Hf; [lia|].
  cbn [xz_loop]. fold q.
  destruct (bo <=? q) eqn:E.
  - apply N.leb_le in E. rewrite IH by lia. rewrite slice_blk.
    replace (N.to_nat (q + 1 - bo)) with (S (N.to_nat (q + 1 - (bo + 1)))) by lia.
    unfold xz_expected. cbn [seq map]. rewrite N2Nat.id.
    replace (N.to_nat (bo + 1)) with (S (N.to_nat bo)) by lia. reflexivity.
  - apply N.leb_gt in E. replace (q + 1 - bo) with 0 by lia. reflexivity.
Qed.

Lemma concat_blks (bs : nat) : (0 < bs)%nat ->
  forall c (l : list N), (length l <= c * bs)%nat ->
    concat (map (fun j => firstn bs (skipn (j * bs) l)) (seq 0 c)) = l.
Proof.
  intros Hbs. induction c as [|c IH]; intros l Hl.
  - destruct l; simpl in *; [reflexivity | lia].
  - cbn [seq map concat]. rewrite <- seq_shift, map_map.
    rewrite (map_ext _ (fun j => firstn bs (skipn (j * bs) (skipn bs l)))).
    + rewrite IH by (rewrite skipn_length; lia). apply firstn_skipn.
    + intro j. rewrite skipn_skipn'. do 2 f_equal.
Qed.

Lemma xz_filesz_concat sl : xz_filesz sl = len (concat (map snd sl)).
Proof.
  induction sl as [|p sl IH]; [reflexivity|].
  cbn [xz_filesz fold_right map concat]. fold (xz_filesz sl). rewrite IH, len_app. reflexivity.
Qed.

(* The slicing loop yields block i = blk bs plain i for i = 0 .. |plain|/bs: these are the blocks of
   chunk bs plain, plus ONE EXTRA EMPTY block at index |plain|/bs when |plain| is a non-zero
   multiple of bs.  The sizes add up to |plain|, so count_blocks is right and the extra index is
   past blockoffset_last: read_block answers Done for it before looking at the store. *)
Theorem xz_slices_thm :
  forall bs plain, 0 < bs ->
    exists sl, xz_slices bs plain = Some sl
      /\ sl = (if is_nil plain then [] else xz_expected bs plain 0 (S (N.to_nat (len plain / bs))))
      /\ (forall i, (N.to_nat i < length (chunk bs plain))%nat ->
            nth_error sl (N.to_nat i) = Some (i, nth (N.to_nat i) (chunk bs plain) []))
      /\ concat (map snd sl) = plain
      /\ xz_filesz sl = len plain
      /\ length sl = (length (chunk bs plain)
                      + (if negb (is_nil plain) && (len plain mod bs =? 0)%N then 1 else 0))%nat.
Proof.
  intros bs plain Hbs. unfold xz_slices.
  destruct plain as [|x p] eqn:Ep.
  - exists []. cbn. repeat split; try reflexivity. intros i Hi. unfold chunk in Hi. simpl in Hi. lia.
  - rewrite <- Ep. cbn [is_nil]. replace (is_nil plain) with false by (subst plain; reflexivity).
    assert (Hne : 0 < len plain) by (subst plain; unfold len; simpl; lia).
    clear Ep x p.
    set (q := len plain / bs).
    pose proof (N.div_mod (len plain) bs ltac:(lia)) as Hdm.
    pose proof (N.mod_lt (len plain) bs ltac:(lia)) as Hml. fold q in Hdm.
    rewrite xz_loop_spec by (change (lenN plain) with (len plain); fold q; lia).
    change (lenN plain) with (len plain). fold q.
    replace (N.to_nat (q + 1 - 0)) with (S (N.to_nat q)) by lia. change (N.to_nat 0) with 0%nat.
    eexists. split; [reflexivity|]. split; [reflexivity|].
    assert (Hidx : forall i, (N.to_nat i < length (chunk bs plain))%nat -> i <= q).
    { intros i Hi. apply chunk_index_range in Hi; [|exact Hbs]. nia. }
    assert (Hcat : concat (map snd (xz_expected bs plain 0 (S (N.to_nat q)))) = plain).
    { unfold xz_expected. rewrite map_map. cbn [snd]. unfold blk.
      rewrite (map_ext _ (fun j => firstn (N.to_nat bs) (skipn (j * N.to_nat bs) plain))).
      - apply concat_blks; [lia|]. unfold len in *. nia.
      - intro j. do 2 f_equal. lia. }
    split; [|split; [exact Hcat | split]].
    + intros i Hi. pose proof (Hidx i Hi) as Hq.
      unfold xz_expected.
      erewrite map_nth_error with (d := N.to_nat i).
      * rewrite N2Nat.id. now rewrite nth_chunk.
      * rewrite nth_error_nth' with (d := 0%nat) by (rewrite seq_length; lia).
        rewrite seq_nth by lia. reflexivity.
    + rewrite xz_filesz_concat, Hcat. reflexivity.
    + unfold xz_expected. rewrite map_length, seq_length. cbn [negb andb].
      (* length (chunk) = number of i with i*bs < len *)
      assert (Hlen : forall m : nat, (m < length (chunk bs plain))%nat <-> N.of_nat m * bs < len plain).
      { intro m. rewrite <- (chunk_index_range bs plain (N.of_nat m) Hbs). now rewrite Nat2N.id. }
      destruct (len plain mod bs =? 0) eqn:Em.
      * apply N.eqb_eq in Em.
        assert (H1 : ~ (N.to_nat q < length (chunk bs plain))%nat) by (rewrite Hlen; nia).
        assert (H2 : (N.to_nat q = 0 \/ N.to_nat q - 1 < length (chunk bs plain))%nat).
        { destruct (N.to_nat q) eqn:Eq; [left; reflexivity | right]. rewrite Hlen. nia. }
        lia.
      * apply N.eqb_neq in Em.
        assert (H1 : (N.to_nat q < length (chunk bs plain))%nat) by (rewrite Hlen; nia).
        assert (H2 : ~ (S (N.to_nat q) < length (chunk bs plain))%nat) by (rewrite Hlen; nia).
        lia.
Qed.

(* ------------------------------------------------------------ tar member addressing *)
Lemma rsplit_once_none sep s : ~ In sep s -> rsplit_once sep s = None.
Proof.
  induction s as [|c r IH]; intro H; [reflexivity|].
  cbn [rsplit_once]. rewrite IH by (intro; apply H; now right).
  destruct (c =? sep) eqn:E; [|reflexivity]. apply N.eqb_eq in E. exfalso. apply H. now left.
Qed.

Lemma rsplit_once_last sep a m : ~ In sep m -> rsplit_once sep (a ++ sep :: m) = Some (a, m).
Proof.
  intro H. induction a as [|c a IH].
  - cbn [app rsplit_once]. rewrite rsplit_once_none by exact H. now rewrite N.eqb_refl.
  - cbn [app rsplit_once]. now rewrite IH.
Qed.

Lemma tar_select_first sub : forall es base idx content,
  nth_error es idx = Some (sub, content) ->
  (forall j e, (j < idx)%nat -> nth_error es j = Some e -> fst e <> sub) ->
  tar_select sub base es = (base + N.of_nat idx, lenN content).
Proof.
  induction es as [|[nm c] es IH]; intros base idx content Hn Hfirst.
  - destruct idx; discriminate.
  - cbn [tar_select]. destruct idx as [|idx].
    + simpl in Hn. injection Hn as -> ->. rewrite beqb_refl. f_equal. lia.
    + destruct (beqb sub nm) eqn:E.
      * apply beqb_eq in E. exfalso. apply (Hfirst 0%nat (nm, c)); [lia | reflexivity | now symmetry].
      * rewrite (IH (base + 1) idx content).
        -- f_equal. lia.
        -- exact Hn.
        -- intros j e Hj He. apply (Hfirst (S j) e); [lia | exact He].
Qed.

(* "archive|member" selects the first entry whose path is the text after the LAST '|', with that
   entry's size as the declared size.  With unique entry paths it is THE member. *)
Theorem tar_member_thm :
  forall (archive member : bytes) (entries : list tar_entry) (idx : nat) (content : list N),
    ~ In SUBPATH_SEP member ->
    nth_error entries idx = Some (member, content) ->
    (forall j e, (j < idx)%nat -> nth_error entries j = Some e -> fst e <> member) ->
    tar_open (archive ++ SUBPATH_SEP :: member) entries = AOk (archive, N.of_nat idx, len content)
    /\ declared_size_ok (len content) content.
Proof.
  intros archive member entries idx content Hp Hn Hf. split; [|reflexivity].
  unfold tar_open. rewrite rsplit_once_last by exact Hp.
  rewrite (tar_select_first member entries 0 idx content Hn Hf). reflexivity.
Qed.

Lemma NoDup_first {A} (l : list A) : NoDup l ->
  forall i j x, nth_error l i = Some x -> nth_error l j = Some x -> i = j.
Proof. intros H i j x Hi Hj. rewrite NoDup_nth_error in H. apply H; [|congruence]. apply nth_error_Some. congruence. Qed.

Theorem tar_member_unique_thm :
  forall (archive member : bytes) (entries : list tar_entry) (idx : nat) (content : list N),
    ~ In SUBPATH_SEP member -> NoDup (map fst entries) ->
    nth_error entries idx = Some (member, content) ->
    tar_open (archive ++ SUBPATH_SEP :: member) entries = AOk (archive, N.of_nat idx, len content).
Proof.
  intros archive member entries idx content Hp Hnd Hn.
  apply tar_member_thm; try assumption.
  intros j e Hj He Heq.
  assert (j = idx); [|lia].
  apply (NoDup_first (map fst entries) Hnd j idx member).
  - rewrite (map_nth_error fst j entries He). now rewrite Heq.
  - now rewrite (map_nth_error fst idx entries Hn).
Qed.

(* a member whose own path contains '|' cannot be addressed: the split happens inside it *)
Theorem tar_member_pipe_refuted_thm :
  exists (archive member : bytes) (entries : list tar_entry) (content : list N),
    nth_error entries 0 = Some (member, content) /\ In SUBPATH_SEP member
    /\ tar_open (archive ++ SUBPATH_SEP :: member) entries <> AOk (archive, 0, len content).
Proof.
  exists (s2b "a.tar"%string), (s2b "x|y"%string), [(s2b "x|y"%string, [1; 2; 3])], [1; 2; 3].
  repeat split; [vm_compute; tauto | vm_compute; discriminate].
Qed.


(* ------------------------------------------------------------ the look-behind drop *)
(* With the drop on (production setting) a reader that is asked for block 0, block 1 and block 0
   again answers Done the third time, although block 0 exists: a caller that reads a stored file
   twice from the start (FixedStructReader does) sees an empty file the second time.
   Known finding fixedstruct_streamed_multi_block.  With the drop off every answer is the block. *)
Theorem lookbehind_drop_refuted_thm :
  exists (plain : list N) (bs : N) (reqs : list N),
    let n := len plain in
    let fresh := mk_rstate 0 (plain, []) [] in
    (forall i, In i reqs -> in_range n bs i = true)
    /\ read_blocks_m sched_state (fill_block sched_state sched_read (Some GZ_BUF_SZ)) true bs n fresh reqs
       <> map (fun i => AOk (blk bs plain i)) reqs
    /\ read_blocks_m sched_state (fill_block sched_state sched_read (Some GZ_BUF_SZ)) false bs n fresh reqs
       = map (fun i => AOk (blk bs plain i)) reqs.
Proof.
  exists [1; 2; 3; 4; 5], 2, [0; 1; 0]. cbv zeta. split; [|split].
  - intros i [<-|[<-|[<-|[]]]]; reflexivity.
  - vm_compute. discriminate.
  - vm_compute. reflexivity.
Qed.

(* ------------------------------------------------------------ satisfiable hypotheses *)
Example assemble_example_gz :
  let plain := [10; 11; 12; 13; 14; 15; 16] in
  map (assemble_gz sched_state sched_read 3 (len plain) (plain, [1; 2; 1; 5])) [0; 1; 2; 3]
  = [AOk [10; 11; 12]; AOk [13; 14; 15]; AOk [16]; ADone]
  /\ chunk 3 plain = [[10; 11; 12]; [13; 14; 15]; [16]].
Proof. vm_compute. split; reflexivity. Qed.

Example assemble_example_short :
  let plain := [10; 11; 12; 13] in
  map (assemble_bz2 sched_state sched_read 3 7 (plain, [2])) [0; 1; 2]
  = [AOk [10; 11; 12]; AErr EZeroRead; AErr EZeroRead].
Proof. vm_compute. reflexivity. Qed.

Example xz_example_extra_block :
  xz_slices 2 [1; 2; 3; 4] = Some [(0, [1; 2]); (1, [3; 4]); (2, [])]
  /\ xz_slices 2 [1; 2; 3] = Some [(0, [1; 2]); (1, [3])]
  /\ xz_slices 2 [] = Some [].
Proof. vm_compute. repeat split; reflexivity. Qed.

Example tar_example :
  tar_open (s2b "d/a.tar|m/y.log"%string) [(s2b "m/x.log"%string, [1]); (s2b "m/y.log"%string, [2; 3]); (s2b "m/y.log"%string, [4])]
  = AOk (s2b "d/a.tar"%string, 1, 2).
Proof. vm_compute. reflexivity. Qed.
