(* Proofs/RetainNoEdge.v — property C17, OUTSIDE both findings F9a and F9b.  The two policies differ
   in what they do with a failed release (F9a) and, through `exitsb`, in the blocks that leave when a
   line whose last byte is the last byte of a block is released (`ledge l = true`, F9b).  When no
   line of a message has ledge = true and no release fails, a run of the CURRENT policy is EQUAL,
   as a state (blocks and blocks high included), to the run of the repaired policy, for every
   schedule; hence the current policy then has ALL the bounds of the property, blocks included.
   The line `mnext m` is only READ in the find of m (read_line has no edge rule); release_msg
   releases `mlines m` only, so no_edge is about mlines. *)
From Coq Require Import List Arith NArith Bool Sorted Lia.
Import ListNotations.
From S4.Model Require Import Retain.
From S4.Proofs Require Import RetainProofs RetainLayout RetainLag RetainKeepsUp RetainNoErr.
Open Scope N_scope.

Definition no_edge (ms : list msg) : Prop := forall m l, In m ms -> In l (mlines m) -> ledge l = false.

Definition no_edgeb (ms : list msg) : bool :=
  forallb (fun m => forallb (fun l => negb (ledge l)) (mlines m)) ms.

Lemma no_edgeb_sound ms : no_edgeb ms = true -> no_edge ms.
Proof.
  unfold no_edgeb, no_edge. intros Hb m l Hm Hl.
  rewrite forallb_forall in Hb. specialize (Hb m Hm). rewrite forallb_forall in Hb. specialize (Hb l Hl).
  apply negb_true_iff in Hb. exact Hb.
Qed.

(* ------------------------------------------------------------------ reading depends on `streamed` only *)
Lemma read_block_str c c' s b : streamed c' = streamed c -> read_block c s b = read_block c' s b.
Proof. intros E. unfold read_block. rewrite E. reflexivity. Qed.

Lemma read_blocks_str c c' : streamed c' = streamed c -> forall cnt b s, read_blocks c cnt b s = read_blocks c' cnt b s.
Proof.
  intros E. induction cnt as [|cnt IH]; intros b s; cbn [read_blocks]; [reflexivity|].
  rewrite (read_block_str c c' s b E). apply IH.
Qed.

Lemma read_line_str c c' s l : streamed c' = streamed c -> read_line c s l = read_line c' s l.
Proof. intros E. unfold read_line. rewrite (read_blocks_str c c' E). reflexivity. Qed.

Lemma read_lines_str c c' ls : streamed c' = streamed c -> forall s,
  fold_left (read_line c) ls s = fold_left (read_line c') ls s.
Proof.
  intros E. induction ls as [|l ls IH]; intros s; cbn [fold_left]; [reflexivity|].
  rewrite (read_line_str c c' s l E). apply IH.
Qed.

Lemma do_find_str c c' s first m : streamed c' = streamed c -> do_find c s first m = do_find c' s first m.
Proof. intros E. unfold do_find. rewrite (read_lines_str c c' _ E). reflexivity. Qed.

(* ------------------------------------------------------------------ releasing lines without an edge *)
Lemma release_line_same bl l : ledge l = false -> release_line P_cur bl l = release_line P_retry bl l.
Proof.
  intros Hl. unfold release_line. apply filter_ext. intros b. unfold exitsb.
  rewrite Hl, andb_false_r, orb_false_r. reflexivity.
Qed.

Lemma release_lines_same ls : (forall l, In l ls -> ledge l = false) -> forall bl,
  fold_left (release_line P_cur) ls bl = fold_left (release_line P_retry) ls bl.
Proof.
  induction ls as [|l ls IH]; intros Hl bl; cbn [fold_left]; [reflexivity|].
  rewrite (release_line_same bl l) by (apply Hl; left; reflexivity).
  apply IH. intros x Hx. apply Hl. right. exact Hx.
Qed.

Lemma release_msg_same s m : (forall l, In l (mlines m) -> ledge l = false) ->
  release_msg P_cur s m = release_msg P_retry s m.
Proof. intros Hl. unfold release_msg. rewrite (release_lines_same _ Hl). reflexivity. Qed.

Lemma release_msgs_same rel : (forall m, In m rel -> forall l, In l (mlines m) -> ledge l = false) ->
  forall s, fold_left (release_msg P_cur) rel s = fold_left (release_msg P_retry) rel s.
Proof.
  induction rel as [|m rel IH]; intros Hl s; cbn [fold_left]; [reflexivity|].
  rewrite (release_msg_same s m) by (apply Hl; left; reflexivity).
  apply IH. intros x Hx. apply Hl. right. exact Hx.
Qed.

Section NoEdge.
Variables (cc cr : cfg) (ms : list msg).
Hypothesis Hc : pol cc = P_cur.
Hypothesis Hr : pol cr = P_retry.
Hypothesis Hs : streamed cr = streamed cc.
Hypothesis Hne : no_edge ms.

(* stored and future messages are messages of the file; nothing waits for a retry *)
Definition Inv (s : st) : Prop :=
  (forall m, In m (syslines s) -> In m ms) /\ (forall m, In m (todo s) -> In m ms) /\ pending s = [].

Lemma drop_same s p : (forall m, In m (syslines s) -> In m ms) -> pending s = [] ->
  derr (do_try_drop cc s p) = derr s ->
  do_try_drop cc s p = do_try_drop cr s p /\
  (forall m, In m (syslines (do_try_drop cc s p)) -> In m (syslines s)) /\
  pending (do_try_drop cc s p) = [].
Proof.
  intros Hsys Hp Hd. unfold do_try_drop in *. destruct (mfb p <? 3); [splits; auto|].
  rewrite Hc in *. rewrite Hr. rewrite Hp in *. cbn [filter app] in *.
  set (cand := filter (fun m => mlb m <=? mfb p - 2) (syslines s)) in *.
  set (ok := filter (fun m => negb (is_held s m)) cand) in *.
  set (fail := filter (is_held s) cand) in *.
  cbn [set_index derr] in Hd.
  assert (Hf : fail = []) by (destruct fail; [reflexivity|unfold lenN in Hd; cbn [length] in Hd; lia]).
  rewrite Hf.
  assert (Hok : forall m, In m ok -> forall l, In l (mlines m) -> ledge l = false).
  { intros m Hm l Hl. apply (Hne m l); [|exact Hl]. apply Hsys.
    unfold ok, cand in Hm. apply filter_In in Hm as [Hm _]. apply filter_In in Hm as [Hm _]. exact Hm. }
  rewrite (release_msgs_same ok Hok s).
  splits; [reflexivity| |reflexivity].
  cbn [set_index syslines]. intros m Hm. apply filter_In in Hm as [Hm _]. exact Hm.
Qed.

Lemma step_same s e : Inv s -> derr (step cc s e) = derr s ->
  step cc s e = step cr s e /\ Inv (step cc s e).
Proof.
  intros (Hsys & Htodo & Hp) Hd. destruct e as [|j]; cbn [step] in *.
  2:{ split; [reflexivity|]. unfold Inv. cbn [release syslines todo pending]. auto. }
  unfold wstep in *. destruct (todo s) as [|m rest] eqn:Et; [split; [reflexivity|unfold Inv; rewrite Et; auto]|].
  rewrite <- (do_find_str cc cr s (stage2 s) m Hs).
  set (s1 := do_find cc s (stage2 s) m) in *.
  pose proof (read_lines_grows cc (mread (stage2 s) m) s) as (_ & _ & ((I1 & I2 & _) & _)).
  assert (F1 : syslines s1 = syslines s ++ [m] /\ pending s1 = []).
  { unfold s1, do_find. cbn [store_msg syslines pending]. rewrite I1, I2. auto. }
  destruct F1 as (FS & FP).
  assert (Hsys1 : forall x, In x (syslines s1) -> In x ms).
  { rewrite FS. intros x Hx. apply in_app_or in Hx as [Hx|[<-|[]]]; auto. apply Htodo. left. reflexivity. }
  assert (Hrest : forall x, In x rest -> In x ms) by (intros x Hx; apply Htodo; right; exact Hx).
  assert (Hsame : forall wp, Inv (set_worker s1 rest false wp)).
  { intros wp. unfold Inv. cbn [set_worker syslines todo pending]. auto. }
  destruct (stage2 s); [split; [reflexivity|apply Hsame]|].
  destruct rest as [|m' r]; [split; [reflexivity|apply Hsame]|].
  destruct (wprev s) as [p|]; [|split; [reflexivity|apply Hsame]].
  cbn [set_worker derr] in Hd.
  assert (Hd1 : derr (do_try_drop cc s1 p) = derr s1) by (rewrite Hd; unfold s1; rewrite derr_do_find; reflexivity).
  destruct (drop_same s1 p Hsys1 FP Hd1) as (D1 & D2 & D3).
  split; [rewrite D1; reflexivity|].
  unfold Inv. cbn [set_worker syslines todo pending]. splits; auto.
Qed.

Lemma run_same evs : forall s, Inv s -> derr (run cc s evs) = derr s -> run cc s evs = run cr s evs.
Proof.
  induction evs as [|e evs IH]; intros s Hi Hd; [reflexivity|].
  change (run cc s (e :: evs)) with (run cc (step cc s e) evs) in *.
  change (run cr s (e :: evs)) with (run cr (step cr s e) evs).
  pose proof (derr_step cc s e) as M1. pose proof (derr_run cc evs (step cc s e)) as M2.
  assert (Hd1 : derr (step cc s e) = derr s) by lia.
  destruct (step_same s e Hi Hd1) as (X1 & X2).
  rewrite <- X1. apply IH; auto. lia.
Qed.

End NoEdge.

(* without a failed release and without a line that ends on a block edge, the current policy IS the
   repaired policy: equal states (all fifteen fields, blocks and blocks high included) *)
Theorem cur_is_retry_without_err_no_edge : forall cc cr ms evs, pol cc = P_cur -> pol cr = P_retry ->
  streamed cr = streamed cc -> no_edge ms -> derr (run cc (init ms) evs) = 0 ->
  run cc (init ms) evs = run cr (init ms) evs.
Proof.
  intros cc cr ms evs Hc Hr Hs Hne Hd. apply (run_same cc cr ms Hc Hr Hs Hne evs (init ms)).
  - unfold Inv. cbn [init syslines todo pending]. splits; auto. intros m [].
  - exact Hd.
Qed.

(* hence OUTSIDE F9a and F9b the CURRENT policy has ALL the bounds of the property *)
Theorem cur_no_err_no_edge_bounded : forall bs span ml H ms c evs, pol c = P_cur -> wf bs span ml ms -> no_edge ms ->
  sched_ok H c (init ms) evs = true ->
  let s := run c (init ms) evs in
  derr s = 0 ->
  hs s <= bound_syslines bs span /\ hl s <= bound_lines bs span ml H /\ hb s <= bound_blocks bs span H.
Proof.
  intros bs span ml H ms c evs Hc Hwf Hne Hk. cbv zeta. intros Hd.
  set (cr := {| pol := P_retry; streamed := streamed c |}).
  pose proof (cur_is_retry_without_err_no_edge c cr ms evs Hc eq_refl eq_refl Hne Hd) as E.
  assert (Hs : sched_ok H cr (init ms) evs = true).
  { rewrite (eqx_sched_ok H c cr evs Hc eq_refl (init ms) (init ms) (eqx_refl _) eq_refl Hd). exact Hk. }
  pose proof (retry_bounded bs span ml H ms cr evs eq_refl Hwf Hs) as B. cbv zeta in B.
  rewrite <- E in B. destruct B as (_ & B2 & _ & B4 & _ & B6 & _). auto.
Qed.

(* 240 lines of 21 bytes at block size 512: no line ends on a block edge (21 k = 512 j needs k = 512);
   consumer 7 behind: no release fails, and the two policies give the same marks, blocks included.
   With lines of 20 bytes (RetainNoErr.far_layout) line 128 ends on an edge. *)
Definition no_edge_layout : list (N * bool) := repeat_list [(21, true)] 240.

Example no_edge_example :
  let ms := layout_msgs 512 no_edge_layout in
  let n := length ms in
  no_edgeb ms = true /\ no_edgeb (layout_msgs 512 RetainNoErr.far_layout) = false /\
  wfb 512 (max_span ms) (max_lines ms) ms = true /\
  sched_ok 7 cur_plain (init ms) (sched_lag 7 n) = true /\
  derr (run cur_plain (init ms) (sched_lag 7 n)) = 0 /\
  marks (run cur_plain (init ms) (sched_lag 7 n)) = marks (run retry_plain (init ms) (sched_lag 7 n)) /\
  blocks (run cur_plain (init ms) (sched_lag 7 n)) = blocks (run retry_plain (init ms) (sched_lag 7 n)) /\
  hb (run cur_plain (init ms) (sched_lag 7 n)) <= bound_blocks 512 (max_span ms) 7.
Proof. vm_compute. repeat split; try reflexivity. intros X; discriminate X. Qed.

Print Assumptions cur_is_retry_without_err_no_edge.
Print Assumptions cur_no_err_no_edge_bounded.
