(* Proofs/MergeProofs.v — lemmas about Model/Merge.v (property C01; used by C06/C07). *)
From Coq Require Import List ZArith Bool Sorted Permutation Lia Arith.
From S4.Model Require Import Merge.
Import ListNotations.
Local Open Scope Z_scope.

(* ------------------------------------------------------------------ first_min *)

Definition o_gt (m : msg) (o : option msg) : Prop :=
  match o with None => True | Some h => m_inst m < m_inst h end.
Definition o_ge (m : msg) (o : option msg) : Prop :=
  match o with None => True | Some h => m_inst m <= m_inst h end.
Definition above (m : msg) (best : option (nat * msg)) : Prop :=
  match best with None => True | Some (_, b) => m_inst m < m_inst b end.

Lemma fm_app A : forall R i best,
  first_min_from i (A ++ R) best = first_min_from (i + length A) R (first_min_from i A best).
Proof.
  induction A as [|[a|] A IH]; intros R i best; simpl.
  - now rewrite Nat.add_0_r.
  - destruct best as [[j b]|]; [destruct (m_inst a <? m_inst b)|]; rewrite IH;
      f_equal; lia.
  - rewrite IH. f_equal; lia.
Qed.

Lemma fm_above m A : forall i best,
  Forall (o_gt m) A -> above m best -> above m (first_min_from i A best).
Proof.
  induction A as [|[a|] A IH]; intros i best HF Hb; simpl; auto;
    inversion HF as [|? ? H1 H2]; subst.
  - destruct best as [[j b]|].
    + destruct (m_inst a <? m_inst b); apply IH; auto.
    + apply IH; auto.
  - apply IH; auto.
Qed.

Lemma fm_keep m i B : forall k,
  Forall (o_ge m) B -> first_min_from k B (Some (i, m)) = Some (i, m).
Proof.
  induction B as [|[b|] B IH]; intros k HF; simpl; auto;
    inversion HF as [|? ? H1 H2]; subst; auto.
  simpl in H1. destruct (Z.ltb_spec (m_inst b) (m_inst m)); [lia|]. apply IH; auto.
Qed.

Lemma first_min_complete m A B :
  Forall (o_gt m) A -> Forall (o_ge m) B ->
  first_min (A ++ Some m :: B) = Some (length A, m).
Proof.
  intros HA HB. unfold first_min. rewrite fm_app. simpl.
  pose proof (fm_above m A 0 None HA I) as Hab.
  destruct (first_min_from 0 A None) as [[j b]|]; simpl in Hab.
  - destruct (Z.ltb_spec (m_inst m) (m_inst b)); [|lia]. now apply fm_keep.
  - now apply fm_keep.
Qed.

Lemma fm_all_none hs : forall i best,
  Forall (fun o => o = None) hs -> first_min_from i hs best = best.
Proof.
  induction hs as [|o hs IH]; intros i best HF; simpl; auto.
  inversion HF; subst. now apply IH.
Qed.

(* every list of optional heads is all-None or splits at its first minimum *)
Lemma opt_cases hs :
  Forall (fun o => o = None) hs \/
  exists A m B, hs = A ++ Some m :: B /\ Forall (o_gt m) A /\ Forall (o_ge m) B.
Proof.
  induction hs as [|o hs IH]; [left; constructor|].
  destruct IH as [Hn | (A & m & B & -> & HA & HB)].
  - destruct o as [h|].
    + right. exists [], h, hs. repeat split; auto.
      eapply Forall_impl; [|exact Hn]. intros ? ->. exact I.
    + left. constructor; auto.
  - right. destruct o as [h|].
    + destruct (Z.lt_ge_cases (m_inst m) (m_inst h)).
      * exists (Some h :: A), m, B. repeat split; auto.
      * exists [], h, (A ++ Some m :: B). repeat split; auto.
        apply Forall_app; split; [|constructor].
        -- eapply Forall_impl; [|exact HA]. intros [x|]; simpl; auto. lia.
        -- simpl; lia.
        -- eapply Forall_impl; [|exact HB]. intros [x|]; simpl; auto. lia.
    + exists (None :: A), m, B. repeat split; auto. constructor; simpl; auto.
Qed.

(* soundness of first_min: the result is the split point *)
Lemma first_min_sound hs i m :
  first_min hs = Some (i, m) ->
  exists A B, hs = A ++ Some m :: B /\ length A = i /\ Forall (o_gt m) A /\ Forall (o_ge m) B.
Proof.
  intros H. destruct (opt_cases hs) as [Hn | (A & m' & B & -> & HA & HB)].
  - unfold first_min in H. rewrite fm_all_none in H; auto. discriminate.
  - rewrite first_min_complete in H; auto. inversion H; subst. exists A, B. auto.
Qed.

Lemma first_min_none hs : first_min hs = None -> Forall (fun o => o = None) hs.
Proof.
  intros H. destruct (opt_cases hs) as [Hn | (A & m' & B & -> & HA & HB)]; auto.
  rewrite first_min_complete in H; auto. discriminate.
Qed.

Lemma first_min_nth hs i m : first_min hs = Some (i, m) -> nth_error hs i = Some (Some m).
Proof.
  intros H. apply first_min_sound in H as (A & B & -> & <- & _).
  rewrite nth_error_app2; auto. now rewrite Nat.sub_diag.
Qed.

(* ------------------------------------------------------------------ pick / pop *)

Lemma hd_gt_o m l : hd_gt m l <-> o_gt m (hd_error l).
Proof. destruct l; simpl; tauto. Qed.
Lemma hd_ge_o m l : hd_ge m l <-> o_ge m (hd_error l).
Proof. destruct l; simpl; tauto. Qed.

Lemma Forall_heads_gt m A : Forall (hd_gt m) A -> Forall (o_gt m) (heads A).
Proof. intros H. apply Forall_map. eapply Forall_impl; [|exact H]. intros l. apply hd_gt_o. Qed.
Lemma Forall_heads_ge m A : Forall (hd_ge m) A -> Forall (o_ge m) (heads A).
Proof. intros H. apply Forall_map. eapply Forall_impl; [|exact H]. intros l. apply hd_ge_o. Qed.

Definition all_nil (Ss : list (list msg)) : Prop := Forall (fun l => l = []) Ss.

Lemma pick_some m l A B :
  Forall (hd_gt m) A -> Forall (hd_ge m) B ->
  pick (A ++ (m :: l) :: B) = Some (length A, m).
Proof.
  intros HA HB. unfold pick, heads. rewrite map_app. simpl.
  rewrite <- (map_length (@hd_error msg) A).
  apply first_min_complete; [apply Forall_heads_gt | apply Forall_heads_ge]; auto.
Qed.

Lemma pick_none Ss : all_nil Ss -> pick Ss = None.
Proof.
  intros H. unfold pick, first_min. apply fm_all_none.
  apply Forall_map. eapply Forall_impl; [|exact H]. intros l ->. reflexivity.
Qed.

Lemma src_cases Ss :
  all_nil Ss \/
  exists A m l B, Ss = A ++ (m :: l) :: B /\ Forall (hd_gt m) A /\ Forall (hd_ge m) B.
Proof.
  destruct (opt_cases (heads Ss)) as [Hn | (A' & m & B' & E & HA & HB)].
  - left. unfold heads in Hn. rewrite Forall_map in Hn.
    eapply Forall_impl; [|exact Hn]. intros [|x l]; simpl; auto. discriminate.
  - right. unfold heads in E. apply map_eq_app in E as (A & R & -> & EA & ER).
    destruct R as [|x B]; [discriminate|]. simpl in ER. inversion ER as [[Ex EB]].
    destruct x as [|m' l]; [discriminate|]. simpl in Ex. inversion Ex; subst m'.
    exists A, m, l, B. repeat split; auto.
    + subst A'. rewrite Forall_map in HA. eapply Forall_impl; [|exact HA]. intros ?; apply hd_gt_o.
    + subst B'. rewrite Forall_map in HB. eapply Forall_impl; [|exact HB]. intros ?; apply hd_ge_o.
Qed.

Lemma pick_none_inv Ss : pick Ss = None -> all_nil Ss.
Proof.
  intros H. destruct (src_cases Ss) as [Hn | (A & m & l & B & -> & HA & HB)]; auto.
  rewrite pick_some in H; auto. discriminate.
Qed.

Lemma pick_some_inv Ss i m :
  pick Ss = Some (i, m) ->
  exists A l B, Ss = A ++ (m :: l) :: B /\ length A = i /\ Forall (hd_gt m) A /\ Forall (hd_ge m) B.
Proof.
  intros H. destruct (src_cases Ss) as [Hn | (A & m' & l & B & -> & HA & HB)].
  - rewrite pick_none in H; auto. discriminate.
  - rewrite pick_some in H; auto. inversion H; subst. exists A, l, B. auto.
Qed.

Lemma pop_middle A x B : pop (length A) (A ++ x :: B) = A ++ tl x :: B.
Proof. induction A; simpl; auto. now rewrite IHA. Qed.

Lemma total_middle A m l B : total (A ++ (m :: l) :: B) = S (total (A ++ l :: B)).
Proof. unfold total. rewrite !concat_app. simpl. rewrite !app_length. simpl. rewrite !app_length. lia. Qed.

Lemma concat_all_nil Ss : all_nil Ss -> concat Ss = [].
Proof. induction 1; simpl; auto. subst. auto. Qed.

(* ------------------------------------------------------------------ fuel *)

Lemma merge_fuel_eq n Ss :
  merge_fuel n Ss =
  match pick Ss with
  | None => Done []
  | Some (i, m) => match n with
                   | O => OutOfFuel
                   | S f => fueled_map (cons m) (merge_fuel f (pop i Ss))
                   end
  end.
Proof. destruct n; reflexivity. Qed.

Lemma merge_fuel_stable n : forall Ss,
  (total Ss <= n)%nat ->
  exists out, forall n', (total Ss <= n')%nat -> merge_fuel n' Ss = Done out.
Proof.
  induction n as [|n IH]; intros Ss Hn;
    destruct (src_cases Ss) as [Hnil | (A & m & l & B & -> & HA & HB)].
  - exists []. intros n' _. rewrite merge_fuel_eq, pick_none; auto.
  - rewrite total_middle in Hn. lia.
  - exists []. intros n' _. rewrite merge_fuel_eq, pick_none; auto.
  - rewrite total_middle in Hn.
    destruct (IH (A ++ l :: B)) as [out Hout]; [lia|].
    exists (m :: out). intros n' Hn'. rewrite total_middle in Hn'.
    destruct n' as [|n']; [lia|].
    rewrite merge_fuel_eq, pick_some, pop_middle; auto. simpl tl.
    rewrite Hout; [reflexivity | lia].
Qed.

(* fuel = total number of messages suffices (and any larger fuel gives the same) *)
Lemma merge_fuel_enough n Ss : (total Ss <= n)%nat -> merge_fuel n Ss = Done (merge Ss).
Proof.
  intros Hn. destruct (merge_fuel_stable n Ss Hn) as [out Hout].
  unfold merge. rewrite (Hout (total Ss)) by auto. now apply Hout.
Qed.

Lemma merge_never_out_of_fuel Ss : merge_fuel (total Ss) Ss <> OutOfFuel.
Proof. rewrite merge_fuel_enough; auto. discriminate. Qed.

Lemma merge_nil Ss : all_nil Ss -> merge Ss = [].
Proof.
  intros H. assert (E := merge_fuel_enough (total Ss) Ss (le_n _)).
  rewrite merge_fuel_eq, pick_none in E; auto. now inversion E.
Qed.

Lemma merge_step m l A B :
  Forall (hd_gt m) A -> Forall (hd_ge m) B ->
  merge (A ++ (m :: l) :: B) = m :: merge (A ++ l :: B).
Proof.
  intros HA HB.
  assert (E := merge_fuel_enough _ _ (le_n (total (A ++ (m :: l) :: B)))).
  rewrite total_middle in E at 1. rewrite merge_fuel_eq, pick_some, pop_middle in E; auto.
  simpl tl in E. rewrite merge_fuel_enough in E; auto. simpl in E. now inversion E.
Qed.

(* the defining equation of merge, without fuel *)
Lemma merge_eq Ss :
  merge Ss = match pick Ss with
             | None => []
             | Some (i, m) => m :: merge (pop i Ss)
             end.
Proof.
  destruct (src_cases Ss) as [Hnil | (A & m & l & B & -> & HA & HB)].
  - rewrite pick_none, merge_nil; auto.
  - rewrite pick_some, pop_middle, merge_step; auto.
Qed.

(* induction principle: all later proofs are instances *)
Lemma merge_ind (P : list (list msg) -> list msg -> Prop) :
  (forall Ss, all_nil Ss -> P Ss []) ->
  (forall A m l B, Forall (hd_gt m) A -> Forall (hd_ge m) B ->
     P (A ++ l :: B) (merge (A ++ l :: B)) ->
     P (A ++ (m :: l) :: B) (m :: merge (A ++ l :: B))) ->
  forall Ss, P Ss (merge Ss).
Proof.
  intros Hn Hs Ss. remember (total Ss) as n eqn:En. revert Ss En.
  induction n as [|n IH]; intros Ss En;
    destruct (src_cases Ss) as [Hnil | (A & m & l & B & -> & HA & HB)].
  - rewrite merge_nil; auto.
  - rewrite total_middle in En. discriminate.
  - rewrite merge_nil; auto.
  - rewrite total_middle in En. rewrite merge_step; auto.
Qed.

(* ------------------------------------------------------------------ list helpers *)

Lemma nth_other (A : list (list msg)) x y B i :
  i <> length A -> nth i (A ++ x :: B) [] = nth i (A ++ y :: B) [].
Proof.
  intros Hi. destruct (Nat.lt_ge_cases i (length A)).
  - rewrite !app_nth1; auto.
  - rewrite !app_nth2; auto. destruct (i - length A)%nat eqn:E; [lia|]. reflexivity.
Qed.

Lemma all_nil_nth Ss : all_nil Ss -> forall i, nth i Ss [] = [].
Proof. induction 1; intros [|i]; simpl; auto. Qed.

Lemma Forall_nth_default {T} (P : T -> Prop) A d : Forall P A -> P d -> forall j, P (nth j A d).
Proof. induction 1; intros Hd [|j]; simpl; auto. Qed.

Lemma filter_none {T} (f : T -> bool) l : Forall (fun x => f x = false) l -> filter f l = [].
Proof. induction 1; simpl; auto. now rewrite H. Qed.

Lemma well_tagged_pop A m l B :
  well_tagged (A ++ (m :: l) :: B) -> m_src m = length A /\ well_tagged (A ++ l :: B).
Proof.
  intros H; split.
  - apply H. rewrite nth_middle. now left.
  - intros i x Hin. destruct (Nat.eq_dec i (length A)) as [->|Hne].
    + rewrite nth_middle in Hin. apply H. rewrite nth_middle. now right.
    + apply H. rewrite (nth_other _ _ l); auto.
Qed.

(* ------------------------------------------------------------------ C01 theorems *)

Lemma merge_perm Ss : Permutation (merge Ss) (concat Ss).
Proof.
  apply merge_ind with (P := fun Ss out => Permutation out (concat Ss)).
  - intros X HX. rewrite concat_all_nil; auto.
  - intros A m l B _ _ IH. rewrite concat_app in *. simpl in *.
    now apply Permutation_cons_app.
Qed.

Lemma merge_length Ss : length (merge Ss) = total Ss.
Proof. unfold total. apply Permutation_length, merge_perm. Qed.

Lemma merge_per_source_order Ss :
  well_tagged Ss -> forall i, filter (from_src i) (merge Ss) = nth i Ss [].
Proof.
  apply merge_ind with
    (P := fun Ss out => well_tagged Ss -> forall i, filter (from_src i) out = nth i Ss []).
  - intros X HX _ i. simpl. now rewrite all_nil_nth.
  - intros A m l B _ _ IH Hwt i. apply well_tagged_pop in Hwt as [Hm Hwt].
    simpl. unfold from_src at 1. rewrite Hm.
    destruct (Nat.eqb_spec (length A) i) as [<-|Hne].
    + rewrite IH; auto. now rewrite !nth_middle.
    + rewrite IH; auto. apply nth_other; auto.
Qed.

(* sortedness *)
Lemma sorted_head_le h t x : sorted_inst (h :: t) -> In x (h :: t) -> m_inst h <= m_inst x.
Proof.
  intros H. inversion H as [|? ? Hs HF]; subst. intros [->|Hin]; [lia|].
  rewrite Forall_forall in HF. now apply HF.
Qed.

Lemma sorted_tail h t : sorted_inst (h :: t) -> sorted_inst t.
Proof. intros H. now inversion H. Qed.

Lemma concat_above_gt m A :
  Forall sorted_inst A -> Forall (hd_gt m) A ->
  Forall (fun x => m_inst m < m_inst x) (concat A).
Proof.
  induction A as [|a A IH]; intros HS HG; simpl; [constructor|].
  inversion HS; inversion HG; subst. apply Forall_app; split; auto.
  destruct a as [|h t]; [constructor|]. simpl in *.
  apply Forall_forall. intros x Hx. pose proof (sorted_head_le h t x H1 Hx). lia.
Qed.

Lemma concat_above_ge m A :
  Forall sorted_inst A -> Forall (hd_ge m) A ->
  Forall (fun x => m_inst m <= m_inst x) (concat A).
Proof.
  induction A as [|a A IH]; intros HS HG; simpl; [constructor|].
  inversion HS; inversion HG; subst. apply Forall_app; split; auto.
  destruct a as [|h t]; [constructor|]. simpl in *.
  apply Forall_forall. intros x Hx. pose proof (sorted_head_le h t x H1 Hx). lia.
Qed.

Lemma sorted_split A x B :
  Forall sorted_inst (A ++ x :: B) -> Forall sorted_inst A /\ sorted_inst x /\ Forall sorted_inst B.
Proof. intros H. apply Forall_app in H as [HA HB]. inversion HB; subst. auto. Qed.

Lemma sorted_join A x B :
  Forall sorted_inst A -> sorted_inst x -> Forall sorted_inst B -> Forall sorted_inst (A ++ x :: B).
Proof. intros. apply Forall_app; split; auto. Qed.

Lemma merge_sorted Ss : Forall sorted_inst Ss -> sorted_inst (merge Ss).
Proof.
  apply merge_ind with (P := fun Ss out => Forall sorted_inst Ss -> sorted_inst out).
  - intros; constructor.
  - intros A m l B HA HB IH HS. apply sorted_split in HS as (SA & Sx & SB).
    assert (Sl := sorted_tail _ _ Sx).
    constructor; [apply IH, sorted_join; auto|].
    apply Forall_forall. intros x Hx.
    apply (Permutation_in _ (merge_perm _)) in Hx.
    rewrite concat_app in Hx. simpl in Hx. unfold le_inst.
    apply in_app_or in Hx as [Hx|Hx]; [|apply in_app_or in Hx as [Hx|Hx]].
    + pose proof (concat_above_gt m A SA HA) as F. rewrite Forall_forall in F.
      specialize (F x Hx). lia.
    + apply (sorted_head_le m l x Sx). now right.
    + pose proof (concat_above_ge m B SB HB) as F. rewrite Forall_forall in F. now apply F.
Qed.

(* stable sort *)
Lemma filter_insert k x l :
  filter (at_inst k) (insert_stable x l) =
  if at_inst k x then x :: filter (at_inst k) l else filter (at_inst k) l.
Proof.
  induction l as [|a l IH]; simpl.
  - destruct (at_inst k x); auto.
  - destruct (Z.leb_spec (m_inst x) (m_inst a)); simpl.
    + destruct (at_inst k x), (at_inst k a); auto.
    + rewrite IH. unfold at_inst.
      destruct (Z.eqb_spec (m_inst x) k), (Z.eqb_spec (m_inst a) k); auto. lia.
Qed.

Lemma stable_sort_filter k l : filter (at_inst k) (stable_sort l) = filter (at_inst k) l.
Proof.
  induction l as [|a l IH]; simpl; auto.
  rewrite filter_insert, IH. destruct (at_inst k a); auto.
Qed.

Lemma Forall_insert (P : msg -> Prop) x l : P x -> Forall P l -> Forall P (insert_stable x l).
Proof.
  intros Hx. induction 1; simpl; auto.
  destruct (m_inst x <=? m_inst x0); auto.
Qed.

Lemma insert_sorted x l : sorted_inst l -> sorted_inst (insert_stable x l).
Proof.
  induction l as [|a l IH]; intros H; simpl.
  - constructor; constructor.
  - inversion H as [|? ? Hs HF]; subst.
    destruct (Z.leb_spec (m_inst x) (m_inst a)).
    + constructor; auto. constructor; [unfold le_inst; lia|].
      eapply Forall_impl; [|exact HF]. unfold le_inst; intros; lia.
    + constructor; [apply IH; auto|]. apply Forall_insert; auto. unfold le_inst; lia.
Qed.

Lemma stable_sort_sorted l : sorted_inst (stable_sort l).
Proof. induction l; simpl; [constructor | now apply insert_sorted]. Qed.

Lemma insert_perm x l : Permutation (insert_stable x l) (x :: l).
Proof.
  induction l as [|a l IH]; simpl; auto.
  destruct (m_inst x <=? m_inst a); auto.
  rewrite IH. apply perm_swap.
Qed.

Lemma stable_sort_perm l : Permutation (stable_sort l) l.
Proof. induction l; simpl; auto. rewrite insert_perm. now constructor. Qed.

Lemma at_inst_refl m : at_inst (m_inst m) m = true.
Proof. unfold at_inst. apply Z.eqb_refl. Qed.
Lemma at_inst_true k m : m_inst m = k -> at_inst k m = true.
Proof. intros <-. apply at_inst_refl. Qed.
Lemma at_inst_false k m : m_inst m <> k -> at_inst k m = false.
Proof. intros H. unfold at_inst. now apply Z.eqb_neq. Qed.

(* a list sorted by instant is determined by its subsequences of equal instant *)
Lemma sorted_unique L1 : forall L2,
  sorted_inst L1 -> sorted_inst L2 ->
  (forall k, filter (at_inst k) L1 = filter (at_inst k) L2) -> L1 = L2.
Proof.
  induction L1 as [|a L1 IH]; intros [|b L2] H1 H2 HF; auto.
  - specialize (HF (m_inst b)). simpl in HF. rewrite at_inst_refl in HF. discriminate.
  - specialize (HF (m_inst a)). simpl in HF. rewrite at_inst_refl in HF. discriminate.
  - assert (Hab : m_inst b <= m_inst a).
    { apply (sorted_head_le b L2 a H2).
      assert (Hin : In a (filter (at_inst (m_inst a)) (b :: L2))).
      { rewrite <- HF. simpl. rewrite at_inst_refl. now left. }
      apply filter_In in Hin. tauto. }
    assert (Hba : m_inst a <= m_inst b).
    { apply (sorted_head_le a L1 b H1).
      assert (Hin : In b (filter (at_inst (m_inst b)) (a :: L1))).
      { rewrite HF. simpl. rewrite at_inst_refl. now left. }
      apply filter_In in Hin. tauto. }
    assert (E : m_inst b = m_inst a) by lia.
    pose proof (HF (m_inst a)) as H0. simpl in H0.
    rewrite at_inst_refl, (at_inst_true _ b E) in H0. inversion H0 as [[Eab Etl]]. subst b.
    f_equal. apply IH; eauto using sorted_tail.
    intros k. destruct (Z.eq_dec (m_inst a) k) as [<-|Hne]; auto.
    specialize (HF k). simpl in HF. rewrite (at_inst_false k a Hne) in HF. exact HF.
Qed.

Lemma merge_filter_inst k Ss :
  Forall sorted_inst Ss -> filter (at_inst k) (merge Ss) = filter (at_inst k) (concat Ss).
Proof.
  apply merge_ind with
    (P := fun Ss out => Forall sorted_inst Ss -> filter (at_inst k) out = filter (at_inst k) (concat Ss)).
  - intros X HX _. now rewrite concat_all_nil.
  - intros A m l B HA HB IH HS. apply sorted_split in HS as (SA & Sx & SB).
    assert (Sl := sorted_tail _ _ Sx).
    specialize (IH (sorted_join _ _ _ SA Sl SB)).
    rewrite concat_app in *. simpl in *. rewrite filter_app in *. simpl.
    destruct (at_inst k m) eqn:E; [|exact IH].
    rewrite IH. rewrite (filter_none (at_inst k) (concat A)); [reflexivity|].
    eapply Forall_impl; [|apply (concat_above_gt m A SA HA)].
    intros x Hx. unfold at_inst in *. apply Z.eqb_eq in E. apply Z.eqb_neq. lia.
Qed.

Lemma merge_is_stable_sort Ss :
  Forall sorted_inst Ss -> merge Ss = stable_sort (concat Ss).
Proof.
  intros HS. apply sorted_unique.
  - now apply merge_sorted.
  - apply stable_sort_sorted.
  - intros k. now rewrite merge_filter_inst, stable_sort_filter.
Qed.

(* earliest pending *)
Lemma after_merge k : forall Ss, merge Ss = firstn k (merge Ss) ++ merge (after k Ss).
Proof.
  induction k as [|k IH]; intros Ss; simpl; auto.
  destruct (pick Ss) as [[i m]|] eqn:E.
  - rewrite (merge_eq Ss), E. simpl. f_equal. apply IH.
  - rewrite (merge_eq Ss), E. reflexivity.
Qed.

Lemma split_earliest A m l B :
  Forall (hd_gt m) A -> Forall (hd_ge m) B -> earliest_at (A ++ (m :: l) :: B) (length A) m.
Proof.
  intros HA HB. split; [now rewrite nth_middle|]. split.
  - intros j h Hj. destruct (lt_eq_lt_dec j (length A)) as [[Hlt| ->]|Hgt].
    + rewrite app_nth1 in Hj; auto.
      pose proof (Forall_nth_default _ A [] HA I j) as Hg.
      destruct (nth j A []); simpl in *; [discriminate|]. inversion Hj; subst. lia.
    + rewrite nth_middle in Hj. simpl in Hj. inversion Hj; subst. lia.
    + rewrite app_nth2 in Hj; [|lia]. destruct (j - length A)%nat as [|p] eqn:Ep; [lia|].
      simpl in Hj. pose proof (Forall_nth_default _ B [] HB I p) as Hg.
      destruct (nth p B []); simpl in *; [discriminate|]. now inversion Hj; subst.
  - intros j h Hlt Hj. rewrite app_nth1 in Hj; auto.
    pose proof (Forall_nth_default _ A [] HA I j) as Hg.
    destruct (nth j A []); simpl in *; [discriminate|]. now inversion Hj; subst.
Qed.

Lemma merge_earliest_pending k : forall Ss m,
  nth_error (merge Ss) k = Some m -> exists i, earliest_at (after k Ss) i m.
Proof.
  induction k as [|k IH]; intros Ss m H; rewrite merge_eq in H; simpl;
    destruct (pick Ss) as [[i m0]|] eqn:E; try discriminate.
  - simpl in H. inversion H; subst m0.
    apply pick_some_inv in E as (A & l & B & -> & <- & HA & HB).
    exists (length A). now apply split_earliest.
  - simpl in H. now apply IH.
Qed.

(* the pick at any state is the earliest pending head, and conversely *)
Lemma pick_earliest Ss i m : pick Ss = Some (i, m) -> earliest_at Ss i m.
Proof.
  intros E. apply pick_some_inv in E as (A & l & B & -> & <- & HA & HB).
  now apply split_earliest.
Qed.

Lemma well_tagged_after k : forall Ss, well_tagged Ss -> well_tagged (after k Ss).
Proof.
  induction k as [|k IH]; intros Ss H; simpl; auto.
  destruct (pick Ss) as [[i m]|] eqn:E; auto.
  apply pick_some_inv in E as (A & l & B & -> & <- & _).
  rewrite pop_middle. simpl. apply IH. eapply well_tagged_pop; eauto.
Qed.

(* what remains of source j after k emissions is what source j has not yet emitted *)
Lemma after_spec Ss k j :
  well_tagged Ss ->
  nth j Ss [] = filter (from_src j) (firstn k (merge Ss)) ++ nth j (after k Ss) [].
Proof.
  intros H. rewrite <- (merge_per_source_order Ss H j).
  rewrite (after_merge k Ss) at 1. rewrite filter_app. f_equal.
  apply merge_per_source_order. now apply well_tagged_after.
Qed.

(* ------------------------------------------------------------------ empty sources *)

Lemma nil_ext_refl X : nil_ext X X.
Proof. induction X; constructor; auto. Qed.

Lemma nil_ext_app A A' B B' : nil_ext A A' -> nil_ext B B' -> nil_ext (A ++ B) (A' ++ B').
Proof. induction 1; simpl; intros; auto; constructor; auto. Qed.

Lemma nil_ext_Forall (P : list msg -> Prop) X X' :
  P [] -> nil_ext X X' -> Forall P X -> Forall P X'.
Proof.
  intros Hn. induction 1 as [|l X X' H IH|X X' H IH]; intros HF.
  - exact HF.
  - inversion HF; subst; constructor; auto.
  - constructor; auto.
Qed.

Lemma nil_ext_split A x B X' :
  nil_ext (A ++ x :: B) X' ->
  exists A' B', X' = A' ++ x :: B' /\ nil_ext A A' /\ nil_ext B B'.
Proof.
  remember (A ++ x :: B) as X eqn:EX. intros H. revert A EX.
  induction H as [|l X X' H IH|X X' H IH]; intros A EX.
  - destruct A; discriminate.
  - destruct A as [|a A]; simpl in EX; inversion EX; subst.
    + exists [], X'. repeat split; auto. constructor.
    + destruct (IH A eq_refl) as (A' & B' & -> & HA & HB).
      exists (a :: A'), B'. repeat split; auto. now constructor.
  - destruct (IH A EX) as (A' & B' & -> & HA & HB).
    exists ([] :: A'), B'. repeat split; auto. now constructor.
Qed.

Lemma merge_nil_ext_n n : forall X X', total X = n -> nil_ext X X' -> merge X = merge X'.
Proof.
  induction n as [|n IH]; intros X X' En HE;
    destruct (src_cases X) as [Hnil | (A & m & l & B & -> & HA & HB)].
  - rewrite !merge_nil; auto. eapply nil_ext_Forall; eauto; reflexivity.
  - rewrite total_middle in En. discriminate.
  - rewrite !merge_nil; auto. eapply nil_ext_Forall; eauto; reflexivity.
  - rewrite total_middle in En. inversion En as [En'].
    apply nil_ext_split in HE as (A' & B' & -> & EA & EB).
    rewrite !merge_step; auto.
    + f_equal. apply IH; auto. apply nil_ext_app; auto. now constructor.
    + eapply nil_ext_Forall; eauto. exact I.
    + eapply nil_ext_Forall; eauto. exact I.
Qed.

Lemma merge_nil_ext X X' : nil_ext X X' -> merge X = merge X'.
Proof. intros. eapply merge_nil_ext_n; eauto. Qed.

Lemma merge_insert_empty A B : merge (A ++ [] :: B) = merge (A ++ B).
Proof.
  symmetry. apply merge_nil_ext. apply nil_ext_app; [apply nil_ext_refl|].
  constructor. apply nil_ext_refl.
Qed.

Lemma nil_ext_filter X : nil_ext (filter nonempty X) X.
Proof. induction X as [|[|m l] X IH]; simpl; constructor; auto. Qed.

Lemma merge_remove_empties X : merge (filter nonempty X) = merge X.
Proof. apply merge_nil_ext, nil_ext_filter. Qed.

(* ------------------------------------------------------------------ isolation (for C06/C07) *)

Lemma emptied_Forall (P : msg -> bool) (Q : list msg -> Prop) X X' :
  Q [] -> Forall2 (emptied P) X X' -> Forall Q X -> Forall Q X'.
Proof.
  intros Hn. induction 1 as [|l l' X X' He H2 IH]; intros HF; auto.
  inversion HF; subst. constructor; auto.
  destruct He as [[-> _]|[-> _]]; auto.
Qed.

Lemma merge_isolation_n (P : msg -> bool) n : forall X X',
  total X = n -> Forall2 (emptied P) X X' -> filter P (merge X) = merge X'.
Proof.
  induction n as [|n IH]; intros X X' En HE;
    destruct (src_cases X) as [Hnil | (A & m & l & B & -> & HA & HB)].
  - rewrite !merge_nil; auto. eapply emptied_Forall; eauto; reflexivity.
  - rewrite total_middle in En. discriminate.
  - rewrite !merge_nil; auto. eapply emptied_Forall; eauto; reflexivity.
  - rewrite total_middle in En. inversion En as [En'].
    apply Forall2_app_inv_l in HE as (A' & R & EA & ER & ->).
    inversion ER as [|? y ? B' Hy EB]; subst.
    assert (GA : Forall (hd_gt m) A') by (eapply emptied_Forall; eauto; exact I).
    assert (GB : Forall (hd_ge m) B') by (eapply emptied_Forall; eauto; exact I).
    rewrite merge_step; auto. simpl.
    destruct Hy as [[-> HP]|[-> HP]]; inversion HP as [|? ? Pm Pl]; subst; rewrite Pm.
    + rewrite merge_step; auto. f_equal. apply IH; auto.
      apply Forall2_app; auto. constructor; auto. now left.
    + apply IH; auto. apply Forall2_app; auto. constructor; auto. now right.
Qed.

(* Emptying any set of sources (each recognisable by P) removes exactly their
   messages from the output: the other sources' messages keep the order that
   merge gives them on their own. *)
Lemma merge_isolation (P : msg -> bool) X X' :
  Forall2 (emptied P) X X' -> filter P (merge X) = merge X'.
Proof. intros. eapply merge_isolation_n; eauto. Qed.

Lemma emptied_same (P : msg -> bool) : forall X,
  (forall j m, In m (nth j X []) -> P m = true) -> Forall2 (emptied P) X X.
Proof.
  induction X as [|a X IH]; intros H; constructor.
  - left. split; auto. apply Forall_forall. intros m Hm. apply (H 0%nat). exact Hm.
  - apply IH. intros j m Hm. apply (H (S j)). exact Hm.
Qed.

Lemma nth_nonempty_lt {T} (A : list (list T)) j x : In x (nth j A []) -> (j < length A)%nat.
Proof.
  intros H. destruct (Nat.lt_ge_cases j (length A)); auto.
  rewrite nth_overflow in H; auto. contradiction.
Qed.

(* one failing source: whatever prefix x' of its messages it delivered, the
   messages of the other sources come out as merge of the other sources alone *)
Lemma merge_failing_source A x x' B :
  well_tagged (A ++ x :: B) ->
  Forall (fun m => m_src m = length A) x' ->
  filter (fun m => negb (from_src (length A) m)) (merge (A ++ x' :: B)) = merge (A ++ B).
Proof.
  intros Hwt Hx'. rewrite <- (merge_insert_empty A B).
  apply merge_isolation. apply Forall2_app; [|constructor].
  - apply emptied_same. intros j m Hm. pose proof (nth_nonempty_lt _ _ _ Hm) as Hj.
    assert (m_src m = j) as <-.
    { apply Hwt. rewrite app_nth1; auto. }
    unfold from_src. destruct (Nat.eqb_spec (m_src m) (length A)); auto. lia.
  - right. split; auto. eapply Forall_impl; [|exact Hx'].
    intros m Hm. unfold from_src. rewrite Hm, Nat.eqb_refl. reflexivity.
  - apply emptied_same. intros j m Hm.
    assert (m_src m = S (length A + j)) as E.
    { apply Hwt. rewrite app_nth2; [|lia].
      replace (S (length A + j) - length A)%nat with (S j) by lia. exact Hm. }
    unfold from_src. rewrite E. destruct (Nat.eqb_spec (S (length A + j)) (length A)); auto. lia.
Qed.

(* prefix lemma: a source that stops after k messages contributes exactly those k *)
Lemma merge_prefix_source A x B k :
  well_tagged (A ++ x :: B) ->
  filter (from_src (length A)) (merge (A ++ firstn k x :: B)) = firstn k x.
Proof.
  intros Hwt.
  assert (Hwt' : well_tagged (A ++ firstn k x :: B)).
  { intros i m Hm. destruct (Nat.eq_dec i (length A)) as [->|Hne].
    - rewrite nth_middle in Hm. apply Hwt. rewrite nth_middle.
      rewrite <- (firstn_skipn k x). apply in_or_app. now left.
    - apply Hwt. rewrite (nth_other _ _ (firstn k x)); auto. }
  rewrite merge_per_source_order; auto. now rewrite nth_middle.
Qed.

(* ------------------------------------------------------------------ tagging *)

Lemma tag_from_src i : forall l p m, In m (tag_from i p l) -> m_src m = i.
Proof.
  induction l as [|t l IH]; simpl; intros p m H; [contradiction|].
  destruct H as [<-|H]; eauto.
Qed.

Lemma tag_srcs_from_src : forall X i j m,
  In m (nth j (tag_srcs_from i X) []) -> m_src m = (i + j)%nat.
Proof.
  induction X as [|l X IH]; intros i j m H; simpl in H.
  - destruct j; contradiction.
  - destruct j as [|j].
    + apply tag_from_src in H. lia.
    + apply IH in H. lia.
Qed.

Lemma tag_srcs_well_tagged X : well_tagged (tag_srcs X).
Proof. intros i m H. now apply tag_srcs_from_src in H. Qed.
