(* Proofs/RetainNoErr.v — property C17: OUTSIDE the recorded finding F9a.  For every well-formed
   message sequence, every bound H on the consumer's references and EVERY schedule respecting H:
   a run of the CURRENT policy in which no release failed (drop_sysline Err = 0, a counter the
   --summary prints) keeps syslines high and lines high under the bounds of the repaired policy
   with the same H.  (Generalises RetainKeepsUp.cur_keeps_up_bounded from the consumer that keeps
   up to any admissible schedule; the blocks are excluded: finding F9b.)  The check's slow-consumer
   stage (C-slow) observes Err = 0 and the marks on files outside the recorded class. *)
From Coq Require Import List Arith NArith Bool Lia.
Import ListNotations.
From S4.Model Require Import Retain.
From S4.Proofs Require Import RetainProofs RetainLayout RetainLag RetainKeepsUp.
Open Scope N_scope.

Theorem cur_no_err_bounded bs span ml H ms c evs : pol c = P_cur -> wf bs span ml ms ->
  sched_ok H c (init ms) evs = true ->
  let s := run c (init ms) evs in
  derr s = 0 ->
  lenN (syslines s) <= hs s /\ hs s <= bound_syslines bs span /\
  lenN (lines s) <= hl s /\ hl s <= bound_lines bs span ml H /\
  lenN (pending s) <= H.
Proof.
  intros Hc Hwf Hk. cbv zeta. intros Hd.
  set (cr := {| pol := P_retry; streamed := streamed c |}).
  pose proof (cur_is_retry_without_err c cr evs Hc eq_refl (init ms) (init ms) (eqx_refl _) eq_refl Hd)
    as (E1 & E2 & E3 & _ & E5 & E6 & _).
  assert (Hs : sched_ok H cr (init ms) evs = true).
  { rewrite (eqx_sched_ok H c cr evs Hc eq_refl (init ms) (init ms) (eqx_refl _) eq_refl Hd). exact Hk. }
  pose proof (retry_bounded bs span ml H ms cr evs eq_refl Hwf Hs) as B. cbv zeta in B.
  destruct B as (B1 & B2 & B3 & B4 & _ & _ & B7). rewrite E1, E2, E3, E5, E6 in *. auto.
Qed.

(* for every layout (through layout_msgs_wf), in the form the check uses: the schedule sched_lag *)
Theorem cur_no_err_bounded_layout bs layout H c evs : pol c = P_cur -> layout_ok bs layout ->
  let ms := layout_msgs bs layout in
  sched_ok H c (init ms) evs = true ->
  let s := run c (init ms) evs in
  derr s = 0 ->
  hs s <= bound_syslines bs (max_span ms) /\ hl s <= bound_lines bs (max_span ms) (max_lines ms) H.
Proof.
  intros Hc Hl ms Hk s Hd.
  pose proof (cur_no_err_bounded bs (max_span ms) (max_lines ms) H ms c evs Hc (layout_msgs_wf bs layout Hl) Hk Hd)
    as (_ & B2 & _ & B4 & _). auto.
Qed.

(* the hypotheses are satisfiable with a consumer that lags: 240 lines of 20 bytes at block size 512
   (about 50 messages between a send and the drop that reaches the message), consumer 7 messages
   behind (channel capacity 5): no release fails, the marks are flat; 66 behind (capacity 64): 
   releases fail and lines high is the whole file. *)
Definition far_layout : list (N * bool) := repeat_list [(20, true)] 240.
Lemma no_err_example :
  let ms := layout_msgs 512 far_layout in
  let n := length ms in
  wfb 512 (max_span ms) (max_lines ms) ms = true /\
  sched_ok 7 cur_plain (init ms) (sched_lag 7 n) = true /\
  derr (run cur_plain (init ms) (sched_lag 7 n)) = 0 /\
  sched_ok 66 cur_plain (init ms) (sched_lag 66 n) = true /\
  0 < derr (run cur_plain (init ms) (sched_lag 66 n)).
Proof. vm_compute. repeat split; reflexivity. Qed.
