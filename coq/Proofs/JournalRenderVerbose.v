(* Proofs/JournalRenderVerbose.v — the order of the field lines of the verbose rendering.
   For any collection of (name, value) pairs (the Vec of next_verbose, or the HashMap it was before) and a
   FIELD_ORDER_VERBOSE without repetitions, the body is, in this order:
     1. for each name of FIELD_ORDER_VERBOSE (other than _SOURCE_REALTIME_TIMESTAMP), the lines of its values, in
        enumeration order;
     2. the remaining pairs (other than _SOURCE_REALTIME_TIMESTAMP), sorted by (name, value) as byte strings;
     3. the lines of _SOURCE_REALTIME_TIMESTAMP.
   Every line is FIELD_BEG name "=" value "\n" (the indentation is FIELD_BEG). *)
From Coq Require Import String Sorted.
From S4.Base Require Import Bytes.
From S4.Model Require Import Journal JournalRender.
From S4.Proofs Require Import JournalWindow JournalExport JournalRenderBasic JournalRenderMessage.
Open Scope list_scope.
Open Scope N_scope.

Definition key_neq (k : bytes) (f : field) : bool := negb (beqb k (fst f)).
Definition key_in (ks : list bytes) (f : field) : bool := existsb (fun k => beqb k (fst f)) ks.

(* all values bound to name k, in order *)
Definition values_of (k : bytes) (m : list field) : list bytes :=
  map snd (filter (fun f => beqb k (fst f)) m).

Lemma filter_filter {A} (p q : A -> bool) l : filter p (filter q l) = filter (fun x => q x && p x) l.
Proof.
  induction l as [|x l IH]; [reflexivity|]. cbn [filter]. destruct (q x); cbn [filter andb]; [destruct (p x)|]; rewrite IH; reflexivity.
Qed.

Lemma flat_map_ext_in {A B} (f g : A -> list B) l : (forall x, In x l -> f x = g x) -> flat_map f l = flat_map g l.
Proof.
  induction l as [|x l IH]; intro H; [reflexivity|]. cbn [flat_map].
  rewrite (H x (or_introl eq_refl)), IH; [reflexivity|]. intros y Hy. apply H. right. exact Hy.
Qed.

(* removing a name (fields_take / HashMap::remove): its values, and the collection without it *)
Lemma vm_take_spec k : forall m, vm_take k m = (values_of k m, filter (key_neq k) m).
Proof.
  induction m as [|[k' v'] r IH]; [reflexivity|].
  cbn [vm_take]. rewrite IH. unfold values_of, key_neq. cbn [filter fst].
  destruct (beqb k k'); reflexivity.
Qed.

Lemma values_of_filter_neq q k : forall m, q <> k -> values_of q (filter (key_neq k) m) = values_of q m.
Proof.
  intros m H. unfold values_of. f_equal. rewrite filter_filter. apply filter_ext. intro f.
  unfold key_neq. destruct (beqb q (fst f)) eqn:E; [|apply andb_false_r].
  apply beqb_eq in E. rewrite <- E. rewrite (beqb_neq_false k q (not_eq_sym H)). reflexivity.
Qed.

(* the lines written for the names of the order table, and what is left *)
Definition ordered_part (order : list bytes) (m : list field) : list field :=
  flat_map (fun k => map (pair k) (values_of k m)) order.
Definition unordered_part (order : list bytes) (m : list field) : list field :=
  filter (fun f => negb (key_in order f)) m.

Lemma take_ordered_spec cfg : forall order m, NoDup order ->
  take_ordered cfg order m = (concat (map (vl cfg) (ordered_part order m)), unordered_part order m).
Proof.
  induction order as [|k r IH]; intros m Ho.
  - cbn [take_ordered ordered_part flat_map map concat]. f_equal. symmetry. apply filter_all. reflexivity.
  - inversion Ho as [|? ? Hk Hr]; subst. cbn [take_ordered]. rewrite (vm_take_spec k m), (IH _ Hr). f_equal.
    + unfold ordered_part at 2. cbn [flat_map]. rewrite map_app, concat_app, vlines_vl. f_equal. f_equal. f_equal.
      unfold ordered_part. apply flat_map_ext_in. intros q Hq.
      rewrite values_of_filter_neq; [reflexivity|]. intro E. subst q. contradiction.
    + unfold unordered_part. rewrite filter_filter. apply filter_ext. intro f.
      unfold key_neq, key_in. cbn [existsb]. rewrite negb_orb. reflexivity.
Qed.

(* the body, in order *)
Theorem verbose_body_order_l cfg m :
  NoDup (cfg_order cfg) ->
  let m1 := filter (key_neq (cfg_k_source_rt cfg)) m in
  verbose_body cfg m
  = concat (map (vl cfg) (ordered_part (cfg_order cfg) m1
                          ++ sort_fields (unordered_part (cfg_order cfg) m1)
                          ++ map (pair (cfg_k_source_rt cfg)) (values_of (cfg_k_source_rt cfg) m))).
Proof.
  intros Ho m1. unfold verbose_body. rewrite (vm_take_spec _ m). fold m1.
  rewrite (take_ordered_spec cfg _ m1 Ho).
  rewrite !map_app, !concat_app, vlines_vl. reflexivity.
Qed.

(* a collection with pairwise different names (the HashMap) binds at most one value to a name *)
Lemma values_of_unique k : forall m, NoDup (map fst m) ->
  values_of k m = match assoc k m with Some v => [v] | None => [] end.
Proof.
  induction m as [|[k' v'] r IH]; intro Hn; [reflexivity|]. cbn [map fst] in Hn. inversion Hn as [|? ? Hk Hr]; subst.
  unfold values_of in *. cbn [filter fst assoc]. destruct (beqb k k') eqn:E.
  - apply beqb_eq in E. subst k'. cbn [map snd]. f_equal.
    rewrite (filter_none (fun f => beqb k (fst f)) r); [reflexivity|].
    intros f Hf. apply beqb_neq_false. intro E. apply Hk. rewrite E. apply in_map. exact Hf.
  - apply IH. exact Hr.
Qed.

(* Ord of byte strings and of (name, value) pairs is total: the second part of the body is sorted *)
Lemma bytes_cmp_antisym : forall a b, bytes_cmp b a = CompOpp (bytes_cmp a b).
Proof.
  induction a as [|x a IH]; intros [|y b]; cbn [bytes_cmp CompOpp]; try reflexivity.
  rewrite (N.compare_antisym x y). destruct (x ?= y); cbn [CompOpp]; [apply IH|reflexivity|reflexivity].
Qed.

Lemma field_leb_total f g : field_leb f g = false -> field_leb g f = true.
Proof.
  unfold field_leb. rewrite (bytes_cmp_antisym (fst f) (fst g)), (bytes_cmp_antisym (snd f) (snd g)).
  destruct (bytes_cmp (fst f) (fst g)); cbn [CompOpp]; try discriminate; try reflexivity.
  destruct (bytes_cmp (snd f) (snd g)); cbn [CompOpp]; try discriminate; reflexivity.
Qed.

Definition field_le (f g : field) : Prop := field_leb f g = true.

Lemma insert_sorted_sorted f : forall l, Sorted field_le l -> Sorted field_le (insert_sorted f l).
Proof.
  induction l as [|g r IH]; intro H; [repeat constructor|].
  cbn [insert_sorted]. destruct (field_leb f g) eqn:E.
  - constructor; [exact H|constructor; exact E].
  - inversion H as [|? ? Hr Hh]; subst. constructor; [apply IH; exact Hr|].
    destruct r as [|h r']; cbn [insert_sorted].
    + constructor. apply field_leb_total. exact E.
    + destruct (field_leb f h); constructor; [apply field_leb_total; exact E|inversion Hh; assumption].
Qed.

Theorem sort_fields_sorted_l l : Sorted field_le (sort_fields l).
Proof.
  induction l as [|f r IH]; [constructor|]. cbn [sort_fields fold_right]. apply insert_sorted_sorted. exact IH.
Qed.

(* the field map of next_verbose has pairwise different keys *)
Lemma vm_insert_keys k v : forall m, NoDup (map fst m) -> NoDup (map fst (vm_insert k v m)).
Proof.
  induction m as [|[k' v'] r IH]; intro H; cbn [vm_insert map fst]; [repeat constructor; intros []|].
  cbn [map fst] in H. inversion H as [|? ? Hk Hr]; subst.
  destruct (beqb k k') eqn:E; cbn [map fst].
  - apply beqb_eq in E. subst k'. constructor; assumption.
  - constructor; [|apply IH; exact Hr]. intro Hin.
    assert (G : forall q m0, In q (map fst (vm_insert k v m0)) -> q = k \/ In q (map fst m0)).
    { clear. intros q. induction m0 as [|[a b] m0 IH]; cbn [vm_insert map fst]; intro H.
      - destruct H as [<-|[]]. left. reflexivity.
      - destruct (beqb k a) eqn:E; cbn [map fst] in H.
        + apply beqb_eq in E. subst a. destruct H as [<-|H]; [left; reflexivity|right; right; exact H].
        + destruct H as [<-|H]; [right; left; reflexivity|]. destruct (IH H) as [->|H']; [left; reflexivity|right; right; exact H']. }
    destruct (G _ _ Hin) as [->|Hin']; [rewrite beqb_refl in E; discriminate|contradiction].
Qed.

Lemma verbose_map_keys cfg ev e : cfg_verbose_multi cfg = false -> NoDup (map fst (verbose_map cfg ev e)).
Proof.
  intro Hm. unfold verbose_map, vm_of. rewrite Hm. unfold vm_put.
  assert (H : forall ds m0, NoDup (map fst m0) ->
              NoDup (map fst (fold_left (fun m d => let '(k, v) := vfield cfg d in vm_insert k v m) ds m0))).
  { induction ds as [|d ds IH]; intros m0 H0; [exact H0|]. cbn [fold_left]. apply IH.
    destruct (vfield cfg d) as [k v]. apply vm_insert_keys. exact H0. }
  set (m := fold_left _ _ []).
  assert (Hmm : NoDup (map fst m)) by (apply H; constructor).
  destruct (vm_mem (cfg_k_mono cfg) m); [exact Hmm|]. destruct (mono_usec cfg ev e); [apply vm_insert_keys|]; exact Hmm.
Qed.

(* the Vec: every enumerated data object has its line in the verbose text *)
Theorem verbose_all_fields_l cfg ev e f :
  cfg_verbose_multi cfg = true -> cfg_formats_ok cfg = true -> keys_wf (e_fields e) ->
  In f (firstn (cfg_emerg_verbose cfg) (e_fields e)) ->
  exists b, render_verbose cfg ev e = Some b /\ infix (vline cfg (fst f) (vval cfg f)) b.
Proof.
  intros Hm Hok Hwf Hin.
  destruct (render_verbose_found cfg ev e (formats_ok_verbose cfg Hok)) as [ts [_ Hr]].
  eexists. split; [exact Hr|].
  apply infix_app_l. apply infix_cons. apply infix_app_l. apply infix_cons. apply verbose_body_line_l.
  unfold verbose_map, vm_of. rewrite raw_data_firstn.
  rewrite (vm_of_fields cfg _ [] (keys_wf_firstn _ _ Hwf)). rewrite Hm. unfold vm_put.
  rewrite fold_push. cbn [app].
  assert (Hb : In (fst f, vval cfg f) (map (fun f0 : field => (fst f0, vval cfg f0)) (firstn (cfg_emerg_verbose cfg) (e_fields e))))
    by (apply in_map_iff; exists f; split; [reflexivity|exact Hin]).
  match goal with |- context [vm_mem ?k ?m] => destruct (vm_mem k m) end; [exact Hb|].
  destruct (mono_usec cfg ev e); [apply in_or_app; left; exact Hb|exact Hb].
Qed.
