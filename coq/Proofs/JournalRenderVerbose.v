(* Proofs/JournalRenderVerbose.v — the order of the field lines of the verbose rendering.
   For a field map with pairwise different keys (the HashMap of next_verbose) and a FIELD_ORDER_VERBOSE
   without repetitions, the body is, in this order:
     1. for each name of FIELD_ORDER_VERBOSE (other than _SOURCE_REALTIME_TIMESTAMP) that the map binds, its line;
     2. the remaining bindings (other than _SOURCE_REALTIME_TIMESTAMP), sorted by (name, value) as byte strings;
     3. the line of _SOURCE_REALTIME_TIMESTAMP, if bound.
   Every line is FIELD_BEG name "=" value "\n" (the indentation is FIELD_BEG). *)
From Coq Require Import String Sorted.
From S4.Base Require Import Bytes.
From S4.Model Require Import Journal JournalRender.
From S4.Proofs Require Import JournalWindow JournalExport JournalRenderBasic JournalRenderMessage.
Open Scope list_scope.
Open Scope N_scope.

Definition key_neq (k : bytes) (f : field) : bool := negb (beqb k (fst f)).
Definition key_in (ks : list bytes) (f : field) : bool := existsb (fun k => beqb k (fst f)) ks.

(* HashMap::remove on a map with unique keys: the binding, and the map without it *)
Lemma vm_remove_spec k : forall m, NoDup (map fst m) ->
  vm_remove k m = (assoc k m, filter (key_neq k) m).
Proof.
  induction m as [|[k' v'] r IH]; intro Hn; [reflexivity|].
  cbn [vm_remove assoc filter map fst] in *. inversion Hn as [|? ? Hk Hr]; subst.
  unfold key_neq at 1. cbn [fst]. destruct (beqb k k') eqn:E; cbn [negb].
  - apply beqb_eq in E. subst k'. f_equal. symmetry.
    apply filter_all. intros f Hf. unfold key_neq. apply negb_true_iff. apply beqb_neq_false.
    intro E. apply Hk. rewrite E. apply in_map. exact Hf.
  - rewrite (IH Hr). reflexivity.
Qed.

Lemma NoDup_filter_keys (p : field -> bool) m : NoDup (map fst m) -> NoDup (map fst (filter p m)).
Proof.
  induction m as [|f r IH]; intro Hn; [constructor|]. cbn [map] in Hn. inversion Hn as [|? ? Hk Hr]; subst.
  cbn [filter]. destruct (p f); [|apply IH; exact Hr]. cbn [map]. constructor; [|apply IH; exact Hr].
  intro Hin. apply Hk. apply in_map_iff in Hin as [g [Eg Hg]]. apply filter_In in Hg as [Hg _].
  rewrite <- Eg. apply in_map. exact Hg.
Qed.

Lemma assoc_filter_neq q k : forall m, q <> k -> assoc q (filter (key_neq k) m) = assoc q m.
Proof.
  induction m as [|[k' v'] r IH]; intro H; [reflexivity|]. cbn [filter assoc]. unfold key_neq at 1. cbn [fst].
  destruct (beqb k k') eqn:E; cbn [negb].
  - apply beqb_eq in E. subst k'. rewrite (beqb_neq_false _ _ H). apply IH. exact H.
  - cbn [assoc]. rewrite IH by exact H. reflexivity.
Qed.

Lemma filter_filter {A} (p q : A -> bool) l : filter p (filter q l) = filter (fun x => q x && p x) l.
Proof.
  induction l as [|x l IH]; [reflexivity|]. cbn [filter]. destruct (q x); cbn [filter andb]; [destruct (p x)|]; rewrite IH; reflexivity.
Qed.

Lemma flat_map_ext_in {A B} (f g : A -> list B) l : (forall x, In x l -> f x = g x) -> flat_map f l = flat_map g l.
Proof.
  induction l as [|x l IH]; intro H; [reflexivity|]. cbn [flat_map].
  rewrite (H x (or_introl eq_refl)), IH; [reflexivity|]. intros y Hy. apply H. right. exact Hy.
Qed.

Lemma assoc_none_keys {A} k (l : list (bytes * A)) : assoc k l = None -> forall f, In f l -> fst f <> k.
Proof.
  induction l as [|[k' v'] r IH]; intros H f Hf; [destruct Hf|]. cbn [assoc] in H.
  destruct (beqb k k') eqn:E; [discriminate|]. destruct Hf as [<-|Hf]; [|exact (IH H f Hf)].
  cbn [fst]. intro E2. subst k'. rewrite beqb_refl in E. discriminate.
Qed.

(* the lines written for the names of the order table, and what is left *)
Definition ordered_part (order : list bytes) (m : list field) : list field :=
  flat_map (fun k => match assoc k m with Some v => [(k, v)] | None => [] end) order.
Definition unordered_part (order : list bytes) (m : list field) : list field :=
  filter (fun f => negb (key_in order f)) m.

Lemma take_ordered_spec cfg : forall order m, NoDup order -> NoDup (map fst m) ->
  take_ordered cfg order m = (concat (map (vl cfg) (ordered_part order m)), unordered_part order m).
Proof.
  induction order as [|k r IH]; intros m Ho Hm.
  - cbn [take_ordered ordered_part flat_map map concat]. f_equal. symmetry. apply filter_all. reflexivity.
  - inversion Ho as [|? ? Hk Hr]; subst. cbn [take_ordered]. rewrite (vm_remove_spec k m Hm).
    destruct (assoc k m) as [v|] eqn:Ea.
    + rewrite (IH _ Hr (NoDup_filter_keys _ m Hm)). f_equal.
      * unfold ordered_part at 2. cbn [flat_map]. rewrite Ea. cbn [app map concat]. unfold vl at 2. cbn [fst snd]. f_equal. f_equal. f_equal.
        unfold ordered_part. apply flat_map_ext_in. intros q Hq.
        rewrite assoc_filter_neq; [reflexivity|]. intro E. subst q. contradiction.
      * unfold unordered_part. rewrite filter_filter. apply filter_ext. intro f.
        unfold key_neq, key_in. cbn [existsb]. rewrite negb_orb. reflexivity.
    + rewrite (IH _ Hr Hm). f_equal.
      * unfold ordered_part at 2. cbn [flat_map]. rewrite Ea. reflexivity.
      * unfold unordered_part. apply filter_ext_in. intros f Hf. unfold key_in. cbn [existsb].
        rewrite (beqb_neq_false k (fst f)); [reflexivity|]. apply not_eq_sym. exact (assoc_none_keys k m Ea f Hf).
Qed.

(* the body, in order *)
Theorem verbose_body_order_l cfg m :
  NoDup (cfg_order cfg) -> NoDup (map fst m) ->
  let m1 := filter (key_neq (cfg_k_source_rt cfg)) m in
  verbose_body cfg m
  = concat (map (vl cfg) (ordered_part (cfg_order cfg) m1
                          ++ sort_fields (unordered_part (cfg_order cfg) m1)
                          ++ match assoc (cfg_k_source_rt cfg) m with
                             | Some s => [(cfg_k_source_rt cfg, s)]
                             | None => []
                             end)).
Proof.
  intros Ho Hm m1. unfold verbose_body. rewrite (vm_remove_spec _ m Hm). fold m1.
  rewrite (take_ordered_spec cfg _ m1 Ho (NoDup_filter_keys _ m Hm)).
  rewrite !map_app, !concat_app. f_equal. f_equal.
  destruct (assoc (cfg_k_source_rt cfg) m); [cbn [map concat]; rewrite app_nil_r|]; reflexivity.
Qed.

(* Ord of byte strings and of (name, value) pairs is total: the second part of the body is sorted *)
Lemma bytes_cmp_antisym : forall a b, bytes_cmp b a = CompOpp (bytes_cmp a b).
Proof.
  induction a as [|x a IH]; intros [|y b]; cbn [bytes_cmp CompOpp]; try reflexivity.
  rewrite (N.compare_antisym x y). destruct (x ?= y); cbn [CompOpp]; [apply IH|reflexivity|reflexivity].
Qed.

Lemma field_leb_total f g : field_leb f g = false -> field_leb g f = true.
Proof.
  unfold field_leb. rewrite (bytes_cmp_antisym (fst f) (fst g)), (bytes_cmp_antisym (snd f) (snd g)).
  destruct (bytes_cmp (fst f) (fst g)); cbn [CompOpp]; try discriminate; try reflexivity.
  destruct (bytes_cmp (snd f) (snd g)); cbn [CompOpp]; try discriminate; reflexivity.
Qed.

Definition field_le (f g : field) : Prop := field_leb f g = true.

Lemma insert_sorted_sorted f : forall l, Sorted field_le l -> Sorted field_le (insert_sorted f l).
Proof.
  induction l as [|g r IH]; intro H; [repeat constructor|].
  cbn [insert_sorted]. destruct (field_leb f g) eqn:E.
  - constructor; [exact H|constructor; exact E].
  - inversion H as [|? ? Hr Hh]; subst. constructor; [apply IH; exact Hr|].
    destruct r as [|h r']; cbn [insert_sorted].
    + constructor. apply field_leb_total. exact E.
    + destruct (field_leb f h); constructor; [apply field_leb_total; exact E|inversion Hh; assumption].
Qed.

Theorem sort_fields_sorted_l l : Sorted field_le (sort_fields l).
Proof.
  induction l as [|f r IH]; [constructor|]. cbn [sort_fields fold_right]. apply insert_sorted_sorted. exact IH.
Qed.

(* the field map of next_verbose has pairwise different keys *)
Lemma vm_insert_keys k v : forall m, NoDup (map fst m) -> NoDup (map fst (vm_insert k v m)).
Proof.
  induction m as [|[k' v'] r IH]; intro H; cbn [vm_insert map fst]; [repeat constructor; intros []|].
  cbn [map fst] in H. inversion H as [|? ? Hk Hr]; subst.
  destruct (beqb k k') eqn:E; cbn [map fst].
  - apply beqb_eq in E. subst k'. constructor; assumption.
  - constructor; [|apply IH; exact Hr]. intro Hin.
    assert (G : forall q m0, In q (map fst (vm_insert k v m0)) -> q = k \/ In q (map fst m0)).
    { clear. intros q. induction m0 as [|[a b] m0 IH]; cbn [vm_insert map fst]; intro H.
      - destruct H as [<-|[]]. left. reflexivity.
      - destruct (beqb k a) eqn:E; cbn [map fst] in H.
        + apply beqb_eq in E. subst a. destruct H as [<-|H]; [left; reflexivity|right; right; exact H].
        + destruct H as [<-|H]; [right; left; reflexivity|]. destruct (IH H) as [->|H']; [left; reflexivity|right; right; exact H']. }
    destruct (G _ _ Hin) as [->|Hin']; [rewrite beqb_refl in E; discriminate|contradiction].
Qed.

Lemma verbose_map_keys cfg ev e : NoDup (map fst (verbose_map cfg ev e)).
Proof.
  unfold verbose_map, vm_of.
  assert (H : forall ds m0, NoDup (map fst m0) ->
              NoDup (map fst (fold_left (fun m d => let '(k, v) := vfield cfg d in vm_insert k v m) ds m0))).
  { induction ds as [|d ds IH]; intros m0 H0; [exact H0|]. cbn [fold_left]. apply IH.
    destruct (vfield cfg d) as [k v]. apply vm_insert_keys. exact H0. }
  set (m := fold_left _ _ []).
  assert (Hm : NoDup (map fst m)) by (apply H; constructor).
  destruct (vm_mem (cfg_k_mono cfg) m); [exact Hm|]. destruct (mono_usec cfg ev e); [apply vm_insert_keys|]; exact Hm.
Qed.
